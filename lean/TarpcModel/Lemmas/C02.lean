import TarpcModel.Client.Settle
import TarpcModel.Server.Settle
import TarpcModel.Lemmas.ServerExpire
/-!
# Helper lemmas for C02 (no wakeup is lost)

Call-local / execution-local equational lemmas (`getCall` after `updCall`, `wakeCall`, `osSend`,
`osDropTx`; the server analogues), the monotonicity of the `woken` flag under wakes of *other* tasks,
frame lemmas for the waker flags, and a fuel-returning variant of the two `settleLoop`s.
Nothing here depends on `runFuel`, `removeTimer` or `insertRequest` of the client model.
-/

/-! ## DelayQ: the stored waker survives a whole `poll_expired` -/
namespace TarpcModel.DelayQ

theorem cascade_waker (fuel : Nat) (q : DelayQ) (l sl : Nat) : (cascade fuel q l sl).waker = q.waker := by
  induction fuel generalizing q with
  | zero => rfl
  | succ n ih =>
    unfold cascade
    split
    · rfl
    · rw [ih]

theorem wheelPoll_waker (fuel : Nat) (q : DelayQ) (now : Nat) : (wheelPoll fuel q now).1.waker = q.waker := by
  induction fuel generalizing q with
  | zero => rfl
  | succ n ih =>
    unfold wheelPoll
    split
    · rfl
    · split
      · rfl
      · split
        · split <;> rfl
        · rw [ih]; exact cascade_waker _ _ _ _

theorem pollIdx_waker (fuel : Nat) (q : DelayQ) (now : Nat) (h : q.waker = true) :
    (pollIdx fuel q now).1.waker = true := by
  induction fuel generalizing q with
  | zero => exact h
  | succ n ih =>
    unfold pollIdx
    split
    · split
      · rfl
      · simp only
        split
        · simp only [wheelPoll_waker]; exact h
        · split
          · rfl
          · apply ih; simp only [wheelPoll_waker]; exact h
    · simp only
      split
      · simp only [wheelPoll_waker]; exact h
      · split
        · rfl
        · apply ih; simp only [wheelPoll_waker]; exact h

/-- `poll_expired` stores the caller's waker before anything else and nothing in it clears it. -/
theorem pollExpired_waker (q : DelayQ) (now : Nat) : (q.pollExpired now).1.waker = true := by
  unfold pollExpired
  simp only
  split
  · rfl
  · exact pollIdx_waker _ _ _ rfl

end TarpcModel.DelayQ

/-! ## Client -/
namespace TarpcModel.Client

/-- The dispatch future exists and has not completed. -/
def dispatchAlive (s : St) : Prop := s.dDropped = false ∧ s.done = none

theorem wakeDispatch_woken (s : St) (hd : s.dDropped = false) (hn : s.done = none) :
    (wakeDispatch s).dWoken = true := by
  unfold wakeDispatch
  simp [hd, hn, emit]

theorem wakeDispatch_dWoken_mono (s : St) (h : s.dWoken = true) : (wakeDispatch s).dWoken = true := by
  unfold wakeDispatch
  split
  · exact h
  · rfl

@[simp] theorem wakeDispatch_calls (s : St) : (wakeDispatch s).calls = s.calls := by
  unfold wakeDispatch; split <;> rfl
@[simp] theorem wakeDispatch_dDropped (s : St) : (wakeDispatch s).dDropped = s.dDropped := by
  unfold wakeDispatch; split <;> rfl
@[simp] theorem wakeDispatch_done (s : St) : (wakeDispatch s).done = s.done := by
  unfold wakeDispatch; split <;> rfl
@[simp] theorem wakeDispatch_cqRxWaker (s : St) : (wakeDispatch s).cqRxWaker = s.cqRxWaker := by
  unfold wakeDispatch; split <;> rfl
@[simp] theorem wakeDispatch_pqRxWaker (s : St) : (wakeDispatch s).pqRxWaker = s.pqRxWaker := by
  unfold wakeDispatch; split <;> rfl

theorem liftT_woken (s : St) (r : SimT × Bool) (h : dispatchAlive s) (hr : r.2 = true) :
    (liftT s r).dWoken = true := by
  unfold liftT
  simp only [hr, ↓reduceIte]
  exact wakeDispatch_woken _ h.1 h.2

/-! ### frame lemmas: observations and call updates do not touch the dispatch's own flags -/

theorem foldl_emit_eq {α : Type} (f : St → α → Obs) (l : List α) (s : St) :
    ∃ o, l.foldl (fun s w => emit s (f s w)) s = { s with obs := o } := by
  induction l generalizing s with
  | nil => exact ⟨s.obs, rfl⟩
  | cons x xs ih =>
    obtain ⟨o, ho⟩ := ih (emit s (f s x))
    exact ⟨o, by simp only [List.foldl_cons, ho]; rfl⟩

theorem emitViolations_eq (s : St) (n : Nat) : ∃ o, emitViolations s n = { s with obs := o } := by
  unfold emitViolations
  exact foldl_emit_eq (fun s w => .tViolation (tid s) w) _ s

@[simp] theorem emitViolations_dDropped (s : St) (n : Nat) : (emitViolations s n).dDropped = s.dDropped := by
  obtain ⟨o, ho⟩ := emitViolations_eq s n; rw [ho]
@[simp] theorem emitViolations_done (s : St) (n : Nat) : (emitViolations s n).done = s.done := by
  obtain ⟨o, ho⟩ := emitViolations_eq s n; rw [ho]

@[simp] theorem updCall_pqClosed (s : St) (x : Nat) (f : Call → Call) : (updCall s x f).pqClosed = s.pqClosed := rfl
@[simp] theorem updCall_dDropped (s : St) (x : Nat) (f : Call → Call) : (updCall s x f).dDropped = s.dDropped := rfl
@[simp] theorem updCall_pqAvail (s : St) (x : Nat) (f : Call → Call) : (updCall s x f).pqAvail = s.pqAvail := rfl
@[simp] theorem updCall_pqWaiters (s : St) (x : Nat) (f : Call → Call) : (updCall s x f).pqWaiters = s.pqWaiters := rfl
@[simp] theorem updCall_pqAssigned (s : St) (x : Nat) (f : Call → Call) : (updCall s x f).pqAssigned = s.pqAssigned := rfl

/-! ### `getCall` after the call-local updates -/

theorem find_upd (l : List Call) (cid : Nat) (f : Call → Call) (hf : ∀ c, (f c).cid = c.cid) :
    (l.map (fun c => if c.cid == cid then f c else c)).find? (·.cid == cid) =
      (l.find? (·.cid == cid)).map f := by
  induction l with
  | nil => rfl
  | cons x xs ih =>
    by_cases hx : x.cid = cid
    · have h1 : (x.cid == cid) = true := by simp [hx]
      have h2 : ((f x).cid == cid) = true := by simp [hf, hx]
      simp only [List.map_cons, h1, ↓reduceIte, List.find?_cons, h2, Option.map_some]
    · have h1 : (x.cid == cid) = false := by simp [hx]
      simp only [List.map_cons, h1, Bool.false_eq_true, ↓reduceIte, List.find?_cons]
      exact ih

theorem find_upd_ne (l : List Call) (x cid : Nat) (hne : x ≠ cid) (f : Call → Call)
    (hf : ∀ c, (f c).cid = c.cid) :
    (l.map (fun c => if c.cid == x then f c else c)).find? (·.cid == cid) = l.find? (·.cid == cid) := by
  induction l with
  | nil => rfl
  | cons y ys ih =>
    by_cases hy : y.cid = x
    · have h1 : (y.cid == x) = true := by simp [hy]
      have h2 : ((f y).cid == cid) = false := by simp [hf, hy, hne]
      have h3 : (y.cid == cid) = false := by simp [hy, hne]
      simp only [List.map_cons, h1, ↓reduceIte, List.find?_cons, h2, h3]
      exact ih
    · have h1 : (y.cid == x) = false := by simp [hy]
      simp only [List.map_cons, h1, Bool.false_eq_true, ↓reduceIte, List.find?_cons]
      split
      · rfl
      · exact ih

theorem getCall_updCall (s : St) (cid : Nat) (f : Call → Call) (hf : ∀ c, (f c).cid = c.cid) :
    getCall (updCall s cid f) cid = (getCall s cid).map f := by
  simp only [getCall, updCall]
  exact find_upd s.calls cid f hf

theorem getCall_updCall_ne (s : St) (x cid : Nat) (hne : x ≠ cid) (f : Call → Call)
    (hf : ∀ c, (f c).cid = c.cid) : getCall (updCall s x f) cid = getCall s cid := by
  simp only [getCall, updCall]
  exact find_upd_ne s.calls x cid hne f hf

theorem getCall_emit (s : St) (o : Obs) (cid : Nat) : getCall (emit s o) cid = getCall s cid := rfl

theorem getCall_congr (s s' : St) (h : s'.calls = s.calls) (cid : Nat) : getCall s' cid = getCall s cid := by
  simp only [getCall, h]

theorem getCall_wakeDispatch (s : St) (cid : Nat) : getCall (wakeDispatch s) cid = getCall s cid :=
  getCall_congr _ _ (wakeDispatch_calls s) cid

/-- What one wake does to a call record. -/
def wokenC (c : Call) : Call := { c with woken := true }

theorem getCall_wakeCall_self (s : St) (cid : Nat) (c : Call) (hg : getCall s cid = some c)
    (hl : callLive c = true) : getCall (wakeCall s cid) cid = some (wokenC c) := by
  unfold wakeCall
  simp only [hg, hl, ↓reduceIte, getCall_emit]
  rw [getCall_updCall _ _ _ ?_, hg]
  · rfl
  · intro _; rfl

theorem wakeCall_not_live (s : St) (cid : Nat) (c : Call) (hg : getCall s cid = some c)
    (hl : callLive c = false) : wakeCall s cid = s := by
  unfold wakeCall
  simp [hg, hl]

theorem getCall_wakeCall_ne (s : St) (x cid : Nat) (hne : x ≠ cid) :
    getCall (wakeCall s x) cid = getCall s cid := by
  unfold wakeCall
  split
  · split
    · rw [getCall_emit, getCall_updCall_ne _ _ _ hne _ ?_]
      intro _; rfl
    · rfl
  · rfl

theorem wakeCall_woken (s : St) (cid : Nat) (c : Call) (hg : getCall s cid = some c) (hl : callLive c = true) :
    (getCall (wakeCall s cid) cid).map (·.woken) = some true := by
  rw [getCall_wakeCall_self s cid c hg hl]; rfl

/-- Call `cid` exists, is live and its waker has fired. -/
def WokenLive (s : St) (cid : Nat) : Prop := ∃ c, getCall s cid = some c ∧ callLive c = true ∧ c.woken = true

/-- Call `cid` exists and is live. -/
def Live (s : St) (cid : Nat) : Prop := ∃ c, getCall s cid = some c ∧ callLive c = true

theorem WokenLive.map_woken {s : St} {cid : Nat} (h : WokenLive s cid) :
    (getCall s cid).map (·.woken) = some true := by
  obtain ⟨c, hg, _, hw⟩ := h
  simp [hg, hw]

theorem wakeCall_live (s : St) (x cid : Nat) (h : Live s cid) : Live (wakeCall s x) cid := by
  obtain ⟨c, hg, hl⟩ := h
  by_cases hx : x = cid
  · subst hx
    exact ⟨wokenC c, getCall_wakeCall_self s x c hg hl, hl⟩
  · exact ⟨c, by rw [getCall_wakeCall_ne s x cid hx]; exact hg, hl⟩

/-- Waking one call never un-wakes another (or the same) call. -/
theorem wakeCall_wokenLive_mono (s : St) (x cid : Nat) (h : WokenLive s cid) : WokenLive (wakeCall s x) cid := by
  obtain ⟨c, hg, hl, hw⟩ := h
  by_cases hx : x = cid
  · subst hx
    exact ⟨wokenC c, getCall_wakeCall_self s x c hg hl, hl, rfl⟩
  · exact ⟨c, by rw [getCall_wakeCall_ne s x cid hx]; exact hg, hl, hw⟩

theorem wakeCall_wokenLive_self (s : St) (cid : Nat) (h : Live s cid) : WokenLive (wakeCall s cid) cid := by
  obtain ⟨c, hg, hl⟩ := h
  exact ⟨wokenC c, getCall_wakeCall_self s cid c hg hl, hl, rfl⟩

theorem foldl_wakeCall_live (ws : List Nat) (s : St) (cid : Nat) (h : Live s cid) :
    Live (ws.foldl wakeCall s) cid := by
  induction ws generalizing s with
  | nil => exact h
  | cons w ws ih => exact ih _ (wakeCall_live s w cid h)

theorem foldl_wakeCall_mono (ws : List Nat) (s : St) (cid : Nat) (h : WokenLive s cid) :
    WokenLive (ws.foldl wakeCall s) cid := by
  induction ws generalizing s with
  | nil => exact h
  | cons w ws ih => exact ih _ (wakeCall_wokenLive_mono s w cid h)

/-- A fold of `wakeCall` over a list wakes every live member of the list. -/
theorem foldl_wakeCall_wakes (ws : List Nat) (s : St) (cid : Nat) (hm : cid ∈ ws) (h : Live s cid) :
    WokenLive (ws.foldl wakeCall s) cid := by
  induction ws generalizing s with
  | nil => cases hm
  | cons w ws ih =>
    simp only [List.foldl_cons]
    by_cases hw : w = cid
    · subst hw
      exact foldl_wakeCall_mono ws _ w (wakeCall_wokenLive_self s w h)
    · have : cid ∈ ws := by
        cases hm with
        | head => exact absurd rfl hw
        | tail _ h' => exact h'
      exact ih _ this (wakeCall_live s w cid h)

/-! ### the oneshot -/

/-- What `Sender::send` does to the receiving call's record. -/
def sentC (c : Call) (o : Outcome) : Call :=
  { c with os := { c.os with val := some o, rxWaker := false },
           woken := c.woken || (c.os.rxWaker && callLive c) }

theorem getCall_osSend_self (s : St) (cid : Nat) (o : Outcome) (c : Call) (hg : getCall s cid = some c)
    (hopen : c.os.rxClosed = false) : getCall (osSend s cid o) cid = some (sentC c o) := by
  unfold osSend
  simp only [hg, hopen, Bool.false_eq_true, ↓reduceIte]
  have hg' : getCall (updCall s cid (fun c => { c with os := { c.os with val := some o, rxWaker := false } })) cid
      = some { c with os := { c.os with val := some o, rxWaker := false } } := by
    rw [getCall_updCall _ _ _ ?_, hg]
    · rfl
    · intro _; rfl
  cases hw : c.os.rxWaker
  · simp only [Bool.false_eq_true, ↓reduceIte, hg', sentC, hw, Bool.false_and, Bool.or_false]
  · simp only [↓reduceIte]
    cases hl : callLive c
    · rw [wakeCall_not_live _ cid _ hg' (by simpa [callLive] using hl), hg']
      simp [sentC, hw, hl]
    · rw [getCall_wakeCall_self _ cid _ hg' (by simpa [callLive] using hl)]
      simp [sentC, wokenC, hw, hl]

/-- What dropping the unsent `Sender` does to the receiving call's record. -/
def dropTxC (c : Call) : Call :=
  if c.os.val.isSome || c.os.txDropped then c
  else { c with os := { c.os with txDropped := true, rxWaker := false },
                woken := c.woken || (c.os.rxWaker && callLive c) }

theorem getCall_osDropTx_self (s : St) (cid : Nat) (c : Call) (hg : getCall s cid = some c) :
    getCall (osDropTx s cid) cid = some (dropTxC c) := by
  unfold osDropTx
  simp only [hg]
  by_cases hc : (c.os.val.isSome || c.os.txDropped) = true
  · simp only [hc, ↓reduceIte, hg, dropTxC]
  · simp only [hc, Bool.false_eq_true, ↓reduceIte, dropTxC]
    have hg' : getCall (updCall s cid (fun c => { c with os := { c.os with txDropped := true, rxWaker := false } })) cid
        = some { c with os := { c.os with txDropped := true, rxWaker := false } } := by
      rw [getCall_updCall _ _ _ ?_, hg]
      · rfl
      · intro _; rfl
    cases hw : c.os.rxWaker
    · simp only [Bool.false_eq_true, ↓reduceIte, hg', Bool.false_and, Bool.or_false]
    · simp only [↓reduceIte]
      cases hl : callLive c
      · rw [wakeCall_not_live _ cid _ hg' (by simpa [callLive] using hl), hg']
        simp
      · rw [getCall_wakeCall_self _ cid _ hg' (by simpa [callLive] using hl)]
        simp [wokenC]

theorem getCall_osDropTx_ne (s : St) (x cid : Nat) (hne : x ≠ cid) :
    getCall (osDropTx s x) cid = getCall s cid := by
  unfold osDropTx
  split
  · rfl
  · split
    · rfl
    · simp only
      split
      · rw [getCall_wakeCall_ne _ _ _ hne, getCall_updCall_ne _ _ _ hne _ ?_]
        intro _; rfl
      · rw [getCall_updCall_ne _ _ _ hne _ ?_]
        intro _; rfl

/-- The call is live and either already woken or parked on an empty oneshot whose sender is alive. -/
def ParkedOrWoken (c : Call) : Prop :=
  callLive c = true ∧ (c.woken = true ∨ (c.os.val = none ∧ c.os.txDropped = false ∧ c.os.rxWaker = true))

theorem dropTxC_live (c : Call) : callLive (dropTxC c) = callLive c := by
  unfold dropTxC; split <;> rfl

theorem dropTxC_wakes (c : Call) (h : ParkedOrWoken c) : callLive (dropTxC c) = true ∧ (dropTxC c).woken = true := by
  obtain ⟨hl, h⟩ := h
  refine ⟨by rw [dropTxC_live]; exact hl, ?_⟩
  unfold dropTxC
  rcases h with hw | ⟨hv, ht, hr⟩
  · split
    · exact hw
    · simp [hw]
  · simp [hv, ht, hr, hl]

theorem wokenC_parkedOrWoken (c : Call) (h : callLive c = true) : ParkedOrWoken (wokenC c) := ⟨h, Or.inl rfl⟩

theorem foldl_wakeCall_parked (ws : List Nat) (s : St) (cid : Nat) (c : Call) (hg : getCall s cid = some c)
    (h : ParkedOrWoken c) : ∃ c', getCall (ws.foldl wakeCall s) cid = some c' ∧ ParkedOrWoken c' := by
  induction ws generalizing s c with
  | nil => exact ⟨c, hg, h⟩
  | cons w ws ih =>
    simp only [List.foldl_cons]
    by_cases hw : w = cid
    · subst hw
      exact ih _ (wokenC c) (getCall_wakeCall_self s w c hg h.1) (wokenC_parkedOrWoken c h.1)
    · exact ih _ c (by rw [getCall_wakeCall_ne s w cid hw]; exact hg) h

/-- Dropping the oneshot senders of a list of calls wakes every live, parked member and un-wakes nobody. -/
theorem foldl_osDropTx {α : Type} (key : α → Nat) (l : List α) (s : St) (cid : Nat) (c : Call)
    (hg : getCall s cid = some c) (h : ParkedOrWoken c) :
    ∃ c', getCall (l.foldl (fun s r => osDropTx s (key r)) s) cid = some c' ∧ ParkedOrWoken c' ∧
      (cid ∈ l.map key → c'.woken = true) := by
  induction l generalizing s c with
  | nil => exact ⟨c, hg, h, fun hm => by cases hm⟩
  | cons x xs ih =>
    simp only [List.foldl_cons, List.map_cons, List.mem_cons]
    by_cases hx : key x = cid
    · have hd := dropTxC_wakes c h
      have hg1 : getCall (osDropTx s (key x)) cid = some (dropTxC c) := by
        rw [hx]; exact getCall_osDropTx_self s cid c hg
      obtain ⟨c', hg', hp', _⟩ := ih (osDropTx s (key x)) (dropTxC c) hg1 ⟨hd.1, Or.inl hd.2⟩
      -- once woken, the rest of the fold keeps it woken
      have hw' : c'.woken = true := by
        have := foldl_osDropTx_woken key xs (osDropTx s (key x)) cid (dropTxC c) hg1 hd.1 hd.2
        rw [hg'] at this
        simpa using this
      exact ⟨c', hg', hp', fun _ => hw'⟩
    · have hg1 : getCall (osDropTx s (key x)) cid = some c := by
        rw [getCall_osDropTx_ne s (key x) cid hx]; exact hg
      obtain ⟨c', hg', hp', hm'⟩ := ih (osDropTx s (key x)) c hg1 h
      refine ⟨c', hg', hp', fun hm => hm' ?_⟩
      rcases hm with hm | hm
      · exact absurd hm.symm hx
      · exact hm
where
  foldl_osDropTx_woken {α : Type} (key : α → Nat) (l : List α) (s : St) (cid : Nat) (c : Call)
      (hg : getCall s cid = some c) (hl : callLive c = true) (hw : c.woken = true) :
      (getCall (l.foldl (fun s r => osDropTx s (key r)) s) cid).map (·.woken) = some true := by
    induction l generalizing s c with
    | nil => simp [hg, hw]
    | cons x xs ih =>
      simp only [List.foldl_cons]
      by_cases hx : key x = cid
      · have hd := dropTxC_wakes c ⟨hl, Or.inl hw⟩
        exact ih _ (dropTxC c) (by rw [hx]; exact getCall_osDropTx_self s cid c hg) hd.1 hd.2
      · exact ih _ c (by rw [getCall_osDropTx_ne s (key x) cid hx]; exact hg) hl hw

/-! ### frame lemmas used for `dropDispatch` -/

@[simp] theorem wakeCall_pq (s : St) (x : Nat) : (wakeCall s x).pq = s.pq := by
  unfold wakeCall; split
  · split <;> rfl
  · rfl
@[simp] theorem wakeCall_inflight (s : St) (x : Nat) : (wakeCall s x).inflight = s.inflight := by
  unfold wakeCall; split
  · split <;> rfl
  · rfl
@[simp] theorem wakeCall_pqAssigned (s : St) (x : Nat) : (wakeCall s x).pqAssigned = s.pqAssigned := by
  unfold wakeCall; split
  · split <;> rfl
  · rfl
@[simp] theorem wakeCall_pqWaiters (s : St) (x : Nat) : (wakeCall s x).pqWaiters = s.pqWaiters := by
  unfold wakeCall; split
  · split <;> rfl
  · rfl

theorem foldl_wakeCall_pq (ws : List Nat) (s : St) : (ws.foldl wakeCall s).pq = s.pq := by
  induction ws generalizing s with
  | nil => rfl
  | cons w ws ih => simp only [List.foldl_cons, ih, wakeCall_pq]

theorem foldl_wakeCall_inflight (ws : List Nat) (s : St) : (ws.foldl wakeCall s).inflight = s.inflight := by
  induction ws generalizing s with
  | nil => rfl
  | cons w ws ih => simp only [List.foldl_cons, ih, wakeCall_inflight]

@[simp] theorem pqClose_pq (s : St) : (pqClose s).pq = s.pq := by
  unfold pqClose; simp only [foldl_wakeCall_pq]
@[simp] theorem pqClose_inflight (s : St) : (pqClose s).inflight = s.inflight := by
  unfold pqClose; simp only [foldl_wakeCall_inflight]

@[simp] theorem osDropTx_inflight (s : St) (x : Nat) : (osDropTx s x).inflight = s.inflight := by
  unfold osDropTx
  split
  · rfl
  · split
    · rfl
    · simp only
      split
      · simp only [wakeCall_inflight]; rfl
      · rfl

theorem foldl_osDropTx_inflight {α : Type} (key : α → Nat) (l : List α) (s : St) :
    (l.foldl (fun s r => osDropTx s (key r)) s).inflight = s.inflight := by
  induction l generalizing s with
  | nil => rfl
  | cons x xs ih => simp only [List.foldl_cons, ih, osDropTx_inflight]

/-- The intermediate states of `dropDispatch` on a live, unpoisoned dispatch. -/
def ddS1 (s : St) : St := pqClose { s with dDropped := true, dWoken := false }
def ddS2 (s : St) : St :=
  (ddS1 s).pq.foldl (fun s r => osDropTx s r.cid)
    { ddS1 s with pq := [], pqAvail := (ddS1 s).bufCap - (ddS1 s).pqAssigned.length }
def ddS3 (s : St) : St :=
  (ddS2 s).inflight.foldl (fun s e => osDropTx s e.cid) { ddS2 s with inflight := [], timers := {} }

theorem dropDispatch_eq (s : St) (hd : s.dDropped = false) (hp : s.poisoned = false) :
    dropDispatch s = { ddS3 s with cq := [] } := by
  unfold dropDispatch
  rw [if_neg (by simp [hd, hp])]
  rfl

theorem ddS1_pq (s : St) : (ddS1 s).pq = s.pq := by unfold ddS1; rw [pqClose_pq]
theorem ddS2_inflight (s : St) : (ddS2 s).inflight = s.inflight := by
  unfold ddS2; rw [foldl_osDropTx_inflight]; show (ddS1 s).inflight = _; unfold ddS1; rw [pqClose_inflight]

/-- **Terminal fan-out**: when the dispatch goes away, every live caller parked on an empty oneshot whose
request is still queued or in flight is woken (or was already). -/
theorem dropDispatch_wakes_parked (s : St) (hd : s.dDropped = false) (hp : s.poisoned = false)
    (cid : Nat) (c : Call) (hg : getCall s cid = some c) (h : ParkedOrWoken c)
    (hm : cid ∈ s.pq.map (·.cid) ∨ cid ∈ s.inflight.map (·.cid)) :
    (getCall (dropDispatch s) cid).map (·.woken) = some true := by
  rw [dropDispatch_eq s hd hp]
  show (getCall (ddS3 s) cid).map (·.woken) = some true
  -- the request queue is closed first: waiters are woken
  obtain ⟨c1, hg1, h1⟩ := foldl_wakeCall_parked s.pqWaiters
    { s with dDropped := true, dWoken := false, pqClosed := true, pqWaiters := [] } cid c hg h
  have hg1' : getCall { ddS1 s with pq := [], pqAvail := (ddS1 s).bufCap - (ddS1 s).pqAssigned.length } cid
      = some c1 := hg1
  -- then the queued requests' senders are dropped
  obtain ⟨c2, hg2, h2, hw2⟩ := foldl_osDropTx (fun r : DReq => r.cid) (ddS1 s).pq _ cid c1 hg1' h1
  have hg2' : getCall { ddS2 s with inflight := [], timers := {} } cid = some c2 := hg2
  -- then the in-flight ones
  obtain ⟨c3, hg3, h3, hw3⟩ := foldl_osDropTx (fun e : Entry => e.cid) (ddS2 s).inflight _ cid c2 hg2' h2
  have hfin : getCall (ddS3 s) cid = some c3 := hg3
  rw [hfin]
  rcases hm with hm | hm
  · -- woken by the first fold, kept by the second
    have hw := hw2 (by rw [ddS1_pq]; exact hm)
    have := foldl_osDropTx.foldl_osDropTx_woken (fun e : Entry => e.cid) (ddS2 s).inflight _ cid c2 hg2' h2.1 hw
    rw [hg3] at this
    exact this
  · simp [hw3 (by rw [ddS2_inflight]; exact hm)]

/-! ### settle with the remaining fuel reported -/

/-- `settleLoop`, also returning the fuel that was left when it stopped. -/
def settleLoopF : Nat → Sys → Sys × Nat
  | 0, c => (c, 0)
  | fuel + 1, c =>
      if dispatchRunnable c.s then settleLoopF fuel { c with s := pollDispatch c.s c.now }
      else match firstWokenCall c.s with
        | some cid => settleLoopF fuel { c with s := pollCall c.s cid c.now }
        | none => (c, fuel + 1)

theorem settleLoopF_fst (fuel : Nat) (c : Sys) : (settleLoopF fuel c).1 = settleLoop fuel c := by
  induction fuel generalizing c with
  | zero => rfl
  | succ n ih =>
    unfold settleLoopF settleLoop
    by_cases hd : dispatchRunnable c.s = true
    · simp only [hd, ↓reduceIte]; exact ih _
    · simp only [hd]
      cases hf : firstWokenCall c.s with
      | some cid => exact ih _
      | none => rfl

theorem settleLoopF_quiescent (fuel : Nat) (c : Sys) (h : 0 < (settleLoopF fuel c).2) :
    dispatchRunnable (settleLoop fuel c).s = false ∧ firstWokenCall (settleLoop fuel c).s = none := by
  induction fuel generalizing c with
  | zero => simp [settleLoopF] at h
  | succ n ih =>
    unfold settleLoopF at h
    unfold settleLoop
    split
    · rename_i hd
      simp only [hd, ↓reduceIte] at h
      exact ih _ h
    · rename_i hd
      simp only [hd, Bool.false_eq_true, ↓reduceIte] at h
      split
      · rename_i cid hf
        simp only [hf] at h
        exact ih _ h
      · rename_i hf
        exact ⟨by simpa using hd, hf⟩

theorem firstWokenCall_none (s : St) (h : firstWokenCall s = none) :
    ∀ c ∈ s.calls, callLive c = true → c.woken = false := by
  intro c hc hl
  unfold firstWokenCall at h
  simp only [Option.map_eq_none_iff, List.find?_eq_none] at h
  have := h c hc
  simpa [hl] using this

end TarpcModel.Client

/-! ## Server -/
namespace TarpcModel.Server

/-- The request stream exists and has not ended. -/
def serverAlive (s : St) : Prop := s.dropped = false ∧ s.done = none

theorem wakeServer_woken (s : St) (hd : s.dropped = false) (hn : s.done = none) :
    (wakeServer s).woken = true := by
  unfold wakeServer
  simp [hd, hn, emit]

theorem wakeServer_woken_mono (s : St) (h : s.woken = true) : (wakeServer s).woken = true := by
  unfold wakeServer
  split
  · exact h
  · rfl

@[simp] theorem wakeServer_execs (s : St) : (wakeServer s).execs = s.execs := by
  unfold wakeServer; split <;> rfl
@[simp] theorem wakeServer_cancelQ (s : St) : (wakeServer s).cancelQ = s.cancelQ := by
  unfold wakeServer; split <;> rfl
@[simp] theorem wakeServer_cancelRxWaker (s : St) : (wakeServer s).cancelRxWaker = s.cancelRxWaker := by
  unfold wakeServer; split <;> rfl
@[simp] theorem wakeServer_respQ (s : St) : (wakeServer s).respQ = s.respQ := by
  unfold wakeServer; split <;> rfl
@[simp] theorem wakeServer_rqRxWaker (s : St) : (wakeServer s).rqRxWaker = s.rqRxWaker := by
  unfold wakeServer; split <;> rfl
@[simp] theorem wakeServer_dropped (s : St) : (wakeServer s).dropped = s.dropped := by
  unfold wakeServer; split <;> rfl
@[simp] theorem wakeServer_done (s : St) : (wakeServer s).done = s.done := by
  unfold wakeServer; split <;> rfl

theorem liftT_woken (s : St) (r : SimT × Bool) (h : serverAlive s) (hr : r.2 = true) :
    (liftT s r).woken = true := by
  unfold liftT
  simp only [hr, ↓reduceIte]
  exact wakeServer_woken _ h.1 h.2

/-! ### `getExec` after the execution-local updates -/

theorem find_upd (l : List Exec) (rid : Nat) (f : Exec → Exec) (hf : ∀ e, (f e).rid = e.rid) :
    (l.map (fun e => if e.rid == rid then f e else e)).find? (·.rid == rid) =
      (l.find? (·.rid == rid)).map f := by
  induction l with
  | nil => rfl
  | cons x xs ih =>
    by_cases hx : x.rid = rid
    · have h1 : (x.rid == rid) = true := by simp [hx]
      have h2 : ((f x).rid == rid) = true := by simp [hf, hx]
      simp only [List.map_cons, h1, ↓reduceIte, List.find?_cons, h2, Option.map_some]
    · have h1 : (x.rid == rid) = false := by simp [hx]
      simp only [List.map_cons, h1, Bool.false_eq_true, ↓reduceIte, List.find?_cons]
      exact ih

theorem find_upd_ne (l : List Exec) (x rid : Nat) (hne : x ≠ rid) (f : Exec → Exec)
    (hf : ∀ e, (f e).rid = e.rid) :
    (l.map (fun e => if e.rid == x then f e else e)).find? (·.rid == rid) = l.find? (·.rid == rid) := by
  induction l with
  | nil => rfl
  | cons y ys ih =>
    by_cases hy : y.rid = x
    · have h1 : (y.rid == x) = true := by simp [hy]
      have h2 : ((f y).rid == rid) = false := by simp [hf, hy, hne]
      have h3 : (y.rid == rid) = false := by simp [hy, hne]
      simp only [List.map_cons, h1, ↓reduceIte, List.find?_cons, h2, h3]
      exact ih
    · have h1 : (y.rid == x) = false := by simp [hy]
      simp only [List.map_cons, h1, Bool.false_eq_true, ↓reduceIte, List.find?_cons]
      split
      · rfl
      · exact ih

theorem getExec_updExec (s : St) (rid : Nat) (f : Exec → Exec) (hf : ∀ e, (f e).rid = e.rid) :
    getExec (updExec s rid f) rid = (getExec s rid).map f := by
  simp only [getExec, updExec]
  exact find_upd s.execs rid f hf

theorem getExec_updExec_ne (s : St) (x rid : Nat) (hne : x ≠ rid) (f : Exec → Exec)
    (hf : ∀ e, (f e).rid = e.rid) : getExec (updExec s x f) rid = getExec s rid := by
  simp only [getExec, updExec]
  exact find_upd_ne s.execs x rid hne f hf

theorem getExec_emit (s : St) (o : Obs) (rid : Nat) : getExec (emit s o) rid = getExec s rid := rfl

theorem getExec_congr (s s' : St) (h : s'.execs = s.execs) (rid : Nat) : getExec s' rid = getExec s rid := by
  simp only [getExec, h]

theorem getExec_wakeServer (s : St) (rid : Nat) : getExec (wakeServer s) rid = getExec s rid :=
  getExec_congr _ _ (wakeServer_execs s) rid

/-- An execution the application knows (it has a `vis` number) and that has not finished: the only kind
of execution task that exists and can be woken. -/
def wakeable (e : Exec) : Bool := execLive e && e.vis.isSome

def wokenE (e : Exec) : Exec := { e with woken := true }

theorem getExec_wakeExec_self (s : St) (rid : Nat) (e : Exec) (hg : getExec s rid = some e)
    (hw : wakeable e = true) : getExec (wakeExec s rid) rid = some (wokenE e) := by
  unfold wakeable at hw
  simp only [Bool.and_eq_true] at hw
  obtain ⟨hl, hv⟩ := hw
  obtain ⟨v, hv⟩ := Option.isSome_iff_exists.mp hv
  unfold wakeExec
  simp only [hg, hv, hl, ↓reduceIte, getExec_emit]
  rw [getExec_updExec _ _ _ ?_, hg]
  · rfl
  · intro _; rfl

theorem wakeExec_not_wakeable (s : St) (rid : Nat) (e : Exec) (hg : getExec s rid = some e)
    (hw : wakeable e = false) : wakeExec s rid = s := by
  unfold wakeExec
  simp only [hg]
  split
  · rename_i v hv
    have : execLive e = false := by simpa [wakeable, hv] using hw
    simp [this]
  · rfl

theorem getExec_wakeExec_ne (s : St) (x rid : Nat) (hne : x ≠ rid) :
    getExec (wakeExec s x) rid = getExec s rid := by
  unfold wakeExec
  split
  · split
    · split
      · rw [getExec_emit, getExec_updExec_ne _ _ _ hne _ ?_]
        intro _; rfl
      · rfl
    · rfl
  · rfl

/-- `e'` is `e` possibly with wakes / aborts applied: identity, phase and `vis` are kept, the `woken` and
`aborted` flags only go up. -/
structure Mono (e e' : Exec) : Prop where
  rid : e'.rid = e.rid
  phase : e'.phase = e.phase
  vis : e'.vis = e.vis
  woken : e.woken = true → e'.woken = true
  aborted : e.aborted = true → e'.aborted = true

theorem Mono.refl (e : Exec) : Mono e e := ⟨rfl, rfl, rfl, id, id⟩
theorem Mono.trans {a b c : Exec} (h1 : Mono a b) (h2 : Mono b c) : Mono a c :=
  ⟨h2.rid.trans h1.rid, h2.phase.trans h1.phase, h2.vis.trans h1.vis,
   fun h => h2.woken (h1.woken h), fun h => h2.aborted (h1.aborted h)⟩

theorem Mono.wakeable {e e' : Exec} (h : Mono e e') : wakeable e' = wakeable e := by
  simp only [Server.wakeable, execLive, h.phase, h.vis]

theorem wakeExec_mono (s : St) (x rid : Nat) (e : Exec) (hg : getExec s rid = some e) :
    ∃ e', getExec (wakeExec s x) rid = some e' ∧ Mono e e' := by
  by_cases hx : x = rid
  · subst hx
    cases hw : wakeable e
    · rw [wakeExec_not_wakeable s x e hg hw]; exact ⟨e, hg, Mono.refl e⟩
    · exact ⟨wokenE e, getExec_wakeExec_self s x e hg hw, ⟨rfl, rfl, rfl, fun _ => rfl, id⟩⟩
  · exact ⟨e, by rw [getExec_wakeExec_ne s x rid hx]; exact hg, Mono.refl e⟩

theorem foldl_wakeExec_mono (ws : List Nat) (s : St) (rid : Nat) (e : Exec) (hg : getExec s rid = some e) :
    ∃ e', getExec (ws.foldl wakeExec s) rid = some e' ∧ Mono e e' := by
  induction ws generalizing s e with
  | nil => exact ⟨e, hg, Mono.refl e⟩
  | cons w ws ih =>
    obtain ⟨e1, hg1, m1⟩ := wakeExec_mono s w rid e hg
    obtain ⟨e2, hg2, m2⟩ := ih (wakeExec s w) e1 hg1
    exact ⟨e2, hg2, m1.trans m2⟩

/-- A fold of `wakeExec` over a list wakes every wakeable member of the list. -/
theorem foldl_wakeExec_wakes (ws : List Nat) (s : St) (rid : Nat) (e : Exec) (hm : rid ∈ ws)
    (hg : getExec s rid = some e) (hw : wakeable e = true) :
    ∃ e', getExec (ws.foldl wakeExec s) rid = some e' ∧ Mono e e' ∧ e'.woken = true := by
  induction ws generalizing s e with
  | nil => cases hm
  | cons w ws ih =>
    simp only [List.foldl_cons]
    by_cases hx : w = rid
    · subst hx
      obtain ⟨e2, hg2, m2⟩ := foldl_wakeExec_mono ws (wakeExec s w) w (wokenE e) (getExec_wakeExec_self s w e hg hw)
      have m1 : Mono e (wokenE e) := ⟨rfl, rfl, rfl, fun _ => rfl, id⟩
      exact ⟨e2, hg2, m1.trans m2, m2.woken rfl⟩
    · have hm' : rid ∈ ws := by
        cases hm with
        | head => exact absurd rfl hx
        | tail _ h' => exact h'
      have hg1 : getExec (wakeExec s w) rid = some e := by rw [getExec_wakeExec_ne s w rid hx]; exact hg
      exact ih _ e hm' hg1 hw

/-! ### abort -/

/-- What `AbortHandle::abort` does to the execution's record. -/
def abortedE (e : Exec) : Exec :=
  { e with aborted := true, abortWaker := false, woken := e.woken || (e.abortWaker && wakeable e) }

theorem getExec_abortExec_self (s : St) (rid : Nat) (e : Exec) (hg : getExec s rid = some e) :
    getExec (abortExec s rid) rid = some (abortedE e) := by
  unfold abortExec
  simp only [hg]
  have hg' : getExec (updExec s rid (fun e => { e with aborted := true, abortWaker := false })) rid
      = some { e with aborted := true, abortWaker := false } := by
    rw [getExec_updExec _ _ _ ?_, hg]
    · rfl
    · intro _; rfl
  cases ha : e.abortWaker
  · simp only [Bool.false_eq_true, ↓reduceIte, hg', abortedE, ha, Bool.false_and, Bool.or_false]
  · simp only [↓reduceIte]
    cases hw : wakeable e
    · rw [wakeExec_not_wakeable _ rid _ hg' (by simpa [wakeable, execLive] using hw), hg']
      simp [abortedE, ha, hw]
    · rw [getExec_wakeExec_self _ rid _ hg' (by simpa [wakeable, execLive] using hw)]
      simp [abortedE, wokenE, ha, hw]

theorem getExec_abortExec_ne (s : St) (x rid : Nat) (hne : x ≠ rid) :
    getExec (abortExec s x) rid = getExec s rid := by
  unfold abortExec
  split
  · rfl
  · simp only
    split
    · rw [getExec_wakeExec_ne _ _ _ hne, getExec_updExec_ne _ _ _ hne _ ?_]
      intro _; rfl
    · rw [getExec_updExec_ne _ _ _ hne _ ?_]
      intro _; rfl

theorem abortedE_mono (e : Exec) : Mono e (abortedE e) :=
  ⟨rfl, rfl, rfl, fun h => by simp [abortedE, h], fun _ => rfl⟩

theorem abortExec_mono (s : St) (x rid : Nat) (e : Exec) (hg : getExec s rid = some e) :
    ∃ e', getExec (abortExec s x) rid = some e' ∧ Mono e e' := by
  by_cases hx : x = rid
  · subst hx
    exact ⟨abortedE e, getExec_abortExec_self s x e hg, abortedE_mono e⟩
  · exact ⟨e, by rw [getExec_abortExec_ne s x rid hx]; exact hg, Mono.refl e⟩

theorem foldl_abortExec_mono (l : List SEntry) (s : St) (rid : Nat) (e : Exec) (hg : getExec s rid = some e) :
    ∃ e', getExec (l.foldl (fun s en => abortExec s en.rid) s) rid = some e' ∧ Mono e e' := by
  induction l generalizing s e with
  | nil => exact ⟨e, hg, Mono.refl e⟩
  | cons x xs ih =>
    obtain ⟨e1, hg1, m1⟩ := abortExec_mono s x.rid rid e hg
    obtain ⟨e2, hg2, m2⟩ := ih (abortExec s x.rid) e1 hg1
    exact ⟨e2, hg2, m1.trans m2⟩

/-- Aborting the owners of a list of in-flight entries sets the abort flag of each of them and wakes
those parked on their abort waker. -/
theorem foldl_abortExec_aborts (l : List SEntry) (s : St) (rid : Nat) (e : Exec)
    (hm : rid ∈ l.map (·.rid)) (hg : getExec s rid = some e) :
    ∃ e', getExec (l.foldl (fun s en => abortExec s en.rid) s) rid = some e' ∧ Mono e e' ∧
      e'.aborted = true ∧ (e.abortWaker = true → wakeable e = true → e'.woken = true) := by
  induction l generalizing s e with
  | nil => cases hm
  | cons x xs ih =>
    simp only [List.foldl_cons]
    by_cases hx : x.rid = rid
    · have hg1 : getExec (abortExec s x.rid) rid = some (abortedE e) := by
        rw [hx]; exact getExec_abortExec_self s rid e hg
      obtain ⟨e2, hg2, m2⟩ := foldl_abortExec_mono xs (abortExec s x.rid) rid (abortedE e) hg1
      refine ⟨e2, hg2, (abortedE_mono e).trans m2, m2.aborted rfl, fun ha hw => m2.woken ?_⟩
      simp [abortedE, ha, hw]
    · have hm' : rid ∈ xs.map (·.rid) := by
        simp only [List.map_cons, List.mem_cons] at hm
        rcases hm with hm | hm
        · exact absurd hm.symm hx
        · exact hm
      have hg1 : getExec (abortExec s x.rid) rid = some e := by
        rw [getExec_abortExec_ne s x.rid rid hx]; exact hg
      exact ih _ e hm' hg1

/-! ### frame lemmas -/

@[simp] theorem updExec_rqWaiters (s : St) (x : Nat) (f : Exec → Exec) : (updExec s x f).rqWaiters = s.rqWaiters := rfl
@[simp] theorem updExec_rqAssigned (s : St) (x : Nat) (f : Exec → Exec) : (updExec s x f).rqAssigned = s.rqAssigned := rfl
@[simp] theorem updExec_cancelQ (s : St) (x : Nat) (f : Exec → Exec) : (updExec s x f).cancelQ = s.cancelQ := rfl
@[simp] theorem updExec_cancelRxWaker (s : St) (x : Nat) (f : Exec → Exec) :
    (updExec s x f).cancelRxWaker = s.cancelRxWaker := rfl
@[simp] theorem updExec_dropped (s : St) (x : Nat) (f : Exec → Exec) : (updExec s x f).dropped = s.dropped := rfl
@[simp] theorem updExec_done (s : St) (x : Nat) (f : Exec → Exec) : (updExec s x f).done = s.done := rfl
@[simp] theorem updExec_woken (s : St) (x : Nat) (f : Exec → Exec) : (updExec s x f).woken = s.woken := rfl
@[simp] theorem updExec_rqAvail (s : St) (x : Nat) (f : Exec → Exec) : (updExec s x f).rqAvail = s.rqAvail := rfl

/-- `s'` differs from `s` at most in the executions' records and the observations. -/
def ExecsOnly (s s' : St) : Prop := ∃ es o, s' = { s with execs := es, obs := o }

theorem ExecsOnly.refl (s : St) : ExecsOnly s s := ⟨s.execs, s.obs, rfl⟩
theorem ExecsOnly.trans {a b c : St} (h1 : ExecsOnly a b) (h2 : ExecsOnly b c) : ExecsOnly a c := by
  obtain ⟨es1, o1, rfl⟩ := h1
  obtain ⟨es2, o2, rfl⟩ := h2
  exact ⟨es2, o2, rfl⟩

theorem wakeExec_execsOnly (s : St) (x : Nat) : ExecsOnly s (wakeExec s x) := by
  unfold wakeExec
  split
  · split
    · split
      · exact ⟨_, _, rfl⟩
      · exact ExecsOnly.refl s
    · exact ExecsOnly.refl s
  · exact ExecsOnly.refl s

theorem abortExec_execsOnly (s : St) (x : Nat) : ExecsOnly s (abortExec s x) := by
  unfold abortExec
  split
  · exact ExecsOnly.refl s
  · simp only
    split
    · exact ExecsOnly.trans ⟨_, _, rfl⟩ (wakeExec_execsOnly _ x)
    · exact ⟨_, _, rfl⟩

theorem foldl_abortExec_execsOnly (l : List SEntry) (s : St) :
    ExecsOnly s (l.foldl (fun s en => abortExec s en.rid) s) := by
  induction l generalizing s with
  | nil => exact ExecsOnly.refl s
  | cons x xs ih => exact (abortExec_execsOnly s x.rid).trans (ih _)

theorem ExecsOnly.rqWaiters {s s' : St} (h : ExecsOnly s s') : s'.rqWaiters = s.rqWaiters := by
  obtain ⟨_, _, rfl⟩ := h; rfl
theorem ExecsOnly.rqAssigned {s s' : St} (h : ExecsOnly s s') : s'.rqAssigned = s.rqAssigned := by
  obtain ⟨_, _, rfl⟩ := h; rfl
theorem ExecsOnly.cancelQ {s s' : St} (h : ExecsOnly s s') : s'.cancelQ = s.cancelQ := by
  obtain ⟨_, _, rfl⟩ := h; rfl
theorem ExecsOnly.cancelRxWaker {s s' : St} (h : ExecsOnly s s') : s'.cancelRxWaker = s.cancelRxWaker := by
  obtain ⟨_, _, rfl⟩ := h; rfl
theorem ExecsOnly.poisoned {s s' : St} (h : ExecsOnly s s') : s'.poisoned = s.poisoned := by
  obtain ⟨_, _, rfl⟩ := h; rfl

/-! ### the guard-cancellation queue's flags through `BaseChannel::poll_next` -/

/-- `s'` has the same guard-cancellation queue and receiver-waker flag as `s`. -/
def CK (s s' : St) : Prop := s'.cancelQ = s.cancelQ ∧ s'.cancelRxWaker = s.cancelRxWaker

theorem CK.refl (s : St) : CK s s := ⟨rfl, rfl⟩
theorem CK.trans {a b c : St} (h1 : CK a b) (h2 : CK b c) : CK a c :=
  ⟨h2.1.trans h1.1, h2.2.trans h1.2⟩
theorem ExecsOnly.ck {s s' : St} (h : ExecsOnly s s') : CK s s' := ⟨h.cancelQ, h.cancelRxWaker⟩

theorem removeTimer_ck (s : St) (k : Nat) : CK s (removeTimer s k) := by
  unfold removeTimer; split
  · simp only; split
    · exact ⟨by rw [wakeServer_cancelQ], by rw [wakeServer_cancelRxWaker]⟩
    · exact ⟨rfl, rfl⟩
  · exact ⟨rfl, rfl⟩

theorem removeRequest_ck (s : St) (id : Nat) : CK s (removeRequest s id).1 := by
  unfold removeRequest
  split
  · exact CK.refl s
  · exact CK.trans ⟨rfl, rfl⟩ (removeTimer_ck _ _)

theorem cancelRequest_ck (s : St) (id : Nat) : CK s (cancelRequest s id).1 := by
  unfold cancelRequest
  split
  · exact CK.refl s
  · exact CK.trans (CK.trans (b := { s with inflight := s.inflight.filter (·.id != id) }) ⟨rfl, rfl⟩ (abortExec_execsOnly _ _).ck) (removeTimer_ck _ _)

theorem pollExpired_ck (s : St) (now : Nat) : CK s (pollExpired s now).1 := by
  refine pollExpired_rel now CK.refl (fun _ _ _ => CK.trans) (fun s1 => ⟨rfl, rfl⟩) (fun s1 => ?_) s
  have hs := expireStep_shape s1 now
  revert hs; generalize expireStep s1 now = p; intro hs
  obtain ⟨s', r⟩ := p
  dsimp only at hs ⊢
  cases hs with
  | idleNone q hp => exact ⟨rfl, rfl⟩
  | idlePending q hp => exact ⟨rfl, rfl⟩
  | orphan q e hp hf => exact ⟨rfl, rfl⟩
  | abort q e en hp hf h0 => exact CK.trans ⟨rfl, rfl⟩ (abortExec_execsOnly _ _).ck
  | rearmed q e en s2 hp hf h0 hr => exact ⟨(rearm_frame hr).cancelQ, (rearm_frame hr).cancelRxWaker⟩
  | panicked q e en hp hf h0 hr => exact ⟨rfl, rfl⟩

theorem tNext_ck (s : St) : CK s (tNext s).1 := by
  unfold tNext
  split
  · exact CK.refl s
  · simp only
    split <;> exact ⟨rfl, rfl⟩

theorem startRequest_ck (s : St) (now id d : Nat) (tr : Trace) (b : Nat) : CK s (startRequest s now id d tr b).1 := by
  unfold startRequest
  split
  · exact CK.refl s
  · split
    · exact ⟨rfl, rfl⟩
    · simp only; split
      · exact ⟨wakeServer_cancelQ s, wakeServer_cancelRxWaker s⟩
      · exact ⟨rfl, rfl⟩


/-- The stream task is registered on the empty guard-cancellation queue. -/
def CGood (s : St) : Prop := s.cancelQ = [] ∧ s.cancelRxWaker = true
theorem CGood.of_ck {s s' : St} (g : CGood s) (h : CK s s') : CGood s' := ⟨h.1.trans g.1, h.2.trans g.2⟩

/-- Once the stream task is registered on the (empty) guard-cancellation queue, the rest of
`BaseChannel::poll_next` neither clears the registration nor adds to the queue. -/
theorem basePollNext_keeps (fuel : Nat) (s : St) (now : Nat) (g : CGood s) :
    CGood (basePollNext fuel s now).1 := by
  induction fuel generalizing s with
  | zero => exact g
  | succ n ih =>
    unfold basePollNext
    split
    rename_i _ s0 cst heq0
    have g0 : CGood s0 := by
      split at heq0
      · rename_i h; rw [g.1] at h; cases h
      · cases heq0; exact ⟨g.1, rfl⟩
    split
    rename_i _ s1 e heq1
    have g1 : CGood s1 := by
      have := pollExpired_ck s0 now
      rw [heq1] at this
      exact g0.of_ck this
    simp only
    split
    · exact g1
    · split
      · rename_i _ s2 heq2
        have := tNext_ck s1
        rw [heq2] at this
        exact g1.of_ck this
      · rename_i _ s2 id d tr b heq2
        have g2 : CGood s2 := by
          have := tNext_ck s1
          rw [heq2] at this
          exact g1.of_ck this
        split
        · rename_i _ s3 ex heq3
          have := startRequest_ck s2 now id d tr b
          rw [heq3] at this
          exact g2.of_ck this
        · rename_i _ s3 heq3
          have g3 : CGood s3 := by
            have := startRequest_ck s2 now id d tr b
            rw [heq3] at this
            exact g2.of_ck this
          split
          · exact g3
          · exact ih s3 g3
      · rename_i _ s2 nx _ _ heq2
        have g2 : CGood s2 := by
          have := tNext_ck s1
          rw [heq2] at this
          exact g1.of_ck this
        split
        · -- a cancel message
          rename_i id _ _ _
          have g3 := g2.of_ck (cancelRequest_ck s2 id)
          simp only
          split
          · exact g3
          · split
            · exact ih _ g3
            · exact g3
            · exact g3
        all_goals
          simp only
          split
          · exact g2
          · split
            · exact ih _ g2
            · exact g2
            · exact g2

/-- **The empty-queue branch of `BaseChannel::poll_next` registers the stream task** on the guard-cancellation
queue, and the registration survives to the end of the poll. -/
theorem basePollNext_registers (fuel : Nat) (s : St) (now : Nat) (hq : s.cancelQ = []) :
    (basePollNext (fuel + 1) s now).1.cancelRxWaker = true := by
  have h : basePollNext (fuel + 1) s now = basePollNext (fuel + 1) { s with cancelRxWaker := true } now := by
    rw [basePollNext, basePollNext]
    simp only [hq]
  rw [h]
  exact (basePollNext_keeps (fuel + 1) { s with cancelRxWaker := true } now ⟨hq, rfl⟩).2

/-! ### the response queue's flags through the sink calls -/

/-- `s'` has the same response queue and receiver-waker flag as `s`. -/
def RK (s s' : St) : Prop := s'.respQ = s.respQ ∧ s'.rqRxWaker = s.rqRxWaker

theorem RK.refl (s : St) : RK s s := ⟨rfl, rfl⟩
theorem RK.trans {a b c : St} (h1 : RK a b) (h2 : RK b c) : RK a c := ⟨h2.1.trans h1.1, h2.2.trans h1.2⟩

theorem foldl_emit_eq {α : Type} (f : St → α → Obs) (l : List α) (s : St) :
    ∃ o, l.foldl (fun s w => emit s (f s w)) s = { s with obs := o } := by
  induction l generalizing s with
  | nil => exact ⟨s.obs, rfl⟩
  | cons x xs ih =>
    obtain ⟨o, ho⟩ := ih (emit s (f s x))
    exact ⟨o, by simp only [List.foldl_cons, ho]; rfl⟩

theorem emitViolations_eq (s : St) (n : Nat) : ∃ o, emitViolations s n = { s with obs := o } := by
  unfold emitViolations
  exact foldl_emit_eq (fun s w => .tViolation (tid s) w) _ s

theorem emitViolations_rk (s : St) (n : Nat) : RK s (emitViolations s n) := by
  obtain ⟨o, ho⟩ := emitViolations_eq s n; rw [ho]; exact ⟨rfl, rfl⟩

theorem wakeServer_rk (s : St) : RK s (wakeServer s) := ⟨wakeServer_respQ s, wakeServer_rqRxWaker s⟩

theorem tReady_rk (s : St) : RK s (tReady s).1 := by
  unfold tReady
  simp only
  have h : RK s (emit (emitViolations { s with t := s.t.pollReady.1 } s.t.violations.length)
      (.tReady (tid s) s.t.pollReady.2.1)) :=
    RK.trans (b := { s with t := s.t.pollReady.1 }) ⟨rfl, rfl⟩ (RK.trans (emitViolations_rk _ _) ⟨rfl, rfl⟩)
  split
  · exact h.trans (wakeServer_rk _)
  · exact h

theorem tFlush_rk (s : St) : RK s (tFlush s).1 := by
  unfold tFlush
  simp only
  have h : RK s (emit (emitViolations { s with t := s.t.pollFlush.1 } s.t.violations.length)
      (.tFlush (tid s) s.t.pollFlush.2.1)) :=
    RK.trans (b := { s with t := s.t.pollFlush.1 }) ⟨rfl, rfl⟩ (RK.trans (emitViolations_rk _ _) ⟨rfl, rfl⟩)
  split
  · exact h.trans (wakeServer_rk _)
  · exact h

theorem ensureLoop_rk (fuel : Nat) (s : St) : RK s (ensureLoop fuel s).1 := by
  induction fuel generalizing s with
  | zero => exact ⟨rfl, rfl⟩
  | succ n ih =>
    unfold ensureLoop
    have h1 := tReady_rk s
    split
    · rename_i heq; rw [heq] at h1; exact h1
    · rename_i heq; rw [heq] at h1; exact h1
    · rename_i s1 heq
      rw [heq] at h1
      have h2 := tFlush_rk s1
      split
      · rename_i heq2; rw [heq2] at h2; exact h1.trans h2
      · rename_i heq2; rw [heq2] at h2; exact h1.trans h2
      · rename_i s2 heq2; rw [heq2] at h2; exact (h1.trans h2).trans (ih s2)

theorem ensureOnce_rk (s : St) : RK s (ensureOnce s).1 := by
  unfold ensureOnce
  have h1 := tReady_rk s
  split
  · rename_i heq; rw [heq] at h1; exact h1
  · rename_i heq; rw [heq] at h1; exact h1
  · rename_i s1 heq
    rw [heq] at h1
    have h2 := tFlush_rk s1
    split
    · rename_i heq2; rw [heq2] at h2; exact h1.trans h2
    · rename_i heq2; rw [heq2] at h2; exact h1.trans h2
    · rename_i s2 heq2
      rw [heq2] at h2
      have h3 := tReady_rk s2
      split
      · rename_i heq3; rw [heq3] at h3; exact (h1.trans h2).trans h3
      · rename_i heq3; rw [heq3] at h3; exact (h1.trans h2).trans h3
      · rename_i heq3; rw [heq3] at h3; exact (h1.trans h2).trans h3

theorem ensureWriteable_rk (s : St) : RK s (ensureWriteable s).1 := by
  unfold ensureWriteable
  split
  · exact ensureLoop_rk _ s
  · exact ensureOnce_rk s

theorem flushArm_rk (s : St) (rc : Bool) : RK s (flushArm s rc).1 := by
  unfold flushArm
  have h := tFlush_rk s
  split
  · rename_i heq; rw [heq] at h; exact h
  · rename_i heq; rw [heq] at h; exact h
  · rename_i heq
    rw [heq] at h
    split <;> exact h

/-! ### settle with the remaining fuel reported -/

/-- `settleLoop`, also returning the fuel that was left when it stopped. -/
def settleLoopF : Nat → Sys → Sys × Nat
  | 0, c => (c, 0)
  | fuel + 1, c =>
      if serverRunnable c.s then
        settleLoopF fuel { c with s := pollServer c.s c.now }
      else match firstWokenExec c.s with
        | some v => settleLoopF fuel { c with s := pollExec c.s v c.now }
        | none => (c, fuel + 1)

theorem settleLoopF_fst (fuel : Nat) (c : Sys) : (settleLoopF fuel c).1 = settleLoop fuel c := by
  induction fuel generalizing c with
  | zero => rfl
  | succ n ih =>
    unfold settleLoopF settleLoop
    by_cases hd : serverRunnable c.s = true
    · simp only [hd, ↓reduceIte]; exact ih _
    · simp only [hd]
      cases hf : firstWokenExec c.s with
      | some v => exact ih _
      | none => rfl

theorem settleLoopF_quiescent (fuel : Nat) (c : Sys) (h : 0 < (settleLoopF fuel c).2) :
    serverRunnable (settleLoop fuel c).s = false ∧ firstWokenExec (settleLoop fuel c).s = none := by
  induction fuel generalizing c with
  | zero => simp [settleLoopF] at h
  | succ n ih =>
    unfold settleLoopF at h
    unfold settleLoop
    by_cases hd : serverRunnable c.s = true
    · simp only [hd, ↓reduceIte] at h ⊢
      exact ih _ h
    · simp only [hd] at h ⊢
      cases hf : firstWokenExec c.s with
      | some v =>
        simp only [hf] at h
        exact ih _ h
      | none => exact ⟨by simpa using hd, hf⟩

theorem firstWokenExec_none (s : St) (h : firstWokenExec s = none) :
    ∀ e ∈ s.execs, wakeable e = true → e.woken = false := by
  intro e he hw
  unfold firstWokenExec at h
  cases hf : s.execs.find? (fun e => execLive e && e.woken && e.vis.isSome) with
  | none =>
    rw [List.find?_eq_none] at hf
    have := hf e he
    simp only [wakeable, Bool.and_eq_true] at hw
    simpa [hw.1, hw.2] using this
  | some e' =>
    have hp := List.find?_some hf
    rw [hf] at h
    simp only [Option.bind_some] at h
    simp [h] at hp

/-! ### `dropServer`, step by step -/

/-- The intermediate states of `dropServer` on a live, unpoisoned stream. -/
def dsS1 (s : St) : St := s.inflight.foldl (fun s e => abortExec s e.rid) { s with dropped := true, woken := false }
def dsS2 (s : St) : St := (dsS1 s).rqWaiters.foldl wakeExec { dsS1 s with rqWaiters := [] }

theorem dropServer_eq (s : St) (hd : s.dropped = false) (hp : s.poisoned = false) :
    dropServer s = { dsS2 s with inflight := [], timers := {}, cancelQ := [], respQ := [] } := by
  unfold dropServer
  rw [if_neg (by simp [hd, hp])]
  rfl

theorem dsS1_rqWaiters (s : St) : (dsS1 s).rqWaiters = s.rqWaiters :=
  (foldl_abortExec_execsOnly s.inflight { s with dropped := true, woken := false }).rqWaiters

theorem getExec_dropServer (s : St) (hd : s.dropped = false) (hp : s.poisoned = false) (rid : Nat) :
    getExec (dropServer s) rid = getExec (dsS2 s) rid := by
  rw [dropServer_eq s hd hp]; rfl

/-- Every execution waiting for a response-queue slot is woken by `dropServer`. -/
theorem dropServer_wakes_waiter (s : St) (hd : s.dropped = false) (hp : s.poisoned = false)
    (w : Nat) (hm : w ∈ s.rqWaiters) (e : Exec) (hg : getExec s w = some e) (hw : wakeable e = true) :
    ∃ e', getExec (dropServer s) w = some e' ∧ Mono e e' ∧ e'.woken = true := by
  rw [getExec_dropServer s hd hp]
  obtain ⟨e1, hg1, m1⟩ := foldl_abortExec_mono s.inflight { s with dropped := true, woken := false } w e hg
  have hg1' : getExec { dsS1 s with rqWaiters := [] } w = some e1 := hg1
  obtain ⟨e2, hg2, m2, hw2⟩ := foldl_wakeExec_wakes (dsS1 s).rqWaiters _ w e1
    (by rw [dsS1_rqWaiters]; exact hm) hg1' (by rw [m1.wakeable]; exact hw)
  exact ⟨e2, hg2, m1.trans m2, hw2⟩

/-- Every execution owning an in-flight entry is aborted by `dropServer`, and woken if it was parked on its
abort waker. -/
theorem dropServer_aborts_inflight (s : St) (hd : s.dropped = false) (hp : s.poisoned = false)
    (rid : Nat) (hm : rid ∈ s.inflight.map (·.rid)) (e : Exec) (hg : getExec s rid = some e) :
    ∃ e', getExec (dropServer s) rid = some e' ∧ Mono e e' ∧ e'.aborted = true ∧
      (e.abortWaker = true → wakeable e = true → e'.woken = true) := by
  rw [getExec_dropServer s hd hp]
  obtain ⟨e1, hg1, m1, ha1, hw1⟩ :=
    foldl_abortExec_aborts s.inflight { s with dropped := true, woken := false } rid e hm hg
  have hg1' : getExec { dsS1 s with rqWaiters := [] } rid = some e1 := hg1
  obtain ⟨e2, hg2, m2⟩ := foldl_wakeExec_mono (dsS1 s).rqWaiters _ rid e1 hg1'
  exact ⟨e2, hg2, m1.trans m2, m2.aborted ha1, fun ha hw => m2.woken (hw1 ha hw)⟩

end TarpcModel.Server

import TarpcModel.Lemmas.ClientTrack
/-!
# The third clauses of `checkC03` and `checkC11` along a trace

The coupling between the monitors' book and the model that the "liveness-flavoured" clauses need, on top of the
coupling `Good` of `Lemmas/ClientTop.lean`:

* `Tracked`: a request written successfully whose response was not read, whose cancel was not written, whose deadline
  has not passed — with no transport failure observed, the dispatch alive and not shutting down — is in the in-flight
  table;
* a terminal error of the dispatch means that the book has seen a failure.

`OwedInv` packages these with the state invariants (`StInv`, `CqI`); `full_next` carries it across one op of a script
and `owed_at_ret` / `reclaimed_at_counts` discharge the third clauses at the end of a top-level dispatch poll.
-/
set_option linter.unusedSimpArgs false
set_option linter.unusedVariables false
namespace TarpcModel.Client

/-! ### the book across an op event -/

theorem endOp_fields (b : Book) :
    b.endOp.sends = b.sends ∧ b.endOp.reads = b.reads ∧ b.endOp.cancels = b.cancels ∧ b.endOp.failed = b.failed ∧
    b.endOp.now = b.now ∧ b.endOp.dispatchRet = b.dispatchRet := by
  unfold Book.endOp
  cases b.curDrop <;> exact ⟨rfl, rfl, rfl, rfl, rfl, rfl⟩

theorem step_op_fields' (b : Book) (op : COp) :
    (b.step (.op op)).sends = b.sends ∧ (b.step (.op op)).reads = b.reads ∧ (b.step (.op op)).cancels = b.cancels ∧
    (b.step (.op op)).failed = b.failed ∧ (b.step (.op op)).dispatchRet = b.dispatchRet ∧
    (b.step (.op op)).pollReadyP = false ∧
    (b.step (.op op)).now = b.now + opAdv op := by
  obtain ⟨a1, a2, a3, a4, a5, a6⟩ := endOp_fields b
  have a7 : b.endOp.pollReadyP = false := by unfold Book.endOp; cases b.curDrop <;> rfl
  unfold Book.step
  simp only
  cases op <;> simp only [opAdv] <;> (try split) <;> simp [a1, a2, a3, a4, a5, a6, a7]

theorem step_op_topPoll (b : Book) (op : COp) : (b.step (.op op)).topPoll = true ↔ op = .pollDispatch := by
  have a : b.endOp.topPoll = false := by unfold Book.endOp; cases b.curDrop <;> rfl
  unfold Book.step
  simp only
  cases op <;> simp only [] <;> (try split) <;> simp [a]

/-! ### tracked requests -/

/-- A request written successfully, neither answered nor cancelled nor expired, is tracked (while no failure was
observed and the dispatch is alive). -/
def Tracked (s : St) (now : Nat) (bk : Book) : Prop :=
  ∀ sd ∈ bk.sends, sd.ok = true → (∀ rd ∈ bk.reads, rd.id ≠ sd.id) → (∀ p ∈ bk.cancels, p.1 ≠ sd.id) →
    bk.failed = false → now < sd.deadline → s.dDropped = false → s.poisoned = false → s.termErr = none →
    Kept sd.id sd.deadline s

theorem hasT_any {p : Obs → Bool} {s : St} (h : HasT p s) : s.obs.reverse.any p = true := by
  obtain ⟨o, ho, hp⟩ := h
  rw [List.any_eq_true]
  exact ⟨o, List.mem_reverse.mpr (List.mem_filter.mp ho).1, hp⟩

/-- `Tracked` across a step of the model (`TR0`) and the corresponding growth of the book. -/
theorem Tracked.step {s s' : St} {now now' : Nat} {bk bk' : Book} (h : Tracked s now bk) (t : TR0 now' s s')
    (hnow : now ≤ now') (hsobs : s.obs.filter Flow.isT = [])
    (hsends : ∀ sd ∈ bk'.sends, sd ∈ bk.sends ∨
      ∃ ep tr, Obs.tSend ep (.request sd.id sd.deadline tr sd.body) sd.ok ∈ s'.obs)
    (hreads : ∀ rd ∈ bk.reads, rd ∈ bk'.reads) (hreads' : ∀ id, HasT (isRead id) s' → ∃ rd ∈ bk'.reads, rd.id = id)
    (hcan : ∀ p ∈ bk.cancels, p ∈ bk'.cancels) (hcan' : ∀ id, HasT (isCancelOk id) s' → ∃ p ∈ bk'.cancels, p.1 = id)
    (hfail : bk'.failed = false → bk.failed = false) (hfail' : HasT isFail s' → bk'.failed = true) :
    Tracked s' now' bk' := by
  intro sd hsd hok hnr hnc hnf hdl hdd hpo hte
  -- no excuse applies
  have noexc : ¬ Exc now' sd.id sd.deadline s' := by
    rintro (hx | hx | hx | hx | hx | hx | hx)
    · obtain ⟨rd, hrd, hid⟩ := hreads' _ hx; exact hnr rd hrd hid
    · obtain ⟨p, hp, hid⟩ := hcan' _ hx; exact hnc p hp hid
    · rw [hfail' hx] at hnf; cases hnf
    · omega
    · rw [hdd] at hx; cases hx
    · rw [hpo] at hx; cases hx
    · rw [hte] at hx; cases hx
  rcases hsends sd hsd with hold | ⟨ep, tr, hnew⟩
  · -- an older write: it was tracked before the step
    have hk : Kept sd.id sd.deadline s := by
      refine h sd hold hok (fun rd hrd => hnr rd (hreads rd hrd)) (fun p hp => hnc p (hcan p hp)) (hfail hnf)
        (by omega) ?_ ?_ ?_
      · cases hd : s.dDropped with
        | false => rfl
        | true => rw [t.dd hd] at hdd; cases hdd
      · cases hp : s.poisoned with
        | false => rfl
        | true => rw [t.po hp] at hpo; cases hpo
      · cases ht : s.termErr with
        | none => rfl
        | some a => have := t.te (by rw [ht]; rfl); rw [hte] at this; cases this
    obtain ⟨e, he, hid, hdl'⟩ := hk
    rcases t.keep e he with hk' | hx
    · rw [hid, hdl'] at hk'; exact hk'
    · rw [hid, hdl'] at hx; exact absurd hx noexc
  · -- written in this step
    have hm : Obs.tSend ep (.request sd.id sd.deadline tr sd.body) sd.ok ∈ s'.obs.filter Flow.isT :=
      List.mem_filter.mpr ⟨hnew, rfl⟩
    rcases t.new _ hm sd.id sd.deadline (by simp [isReqOk, hok]) with hx | hx | hx
    · rw [hsobs] at hx; cases hx
    · exact hx
    · exact absurd hx noexc

/-! ### the observations of a top-level dispatch poll -/

/-- the observations grow by wakes / panics / transport observations -/
def Ext (s s' : St) : Prop := ∃ l, s'.obs = l ++ s.obs ∧ ∀ o ∈ l, dispObs o = true

theorem Ext.refl (s : St) : Ext s s := ⟨[], rfl, fun _ h => by cases h⟩
theorem Ext.trans {a b c : St} (h1 : Ext a b) (h2 : Ext b c) : Ext a c := by
  obtain ⟨l1, e1, d1⟩ := h1
  obtain ⟨l2, e2, d2⟩ := h2
  exact ⟨l2 ++ l1, by rw [e2, e1, List.append_assoc], fun o ho => (List.mem_append.mp ho).elim (d2 o) (d1 o)⟩
theorem Ext.of_obs {s s' : St} (h : s'.obs = s.obs) : Ext s s' := ⟨[], by simp [h], fun _ h => by cases h⟩
theorem ext_emit (s : St) (o : Obs) (h : dispObs o = true) : Ext s (emit s o) :=
  ⟨[o], rfl, fun x hx => by simp at hx; rw [hx]; exact h⟩
theorem ext_foldl {α : Type} (f : St → α → St) (hf : ∀ s a, Ext s (f s a)) (l : List α) (s : St) : Ext s (l.foldl f s) := by
  induction l generalizing s with
  | nil => exact Ext.refl _
  | cons a l ih => exact (hf s a).trans (ih _)

theorem ext_wakeCall (s : St) (cid : Nat) : Ext s (wakeCall s cid) := by
  unfold wakeCall
  split
  · split
    · exact (Ext.of_obs rfl : Ext s (updCall s cid _)).trans (ext_emit _ _ rfl)
    · exact Ext.refl _
  · exact Ext.refl _

theorem ext_osDropTx (s : St) (cid : Nat) : Ext s (osDropTx s cid) := by
  unfold osDropTx
  split
  · exact Ext.refl _
  · split
    · exact Ext.refl _
    · simp only
      split
      · exact (Ext.of_obs rfl : Ext s (updCall s cid _)).trans (ext_wakeCall _ _)
      · exact Ext.of_obs rfl

theorem ext_dropDispatch (s : St) : Ext s (dropDispatch s) := by
  rw [dropDispatch_stages]
  split
  · exact ext_emit _ _ rfl
  · have h1 : Ext s (pqClose { s with dDropped := true, dWoken := false }) := by
      unfold pqClose
      exact (Ext.of_obs rfl : Ext s { s with dDropped := true, dWoken := false, pqClosed := true, pqWaiters := [] }).trans
        (ext_foldl _ (fun s w => ext_wakeCall s w) _ _)
    generalize pqClose { s with dDropped := true, dWoken := false } = s2 at h1
    have h2 : Ext s2 (dropQ s2) := by
      unfold dropQ
      exact (Ext.of_obs rfl : Ext s2 { s2 with pq := [], pqAvail := s2.bufCap - s2.pqAssigned.length }).trans
        (ext_foldl _ (fun s (r : DReq) => ext_osDropTx s r.cid) _ _)
    generalize dropQ s2 = s3 at h2
    have h3 : Ext s3 (dropI s3) := by
      unfold dropI
      exact (Ext.of_obs rfl : Ext s3 { s3 with inflight := [], timers := {} }).trans
        (ext_foldl _ (fun s (e : Entry) => ext_osDropTx s e.cid) _ _)
    exact ((h1.trans h2).trans h3).trans (Ext.of_obs rfl)

/-- `ret` of the dispatch, `counts`: what only the end of a poll emits -/
def isEnd : Obs → Bool
  | .ret (.dispatch _) _ => true
  | .counts _ _ _ => true
  | _ => false

theorem not_isEnd_of_disp {o : Obs} (h : dispObs o = true) : isEnd o = false := by
  cases o <;> simp_all [dispObs, isEnd, Flow.isT]

/-- where an end-of-poll observation sits in `A ++ [x, y] ++ D` when `A` and `D` contain none -/
theorem split_at_end {A D os1 os2 : List Obs} {x y o : Obs} (hA : ∀ a ∈ A, isEnd a = false) (hD : ∀ a ∈ D, isEnd a = false)
    (ho : isEnd o = true) (h : A ++ x :: y :: D = os1 ++ o :: os2) :
    (os1 = A ∧ o = x ∧ os2 = y :: D) ∨ (os1 = A ++ [x] ∧ o = y ∧ os2 = D) := by
  rcases List.append_eq_append_iff.mp h with ⟨a1, ha1, ha2⟩ | ⟨c1, hc1, hc2⟩
  · -- os1 = A ++ a1
    cases a1 with
    | nil =>
      simp only [List.append_nil, List.nil_append, List.cons.injEq] at ha1 ha2
      exact Or.inl ⟨ha1, ha2.1.symm, ha2.2.symm⟩
    | cons u a2 =>
      simp only [List.cons_append, List.cons.injEq] at ha2
      obtain ⟨rfl, ha2⟩ := ha2
      cases a2 with
      | nil =>
        simp only [List.nil_append, List.cons.injEq] at ha2
        exact Or.inr ⟨ha1, ha2.1.symm, ha2.2.symm⟩
      | cons v a3 =>
        simp only [List.cons_append, List.cons.injEq] at ha2
        obtain ⟨rfl, ha2⟩ := ha2
        have : o ∈ D := by rw [ha2]; simp
        rw [hD o this] at ho; cases ho
  · -- A = os1 ++ c1
    cases c1 with
    | nil =>
      simp only [List.append_nil, List.nil_append, List.cons.injEq] at hc1 hc2
      exact Or.inl ⟨hc1.symm, hc2.1, hc2.2⟩
    | cons u c2 =>
      simp only [List.cons_append, List.cons.injEq] at hc2
      have : o ∈ A := by rw [hc1, ← hc2.1]; simp
      rw [hA o this] at ho; cases ho

/-- **The observations of a top-level dispatch poll** (from a state without observations): either none of them is an
end-of-poll observation, or the poll ran `pollDispatchCore` (result `(c1, r)`, not poisoned), whose observations are
followed by `ret r`, `counts` and — only if the dispatch completed — what its drop emits. -/
theorem pollDispatch_obs_shape {x : Option Nat} {b : Snap} {now : Nat} {s : St} (hi : Inv' x b s now) (h0 : s.obs = []) :
    (∀ o ∈ (pollDispatch s now).obs, isEnd o = false) ∨
    ∃ c1 r D, pollDispatchCore { s with dWoken := false } now = (c1, r) ∧
      (s.dDropped || s.done.isSome || s.poisoned) = false ∧ c1.poisoned = false ∧
      (∀ o ∈ c1.obs, dispObs o = true) ∧ (∀ o ∈ D, dispObs o = true) ∧
      (pollDispatch s now).obs = D ++ .counts (tid c1) c1.inflight.length c1.timers.len :: .ret (tid c1) r :: c1.obs := by
  have hdrop : ∀ K : St, (∀ o ∈ K.obs, isEnd o = false) → ∀ o ∈ (dropDispatch K).obs, isEnd o = false := by
    intro K hK o ho
    obtain ⟨l, hl, hd⟩ := ext_dropDispatch K
    rw [hl] at ho
    rcases List.mem_append.mp ho with h | h
    · exact not_isEnd_of_disp (hd o h)
    · exact hK o h
  rw [Flow.pollDispatch_eq, Flow.pollDispatchKeep_eq]
  by_cases hg : (s.dDropped || s.done.isSome || s.poisoned) = true
  · left
    rw [if_pos hg]
    have hK : ∀ o ∈ (emit s .noop).obs, isEnd o = false := by
      intro o ho; simp [emit, h0] at ho; rw [ho]; rfl
    split
    · exact hdrop _ hK
    · exact hK
  · rw [if_neg hg]
    have hg' : (s.dDropped || s.done.isSome || s.poisoned) = false := by simpa using hg
    have h1 : TR now { s with dWoken := false } (pollDispatchCore { s with dWoken := false } now).1 :=
      tr_pollDispatchCore (hi.quiet (by quiet_rfl))
    rcases hc : pollDispatchCore { s with dWoken := false } now with ⟨c1, r⟩
    rw [hc] at h1
    simp only at h1 ⊢
    have hdisp : ∀ o ∈ c1.obs, dispObs o = true := by
      intro o ho
      rcases h1.disp o ho with h | h
      · rw [h0] at h; cases h
      · exact h
    unfold Flow.keepFinish
    by_cases hsp : (c1.obs.any Flow.isSpinObs && !(s.obs.any Flow.isSpinObs)) = true
    · left
      rw [if_pos hsp]
      have hK : ∀ o ∈ (Flow.keepDone r { c1 with obs := .spin (tid c1) :: s.obs, poisoned := true }).obs, isEnd o = false := by
        intro o ho
        have : (Flow.keepDone r { c1 with obs := .spin (tid c1) :: s.obs, poisoned := true }).obs = .spin (tid c1) :: s.obs := by
          unfold Flow.keepDone; split <;> rfl
        rw [this, h0] at ho
        simp at ho; rw [ho]; rfl
      split
      · exact hdrop _ hK
      · exact hK
    · rw [if_neg hsp]
      by_cases hpo : c1.poisoned = true
      · left
        rw [if_pos hpo]
        have hK : ∀ o ∈ (Flow.keepDone r c1).obs, isEnd o = false := by
          intro o ho
          have : (Flow.keepDone r c1).obs = c1.obs := by unfold Flow.keepDone; split <;> rfl
          rw [this] at ho
          exact not_isEnd_of_disp (hdisp o ho)
        split
        · exact hdrop _ hK
        · exact hK
      · right
        rw [if_neg hpo]
        have hpo' : c1.poisoned = false := by simpa using hpo
        have hKobs : (Flow.keepDone r (emit (emit c1 (.ret (tid c1) r)) (.counts (tid (emit c1 (.ret (tid c1) r))) (emit c1 (.ret (tid c1) r)).inflight.length (emit c1 (.ret (tid c1) r)).timers.len))).obs
            = .counts (tid c1) c1.inflight.length c1.timers.len :: .ret (tid c1) r :: c1.obs := by
          unfold Flow.keepDone; split <;> rfl
        split
        · obtain ⟨l, hl, hd⟩ := ext_dropDispatch (Flow.keepDone r (emit (emit c1 (.ret (tid c1) r)) (.counts (tid (emit c1 (.ret (tid c1) r))) (emit c1 (.ret (tid c1) r)).inflight.length (emit c1 (.ret (tid c1) r)).timers.len)))
          exact ⟨c1, r, l, rfl, hg', hpo', hdisp, hd, hl.trans (congrArg (fun z => l ++ z) hKobs)⟩
        · exact ⟨c1, r, [], rfl, hg', hpo', hdisp, (fun _ h => by cases h), hKobs⟩

/-! ### the invariant of op boundaries -/

structure OwedInv (c : Sys) (bk : Book) (ops : List COp) : Prop where
  good : ∃ mc : Mon C01St, mc.book = bk ∧ mc.bad = none ∧ Good mc c ops
  span : ∀ op ∈ ops, SpanOk op
  st : StInv c.s c.now
  cq : CqI none c.s
  now : bk.now = c.now
  te : c.s.termErr.isSome = true → bk.failed = true
  tr : Tracked c.s c.now bk

/-- once a task span or panicked nothing is judged any more -/
def IOwed (c : Sys) (bk : Book) (ops : List COp) : Prop := bk.spun = true ∨ OwedInv c bk ops

theorem isStop_of_isSpin {o : Obs} (h : isSpin o = true) : isStop o = true := by
  cases o <;> simp_all [isSpin, isStop]

theorem any_of_hasT {p q : Obs → Bool} {s : St} (h : HasT p s) (hpq : ∀ o, p o = true → q o = true) :
    s.obs.reverse.any q = true := by
  obtain ⟨o, ho, hp⟩ := h
  rw [List.any_eq_true]
  exact ⟨o, List.mem_reverse.mpr (List.mem_filter.mp ho).1, hpq o hp⟩

/-- the book after the observations of a state whose observation list started empty -/
theorem tracked_book_facts (bk : Book) (op : COp) (s' : St) :
    (∀ sd ∈ (obsBook (bk.step (.op op)) s'.obs.reverse).sends, sd ∈ bk.sends ∨
      ∃ ep tr, Obs.tSend ep (.request sd.id sd.deadline tr sd.body) sd.ok ∈ s'.obs) ∧
    (∀ rd ∈ bk.reads, rd ∈ (obsBook (bk.step (.op op)) s'.obs.reverse).reads) ∧
    (∀ id, HasT (isRead id) s' → ∃ rd ∈ (obsBook (bk.step (.op op)) s'.obs.reverse).reads, rd.id = id) ∧
    (∀ p ∈ bk.cancels, p ∈ (obsBook (bk.step (.op op)) s'.obs.reverse).cancels) ∧
    (∀ id, HasT (isCancelOk id) s' → ∃ p ∈ (obsBook (bk.step (.op op)) s'.obs.reverse).cancels, p.1 = id) ∧
    ((obsBook (bk.step (.op op)) s'.obs.reverse).failed = false → bk.failed = false) ∧
    (HasT isFail s' → (obsBook (bk.step (.op op)) s'.obs.reverse).failed = true) := by
  obtain ⟨f1, f2, f3, f4, _, _, _⟩ := step_op_fields' bk op
  refine ⟨?_, ?_, ?_, ?_, ?_, ?_, ?_⟩
  · intro sd hsd
    rcases obsBook_sends_new _ _ sd hsd with h | ⟨ep, tr, h⟩
    · exact Or.inl (f1 ▸ h)
    · exact Or.inr ⟨ep, tr, List.mem_reverse.mp h⟩
  · intro rd hrd; exact obsBook_reads_mono _ _ rd (f2.symm ▸ hrd)
  · intro id h; exact obsBook_read _ _ id (hasT_any h)
  · intro p hp; exact obsBook_cancels_mono _ _ p (f3.symm ▸ hp)
  · intro id h; exact obsBook_cancel _ _ id (hasT_any h)
  · intro h
    rw [obsBook_failed, f4] at h
    simp only [Bool.or_eq_false_iff] at h
    exact h.1
  · intro h
    rw [obsBook_failed, hasT_any h]; simp

theorem full_next {c : Sys} {bk : Book} {op : COp} {ops : List COp} (h : IOwed c bk (op :: ops)) :
    IOwed (stepOp c op).1 (bookOf (bk.step (.op op)) ((stepOp c op).2.map CEv.obs)) ops := by
  rcases h with hs | h
  · left
    show (obsBook (bk.step (.op op)) (stepOp c op).2).spun = true
    rw [obsBook_spun, Book.spun_step_op, hs]; rfl
  · obtain ⟨mc, hb, hbad, g⟩ := h.good
    obtain ⟨hb', hg'⟩ := g.step (h.span op List.mem_cons_self)
    have hbook : (((stepOp c op).2.map CEv.obs).foldl (Mon.step chk) (Mon.step chk mc (.op op))).book
        = bookOf (bk.step (.op op)) ((stepOp c op).2.map CEv.obs) := by
      rw [foldl_mon_book, Mon.step_book, hb]
    by_cases hsp : (bookOf (bk.step (.op op)) ((stepOp c op).2.map CEv.obs)).spun = true
    · exact Or.inl hsp
    · right
      have hg'' : Good (((stepOp c op).2.map CEv.obs).foldl (Mon.step chk) (Mon.step chk mc (.op op))) (stepOp c op).1 ops := by
        rcases hg' with h1 | h1
        · rw [hbook] at h1; exact absurd h1 hsp
        · exact h1
      have hc0 := Sys.obs_nil_eq c g.obs
      have hclr : clr c = c := hc0
      -- the state after the op, with its observations
      have e1 : (stepOp c op).1 = clr (applyOp c op) := by rw [stepOp_fst, hclr]
      have e2 : (stepOp c op).2 = (applyOp c op).s.obs.reverse := by rw [stepOp_snd, hclr]
      have hinv : Inv none (view c.s) := g.j.inv
      have hcq' : CqI none (applyOp c op).s := applyOp_cq hinv h.cq op
      have ht0 := tr0_applyOp h.st op
      have hnow' : (stepOp c op).1.now = c.now + opAdv op := stepOp_now c op
      have hnowa : (applyOp c op).now = c.now + opAdv op := applyOp_now c op
      obtain ⟨b1, b2, b3, b4, b5, b6, b7⟩ := tracked_book_facts bk op (applyOp c op).s
      rw [← e2] at b1 b2 b3 b4 b5 b6 b7
      have hspun' : (obsBook (bk.step (.op op)) (stepOp c op).2).spun = false := by simpa using hsp
      refine ⟨⟨_, hbook, hb', hg''⟩, fun o ho => h.span o (List.mem_cons_of_mem _ ho), inv_stepOp h.st op, ?_, ?_, ?_, ?_⟩
      · rw [e1]; exact hcq'.qc (QCq.of_calls rfl rfl rfl rfl rfl rfl rfl)
      · show (obsBook (bk.step (.op op)) (stepOp c op).2).now = (stepOp c op).1.now
        rw [obsBook_now, (step_op_fields' bk op).2.2.2.2.2.2, h.now, hnow']
      · intro hte
        have hte' : (applyOp c op).s.termErr.isSome = true := by rw [e1] at hte; exact hte
        rcases te_applyOp h.st op hte' with h1 | h1 | h1
        · have := h.te h1
          cases hf : (bookOf (bk.step (.op op)) ((stepOp c op).2.map CEv.obs)).failed with
          | true => rfl
          | false => rw [b6 hf] at this; cases this
        · exact b7 h1
        · exfalso
          have : (obsBook (bk.step (.op op)) (stepOp c op).2).spun = true := by
            rw [obsBook_spun, e2, any_of_hasT h1 (fun o => isStop_of_isSpin)]; simp
          rw [hspun'] at this; cases this
      · have := h.tr.step (bk' := bookOf (bk.step (.op op)) ((stepOp c op).2.map CEv.obs)) ht0
          (by rw [hnowa]; omega) (by rw [g.obs]; rfl) b1 b2 b3 b4 b5 b6 b7
        rw [e1]
        rw [hnowa] at this
        show Tracked (clr (applyOp c op)).s (clr (applyOp c op)).now _
        have hn : (clr (applyOp c op)).now = c.now + opAdv op := hnowa
        rw [hn]
        exact this

/-! ### the end of a top-level dispatch poll -/

theorem CallsRel.mem_fwd {bs : List BCall} {cs : List CallV} (h : CallsRel bs cs) {bc : BCall} (hb : bc ∈ bs) :
    ∃ c ∈ cs, RC bc c := by
  induction bs generalizing cs with
  | nil => cases hb
  | cons b bs ih =>
    cases cs with
    | nil => simp [CallsRel] at h
    | cons c0 cs =>
      obtain ⟨h0, h1⟩ := h
      rcases List.mem_cons.mp hb with rfl | hb'
      · exact ⟨c0, List.mem_cons_self, h0⟩
      · obtain ⟨c, hc, hr⟩ := ih h1 hb'
        exact ⟨c, List.mem_cons_of_mem _ hc, hr⟩

theorem CallsRel.mem_bwd {bs : List BCall} {cs : List CallV} (h : CallsRel bs cs) {c : CallV} (hc : c ∈ cs) :
    ∃ bc ∈ bs, RC bc c := by
  induction bs generalizing cs with
  | nil => cases cs <;> simp_all [CallsRel]
  | cons b bs ih =>
    cases cs with
    | nil => cases hc
    | cons c0 cs =>
      obtain ⟨h0, h1⟩ := h
      rcases List.mem_cons.mp hc with rfl | hc'
      · exact ⟨b, List.mem_cons_self, h0⟩
      · obtain ⟨bc, hbc, hr⟩ := ih h1 hc'
        exact ⟨bc, List.mem_cons_of_mem _ hbc, hr⟩

/-- What is known when the core of a top-level dispatch poll has returned `Pending` and the book (after the
observations of the core) shows a writable, failure-free poll: the cancellation queue is empty, every tracked request
belongs to an awaiting call, transmitted live requests are tracked, and the book is coupled with the model. -/
structure AtEnd (c1 : St) (now : Nat) (bp : Book) : Prop where
  inv : Inv none (view c1)
  cq : CqI none c1
  cqNil : c1.cq = []
  tr : Tracked c1 now bp
  cpl : ∃ used, Cpl none (view c1) bp used
  alive : c1.dDropped = false ∧ c1.poisoned = false ∧ c1.termErr = none

theorem at_end_of_poll {c : Sys} {bk : Book} {ops : List COp} (h : OwedInv c bk (.pollDispatch :: ops))
    {c1 : St} (hcore : pollDispatchCore { c.s with dWoken := false } c.now = (c1, .pending))
    (hg : (c.s.dDropped || c.s.done.isSome || c.s.poisoned) = false) (hpo : c1.poisoned = false)
    (hsp : (obsBook (bk.step (.op .pollDispatch)) c1.obs.reverse).spun = false)
    (hrp : (obsBook (bk.step (.op .pollDispatch)) c1.obs.reverse).pollReadyP = false)
    (hfl : (obsBook (bk.step (.op .pollDispatch)) c1.obs.reverse).failed = false) :
    AtEnd c1 c.now (obsBook (bk.step (.op .pollDispatch)) c1.obs.reverse) := by
  obtain ⟨mc, hb, hbad, g⟩ := h.good
  have hinv : Inv none (view c.s) := g.j.inv
  have hobs : c.s.obs = [] := g.obs
  -- the book facts, read off the observations of the core
  rw [obsBook_spun] at hsp
  rw [obsBook_pollReadyP] at hrp
  rw [obsBook_failed, (step_op_fields' bk .pollDispatch).2.2.2.1] at hfl
  simp only [Bool.or_eq_false_iff] at hsp hrp hfl
  have hnoRP : ¬ HasT readyP c1 := fun hx => by rw [hasT_any hx] at hrp; exact absurd hrp.2 (by simp)
  have hnoFail : ¬ HasT isFail c1 := fun hx => by rw [hasT_any hx] at hfl; exact absurd hfl.2 (by simp)
  have hnoSpin : ¬ HasT isSpin c1 := fun hx => by
    rw [any_of_hasT hx (fun o => isStop_of_isSpin)] at hsp; exact absurd hsp.2 (by simp)
  -- no terminal error before, none after
  have hte0 : c.s.termErr = none := by
    cases ht : c.s.termErr with
    | none => rfl
    | some a => have := h.te (by rw [ht]; rfl); rw [hfl.1] at this; cases this
  have hi0 : StInv { c.s with dWoken := false } c.now := h.st.quiet (by quiet_rfl)
  have hte := te_pollDispatchCore hi0
  rw [hcore] at hte
  have hte1 : c1.termErr = none := by
    cases ht : c1.termErr with
    | none => rfl
    | some a =>
      rcases hte.te (by rw [ht]; rfl) with h1 | h1 | h1
      · rw [show ({ c.s with dWoken := false } : St).termErr = c.s.termErr from rfl, hte0] at h1; cases h1
      · exact absurd h1 hnoFail
      · exact absurd h1 hnoSpin
  -- drained
  have hdr := pollDispatchCore_drained (s := { c.s with dWoken := false }) (now := c.now)
  rw [hcore] at hdr
  have hcq : c1.cq = [] := (hdr rfl hte1 hpo).resolve_left hnoRP
  -- the state invariants
  have hcq1 : CqI none c1 := by
    have := cqi_pollDispatchCore (D := none) (s := { c.s with dWoken := false }) hinv
      (h.cq.qc (QCq.of_calls rfl rfl rfl rfl rfl rfl rfl)) c.now
    rw [hcore] at this; exact this
  have htr := tr_pollDispatchCore hi0
  rw [hcore] at htr
  have hdd1 : c1.dDropped = false := by
    rw [htr.dd]
    cases hd : c.s.dDropped with
    | false => rfl
    | true => simp [hd] at hg
  -- the coupling with the monitors' book
  have hB : J (Mon.step chk mc (.op .pollDispatch)) none (view c.s) := g.afterOpEvent rfl
  have hJ : J (Mon.step chk mc (.op .pollDispatch)) none (view c1) := by
    have := pollDispatchCore_pres (J.presD (Mon.step chk mc (.op .pollDispatch))) (s := { c.s with dWoken := false }) hB c.now
    rw [hcore] at this; exact this
  have heq : MEq (monOf (Mon.step chk mc (.op .pollDispatch)) c1.obs)
      (monOf (Mon.step chk mc (.op .pollDispatch)) (view c1).rel) := monOf_filter _ c1.obs
  have hbookA : (monOf (Mon.step chk mc (.op .pollDispatch)) c1.obs).book
      = obsBook (bk.step (.op .pollDispatch)) c1.obs.reverse := by
    rw [← foldl_obs_eq, foldl_mon_book, Mon.step_book, hb]
  have hspA : (monOf (Mon.step chk mc (.op .pollDispatch)) (view c1).rel).book.spun = false := by
    rw [← heq.spun, hbookA, obsBook_spun]
    simp [hsp.1, hsp.2]
  have hcpl : ∃ used, Cpl none (view c1) (obsBook (bk.step (.op .pollDispatch)) c1.obs.reverse) used := by
    rcases hJ.cpl with h1 | h1
    · rw [hspA] at h1; cases h1
    · exact ⟨_, h1.of_norm (by rw [← hbookA]; exact heq.book)⟩
  -- transmitted requests are tracked
  obtain ⟨b1, b2, b3, b4, b5, b6, b7⟩ := tracked_book_facts bk .pollDispatch c1
  have t0 : TR0 c.now c.s c1 :=
    ((TB.of_same rfl rfl (fun h => h) rfl : TB c.s { c.s with dWoken := false }).tr c.now rfl).tr0.trans htr.tr0
  have htrk : Tracked c1 c.now (obsBook (bk.step (.op .pollDispatch)) c1.obs.reverse) :=
    h.tr.step t0 (Nat.le_refl _) (by rw [hobs]; rfl) b1 b2 b3 b4 b5 b6 b7
  exact ⟨hJ.inv, hcq1, hcq, htrk, hcpl, hdd1, hpo, hte1⟩

/-- … and then no abandoned call is owed a cancel. -/
theorem AtEnd.not_owed {c1 : St} {now : Nat} {bp : Book} (h : AtEnd c1 now bp) (hnow : bp.now = now)
    (hfl : bp.failed = false)
    {ci : BCall} (hci : ci ∈ bp.calls) (hdrop : ci.dropped = true) {sd : BSend} (hsd : bp.sendOfBody ci.body = some sd)
    (hne : reqEnded bp sd = false) (hnc : bp.cancels.any (·.1 == sd.id) = false) : False := by
  obtain ⟨used, hc⟩ := h.cpl
  have hi := h.inv
  have hsdm : sd ∈ bp.sends := List.mem_of_find?_eq_some hsd
  have hsdb : sd.body = ci.body := by simpa using List.find?_some hsd
  -- the request has not ended
  unfold reqEnded at hne
  simp only [Bool.or_eq_false_iff, Bool.not_eq_false', List.any_eq_false, beq_iff_eq, decide_eq_false_iff_not,
    Nat.not_le] at hne
  obtain ⟨⟨hok, hnr⟩, hdl⟩ := hne
  have hnc' : ∀ p ∈ bp.cancels, p.1 ≠ sd.id := by
    intro p hp
    have := List.any_eq_false.mp hnc p hp
    simpa using this
  -- so it is tracked
  obtain ⟨e, he, hid, _⟩ := h.tr sd hsdm hok (fun rd hrd => hnr rd hrd) hnc' hfl (by rw [← hnow]; exact hdl)
    h.alive.1 h.alive.2.1 h.alive.2.2
  -- the entry belongs to a call that is awaiting it
  obtain ⟨cl, hcl, hclc⟩ : ∃ cl ∈ c1.calls, ccore cl = (e.cid, Phase.awaiting, false, cl.os.rxClosed) := by
    rcases h.cq.ent e he with hx | ⟨⟨rx, hm⟩, _⟩
    · rw [h.cqNil] at hx; cases hx
    · obtain ⟨cl, hcl, hcc⟩ := mem_cores hm
      refine ⟨cl, hcl, ?_⟩
      rw [hcc]
      simp only [ccore, Prod.mk.injEq] at hcc
      rw [← hcc.2.2.2]
  simp only [ccore, Prod.mk.injEq] at hclc
  obtain ⟨hcid, hph, _, _⟩ := hclc
  have hget : (view c1).get e.cid = some cl.v := by
    have := getCall_of_mem_inv hi hcl
    rw [hcid] at this
    exact view_getCall_some this
  obtain ⟨cv, hcv, _, hcvid, _⟩ := hi.inf e he
  rw [hget] at hcv; injection hcv with hcv; subst hcv
  -- the abandoned call, in the model
  obtain ⟨cvi, hcvi, hrc⟩ := hc.calls.mem_fwd hci
  have hcvid' : cvi.phase = .dropped := hrc.dropped hdrop
  -- the call that sent the request
  obtain ⟨j, cj, hgj, henq, hjid, hjb, _⟩ := hc.sends sd hsdm
  have hcjm : cj ∈ (view c1).calls := View.get_mem hgj
  have : cj = cvi := nodup_map_unique hc.bodies hcjm hcvi (by rw [← hjb, hsdb, hrc.body])
  subst this
  -- it is the awaiting call: same request id
  have hj : j = e.cid := by
    refine hi.idInj j e.cid cj cl.v hgj hget henq.polled (Or.inr (Or.inl ?_)) (by rw [hjid, hcvid, hid])
    exact hph
  subst hj
  rw [hget] at hgj; injection hgj with hgj
  rw [← hgj] at hcvid'
  have : cl.v.phase = cl.phase := rfl
  rw [this, hph] at hcvid'
  cases hcvid'

/-! ### the third clause of `checkC03` -/

/-- the third clause of `checkC03` alone -/
def checkC03c (b : Book) (u : Unit) : CEv → Unit × Option String
  | .obs (.ret (.dispatch k) r) => checkC03 b u (.obs (.ret (.dispatch k) r))
  | _ => ((), none)

theorem init_owed (m b tc : Nat) (coupled : Bool) (ops : List COp) (hb : (callBodies ops).Nodup)
    (hsp : ∀ op ∈ ops, SpanOk op) : IOwed (initSys m b tc coupled) {} ops := by
  right
  refine ⟨⟨{ st := [] }, rfl, rfl, init_good m b tc coupled ops hb⟩, hsp, inv_init 0 m b tc coupled 0, init_cq 0 m b tc coupled,
    rfl, (fun h => by cases h), ?_⟩
  intro sd hsd
  cases hsd

/-- the observations of a top-level `poll-dispatch` op, located: an end-of-poll observation in them is the `ret` or the
`counts` that follows the observations of `pollDispatchCore` -/
theorem locate_end {c : Sys} {bk : Book} {ops : List COp} (h : OwedInv c bk (.pollDispatch :: ops))
    {os1 os2 : List Obs} {o : Obs} (hos : (stepOp c .pollDispatch).2 = os1 ++ o :: os2) (ho : isEnd o = true) :
    ∃ c1 r, pollDispatchCore { c.s with dWoken := false } c.now = (c1, r) ∧
      (c.s.dDropped || c.s.done.isSome || c.s.poisoned) = false ∧ c1.poisoned = false ∧
      ((os1 = c1.obs.reverse ∧ o = .ret (tid c1) r) ∨
       (os1 = c1.obs.reverse ++ [.ret (tid c1) r] ∧ o = .counts (tid c1) c1.inflight.length c1.timers.len)) := by
  obtain ⟨mc, hb, hbad, g⟩ := h.good
  have hclr : clr c = c := Sys.obs_nil_eq c g.obs
  rw [stepOp_snd, hclr] at hos
  change (pollDispatch c.s c.now).obs.reverse = os1 ++ o :: os2 at hos
  rcases pollDispatch_obs_shape h.st g.obs with hno | ⟨c1, r, D, hc, hg, hpo, hd1, hdD, hobs⟩
  · have : o ∈ (pollDispatch c.s c.now).obs := by
      rw [← List.mem_reverse, hos]; simp
    rw [hno o this] at ho; cases ho
  · rw [hobs] at hos
    simp only [List.reverse_append, List.reverse_cons, List.append_assoc, List.singleton_append] at hos
    have hA : ∀ a ∈ c1.obs.reverse, isEnd a = false := fun a ha => not_isEnd_of_disp (hd1 a (List.mem_reverse.mp ha))
    have hD : ∀ a ∈ D.reverse, isEnd a = false := fun a ha => not_isEnd_of_disp (hdD a (List.mem_reverse.mp ha))
    have hos' : c1.obs.reverse ++ .ret (tid c1) r :: .counts (tid c1) c1.inflight.length c1.timers.len :: D.reverse
        = os1 ++ o :: os2 := by
      rw [← hos]; simp
    rcases split_at_end hA hD ho hos' with ⟨e1, e2, _⟩ | ⟨e1, e2, _⟩
    · exact ⟨c1, r, hc, hg, hpo, Or.inl ⟨e1, e2⟩⟩
    · exact ⟨c1, r, hc, hg, hpo, Or.inr ⟨e1, e2⟩⟩

theorem owed_at_ret {c : Sys} {bk : Book} {op : COp} {ops : List COp} {os1 os2 : List Obs} {o : Obs}
    (h : IOwed c bk (op :: ops)) (hos : (stepOp c op).2 = os1 ++ o :: os2)
    (hsp : (bookOf (bk.step (.op op)) (os1.map CEv.obs)).spun = false) :
    (checkC03c (bookOf (bk.step (.op op)) (os1.map CEv.obs)) () (.obs o)).2 = none := by
  cases o with
  | ret t r =>
    cases t with
    | dispatch k =>
      show (checkC03 (obsBook (bk.step (.op op)) os1) () (.obs (.ret (.dispatch k) r))).2 = none
      unfold checkC03
      simp only
      split
      · rename_i hcond
        simp only [Bool.and_eq_true, Bool.not_eq_true', beq_iff_eq] at hcond
        obtain ⟨⟨⟨htop, hrp⟩, hfl⟩, hr⟩ := hcond
        subst hr
        -- not spun: the full invariant holds
        rcases h with hs | h
        · exfalso
          change (obsBook (bk.step (.op op)) os1).spun = false at hsp
          rw [obsBook_spun, Book.spun_step_op, hs] at hsp
          cases hsp
        · -- a top-level dispatch poll
          rw [obsBook_topPoll, step_op_topPoll] at htop
          subst htop
          obtain ⟨c1, r, hcore, hg, hpo, hpos⟩ := locate_end h hos rfl
          rcases hpos with ⟨e1, e2⟩ | ⟨_, e2⟩
          · injection e2 with _ e2
            subst e2
            subst e1
            have hae := at_end_of_poll h hcore hg hpo hsp hrp hfl
            have hnow : (obsBook (bk.step (.op .pollDispatch)) c1.obs.reverse).now = c.now := by
              rw [obsBook_now, (step_op_fields' bk .pollDispatch).2.2.2.2.2.2, h.now]; rfl
            -- nobody is owed a cancel
            generalize hF : List.filter _ (obsBook (bk.step (.op .pollDispatch)) c1.obs.reverse).calls = owed
            have hnil : owed = [] := by
              rw [← hF, List.filter_eq_nil_iff]
              intro ci hci hp
              simp only [Bool.and_eq_true] at hp
              obtain ⟨hdrop, hm⟩ := hp
              cases hsd : (obsBook (bk.step (.op .pollDispatch)) c1.obs.reverse).sendOfBody ci.body with
              | none => simp only [hsd] at hm; cases hm
              | some sd =>
                simp only [hsd, Bool.and_eq_true, Bool.not_eq_true'] at hm
                exact hae.not_owed hnow hfl hci hdrop hsd hm.1 hm.2
            rw [hnil]
          · cases e2
      · rfl
    | _ => rfl
  | _ => rfl

/-- **The third clause of `checkC03` never objects to a trace of the model.** -/
theorem monC03c_accepts (m b tc : Nat) (coupled : Bool) (ops : List COp) (hb : (callBodies ops).Nodup)
    (hsp : ∀ op ∈ ops, SpanOk op) :
    (Mon.run checkC03c () (trace (initSys m b tc coupled) ops)).bad = none := by
  unfold Mon.run
  refine mon_accepts_of_splits checkC03c { st := () } _ rfl ?_
  intro pre e post he st
  refine trace_positions IOwed
    (fun bk e => (preBook bk e).spun = false → (checkC03c (preBook bk e) () e).2 = none)
    ?_ ?_ ?_ ops (initSys m b tc coupled) {} (init_owed m b tc coupled ops hb hsp) pre e post he
  · intro c bk op ops' _ _; rfl
  · intro c bk op ops' os1 o os2 hI hos hs
    exact owed_at_ret hI hos hs
  · intro c bk op ops' hI; exact full_next hI

/-! ### putting the clauses of a monitor together -/

/-- A monitor without a state of its own accepts iff its checker passes at every position (not judged once spun). -/
theorem unit_mon_accepts_iff (check : Book → Unit → CEv → Unit × Option String) (m : Mon Unit) (evs : List CEv) :
    (evs.foldl (Mon.step check) m).bad = none ↔
      m.bad = none ∧ ∀ pre e post, evs = pre ++ e :: post → (preBook (bookOf m.book pre) e).spun = false →
        (check (preBook (bookOf m.book pre) e) () e).2 = none := by
  constructor
  · intro h
    induction evs generalizing m with
    | nil => exact ⟨h, fun pre e post he => by simp at he⟩
    | cons e0 evs ih =>
      simp only [List.foldl_cons] at h
      obtain ⟨hb1, hrest⟩ := ih _ h
      obtain ⟨hb0, hr0⟩ := Mon.step_bad_none.mp hb1
      refine ⟨hb0, ?_⟩
      intro pre e post he hs
      cases pre with
      | nil =>
        simp only [List.nil_append, List.cons.injEq] at he
        obtain ⟨rfl, _⟩ := he
        simp only [bookOf_nil] at hs ⊢
        unfold Mon.res Mon.pre at hr0
        cases e0 with
        | op o => simp only [preBook] at hs ⊢; simp only [hs, Bool.false_eq_true, ↓reduceIte] at hr0; exact hr0
        | obs o => simp only [preBook] at hs ⊢; simp only [hs, Bool.false_eq_true, ↓reduceIte] at hr0; exact hr0
      | cons e1 pre' =>
        simp only [List.cons_append, List.cons.injEq] at he
        obtain ⟨rfl, he⟩ := he
        have := hrest pre' e post he
        rw [Mon.step_book] at this
        exact this hs
  · rintro ⟨hb, h⟩
    exact mon_accepts_of_splits check m evs hb (fun pre e post he _ => h pre e post he)

theorem checkC03_split (b : Book) (e : CEv) :
    (checkC03 b () e).2 = none ↔ (checkC03ab b () e).2 = none ∧ (checkC03c b () e).2 = none := by
  cases e with
  | op o => exact ⟨fun h => ⟨h, rfl⟩, fun h => h.1⟩
  | obs o =>
    cases o with
    | ret t r =>
      cases t with
      | dispatch k => exact ⟨fun h => ⟨rfl, h⟩, fun h => h.2⟩
      | _ => exact ⟨fun h => ⟨h, rfl⟩, fun h => h.1⟩
    | _ => exact ⟨fun h => ⟨h, rfl⟩, fun h => h.1⟩

/-- **`monC03` — all three clauses — accepts every trace of the model** (scripts whose calls have pairwise distinct
bodies and caller-chosen span ids). -/
theorem monC03_accepts (m b tc : Nat) (coupled : Bool) (ops : List COp) (hb : (callBodies ops).Nodup)
    (hsp : ∀ op ∈ ops, SpanOk op) : (monC03 (trace (initSys m b tc coupled) ops)).ok = true := by
  have h1 : (Mon.run checkC03ab () (trace (initSys m b tc coupled) ops)).bad = none := by
    have := (combined_ok (combined_accepts m b tc coupled ops hb hsp)).2.2
    simpa [Mon.ok, monC03ab] using this
  have h2 := monC03c_accepts m b tc coupled ops hb hsp
  unfold Mon.run at h1 h2
  obtain ⟨_, p1⟩ := (unit_mon_accepts_iff checkC03ab _ _).mp h1
  obtain ⟨_, p2⟩ := (unit_mon_accepts_iff checkC03c _ _).mp h2
  have h3 : ((trace (initSys m b tc coupled) ops).foldl (Mon.step checkC03) { st := () }).bad = none := by
    refine (unit_mon_accepts_iff checkC03 _ _).mpr ⟨rfl, ?_⟩
    intro pre e post he hs
    exact (checkC03_split _ e).mpr ⟨p1 pre e post he hs, p2 pre e post he hs⟩
  simp [monC03, Mon.run, Mon.ok, h3]

/-! ### the third clause of `checkC11`: tracked state is reclaimed -/

/-- the third clause of `checkC11` alone -/
def checkC11c (b : Book) (_ : Unit) : CEv → Unit × Option String
  | .obs (.counts (.dispatch _) inflight _) =>
      if b.topPoll && !b.pollReadyP && !b.failed && b.liveCalls.isEmpty && b.dispatchRet.isNone && inflight != 0 then
        ((), some s!"all calls resolved or dropped, transport writable, yet {inflight} requests still tracked")
      else ((), none)
  | _ => ((), none)

/-- … and once every call is resolved or dropped nothing is tracked. -/
theorem AtEnd.reclaimed {c1 : St} {now : Nat} {bp : Book} (h : AtEnd c1 now bp) (hlive : bp.liveCalls.isEmpty = true) :
    c1.inflight = [] := by
  obtain ⟨used, hc⟩ := h.cpl
  have hi := h.inv
  cases hinf : c1.inflight with
  | nil => rfl
  | cons e rest =>
    exfalso
    have he : e ∈ c1.inflight := by rw [hinf]; exact List.mem_cons_self
    -- the entry belongs to a call that is awaiting it
    obtain ⟨cl, hcl, hph⟩ : ∃ cl ∈ c1.calls, cl.phase = Phase.awaiting := by
      rcases h.cq.ent e he with hx | ⟨⟨rx, hm⟩, _⟩
      · rw [h.cqNil] at hx; cases hx
      · obtain ⟨cl, hcl, hcc⟩ := mem_cores hm
        simp only [ccore, Prod.mk.injEq] at hcc
        exact ⟨cl, hcl, hcc.2.1⟩
    have hclv : cl.v ∈ (view c1).calls := List.mem_map_of_mem hcl
    obtain ⟨bc, hbc, hrc⟩ := hc.calls.mem_bwd hclv
    -- but the book says it is resolved or dropped
    have hdead : bc.dropped = true ∨ bc.resolved.isSome = true := by
      unfold Book.liveCalls at hlive
      rw [List.isEmpty_iff, List.filter_eq_nil_iff] at hlive
      have := hlive bc hbc
      simp only [Bool.and_eq_true, Bool.not_eq_true', not_and, Bool.not_eq_false] at this
      cases hd : bc.dropped with
      | true => exact Or.inl rfl
      | false =>
        right
        have := this hd
        cases hr : bc.resolved with
        | none => simp [hr] at this
        | some o => rfl
    have hvp : cl.v.phase = cl.phase := rfl
    rcases hdead with hd | hr
    · have := hrc.dropped hd
      rw [hvp, hph] at this; cases this
    · rw [hrc.resolved] at hr
      have := (hi.outc cl.cid cl.v (hi.get_of_mem hclv)).mp hr
      rw [hvp, hph] at this; cases this

theorem step_ret_pending (b : Book) (k : Nat) : b.step (.obs (.ret (.dispatch k) .pending)) = b := by
  simp [Book.step]

theorem step_ret_dispatchRet (b : Book) (k : Nat) (r : Ret) (hr : r ≠ .pending) :
    (b.step (.obs (.ret (.dispatch k) r))).dispatchRet = some r := by
  unfold Book.step
  simp only
  split
  · rename_i h; exact absurd (by simpa using h) hr
  · rfl

theorem reclaimed_at_counts {c : Sys} {bk : Book} {op : COp} {ops : List COp} {os1 os2 : List Obs} {o : Obs}
    (h : IOwed c bk (op :: ops)) (hos : (stepOp c op).2 = os1 ++ o :: os2)
    (hsp : (bookOf (bk.step (.op op)) (os1.map CEv.obs)).spun = false) :
    (checkC11c (bookOf (bk.step (.op op)) (os1.map CEv.obs)) () (.obs o)).2 = none := by
  cases o with
  | counts t i tm =>
    cases t with
    | dispatch k =>
      show (checkC11c (obsBook (bk.step (.op op)) os1) () (.obs (.counts (.dispatch k) i tm))).2 = none
      unfold checkC11c
      simp only
      split
      · rename_i hcond
        exfalso
        simp only [Bool.and_eq_true, Bool.not_eq_true', bne_iff_ne, ne_eq] at hcond
        obtain ⟨⟨⟨⟨⟨htop, hrp⟩, hfl⟩, hlive⟩, hret⟩, hne⟩ := hcond
        rcases h with hs | h
        · change (obsBook (bk.step (.op op)) os1).spun = false at hsp
          rw [obsBook_spun, Book.spun_step_op, hs] at hsp
          cases hsp
        · rw [obsBook_topPoll, step_op_topPoll] at htop
          subst htop
          obtain ⟨c1, r, hcore, hg, hpo, hpos⟩ := locate_end h hos rfl
          rcases hpos with ⟨_, e2⟩ | ⟨e1, e2⟩
          · cases e2
          · injection e2 with _ e2 _
            subst e1
            -- the book before `counts` is the book after `ret r`
            have hbk : obsBook (bk.step (.op .pollDispatch)) (c1.obs.reverse ++ [.ret (tid c1) r])
                = (obsBook (bk.step (.op .pollDispatch)) c1.obs.reverse).step (.obs (.ret (tid c1) r)) := by
              unfold obsBook
              rw [List.map_append, bookOf_append]; rfl
            by_cases hr : r = .pending
            · subst hr
              have hbk' : obsBook (bk.step (.op .pollDispatch)) (c1.obs.reverse ++ [.ret (tid c1) .pending])
                  = obsBook (bk.step (.op .pollDispatch)) c1.obs.reverse := by
                rw [hbk]; exact step_ret_pending _ _
              change (obsBook _ _).spun = false at hsp
              rw [hbk'] at hsp hrp hfl hlive
              have hae := at_end_of_poll h hcore hg hpo hsp hrp hfl
              have := hae.reclaimed hlive
              rw [e2, this] at hne
              exact hne rfl
            · rw [hbk, show tid c1 = .dispatch c1.k from rfl, step_ret_dispatchRet _ _ _ hr] at hret
              cases hret
      · rfl
    | _ => rfl
  | _ => rfl

/-- **The third clause of `checkC11` never objects to a trace of the model.** -/
theorem monC11c_accepts (m b tc : Nat) (coupled : Bool) (ops : List COp) (hb : (callBodies ops).Nodup)
    (hsp : ∀ op ∈ ops, SpanOk op) :
    (Mon.run checkC11c () (trace (initSys m b tc coupled) ops)).bad = none := by
  unfold Mon.run
  refine mon_accepts_of_splits checkC11c { st := () } _ rfl ?_
  intro pre e post he st
  refine trace_positions IOwed
    (fun bk e => (preBook bk e).spun = false → (checkC11c (preBook bk e) () e).2 = none)
    ?_ ?_ ?_ ops (initSys m b tc coupled) {} (init_owed m b tc coupled ops hb hsp) pre e post he
  · intro c bk op ops' _ _; rfl
  · intro c bk op ops' os1 o os2 hI hos hs
    exact reclaimed_at_counts hI hos hs
  · intro c bk op ops' hI; exact full_next hI

end TarpcModel.Client

import TarpcModel.Lemmas.ServerMon06
/-!
The server's C18 monitor (`checkC18`, `Monitors/Server.lean`: what the handler is given — trace id, sampling decision,
a fresh span id, the deadline of the request read last for that id) accepts every trace of the server model whose
injected requests carry caller-chosen (`given`) span ids.

* `Ext18` / `T18`: what the parts of the model do to the observation buffer (no request read, no request handed out)
  and to the executions' identity (rid / id / deadline / trace / number), the span counter and the inbound queue;
* `I18`: the invariant — span ids of executions are pairwise distinct `fresh k`, `k` below the counter; the book lists
  the spans of the executions handed out; inbound requests carry `given` spans; a request started in the current poll
  (`pend`) matches the request read last for its id;
* the walk (`i18_bpStep` … `i18_requestsPollNext`), one op, every trace (`c18_trace`).
-/
namespace TarpcModel.Server.Mon18
open TarpcModel TarpcModel.Server TarpcModel.Server.Flow TarpcModel.Server.ObsMon TarpcModel.Server.Mon06
set_option linter.unusedSimpArgs false
set_option linter.unusedVariables false

/-! ## the observations the C18 monitor's book reacts to -/

def isCore18 : Obs → Bool
  | .tNext _ (.item (.request _ _ _ _)) => true
  | .yielded _ _ _ _ => true
  | _ => false

theorem isCore_of_18 (o : Obs) (h : isCore o = false) : isCore18 o = false := by
  cases o <;> simp [isCore, isCore18] at h ⊢

/-- `s'` extends the observation buffer of `s` by observations that read no request and hand none out -/
def Ext18 (s s' : St) : Prop := ∃ l, s'.obs = l ++ s.obs ∧ ∀ o ∈ l, isCore18 o = false

theorem Ext18.refl (s : St) : Ext18 s s := ⟨[], rfl, fun _ h => by cases h⟩
theorem Ext18.trans {a b c : St} (h1 : Ext18 a b) (h2 : Ext18 b c) : Ext18 a c := by
  obtain ⟨l1, e1, p1⟩ := h1
  obtain ⟨l2, e2, p2⟩ := h2
  exact ⟨l2 ++ l1, by rw [e2, e1, List.append_assoc], fun o ho => (List.mem_append.mp ho).elim (p2 o) (p1 o)⟩
theorem Ext18.of_eq {s s' : St} (h : s'.obs = s.obs) : Ext18 s s' := ⟨[], by simp [h], fun _ h => by cases h⟩
theorem Ext18.pre {s s0 s' : St} (h : Ext18 s0 s') (h1 : s0.obs = s.obs) : Ext18 s s' := (Ext18.of_eq h1).trans h
theorem Ext18.emit (s : St) (o : Obs) (h : isCore18 o = false) : Ext18 s (emit s o) :=
  ⟨[o], rfl, fun o' ho' => by simp only [List.mem_singleton] at ho'; rw [ho']; exact h⟩
theorem Ext18.of_ext {s s' : St} (h : Ext s s') : Ext18 s s' := by
  obtain ⟨l, e, p⟩ := h
  exact ⟨l, e, fun o ho => isCore_of_18 o (p o ho)⟩

/-- the spans of the executions the book lists -/
def bspans (b : Book) : List Span := b.execs.map (·.trace.span)

theorem updExec_spans (b : Book) (r : Nat) (f : BExec → BExec) (hf : ∀ e, (f e).trace = e.trace) :
    bspans (b.updExec r f) = bspans b := by
  unfold bspans Book.updExec
  simp only [List.map_map]
  apply List.map_congr_left
  intro e _
  simp only [Function.comp]
  split
  · rw [hf e]
  · rfl

theorem sweepOne_rr (b : Book) : b.sweepOne.reqReads = b.reqReads := by
  rw [sweepOne_eq]
  have h1 : (so1 b).reqReads = b.reqReads := by unfold so1; split <;> rfl
  split
  · exact h1
  · split <;> exact h1

theorem preRead_rr (b : Book) : (preRead b).reqReads = b.reqReads ∧ bspans (preRead b) = bspans b := by
  unfold preRead
  split
  · exact ⟨sweepOne_rr _, by unfold bspans; rw [(sweepOne_spec _).2.1]⟩
  · exact ⟨rfl, rfl⟩

theorem map_ite_same {α β : Type} (l : List α) (c : α → Prop) [DecidablePred c] (g : α → α) (h : α → β)
    (hg : ∀ e, h (g e) = h e) : (l.map (fun e => if c e then g e else e)).map h = l.map h := by
  induction l with
  | nil => rfl
  | cons a l ih =>
    simp only [List.map_cons, ih]
    congr 1
    split
    · exact hg a
    · rfl

theorem swept_spans (b1 : Book) (l : Option Nat) : bspans (sweptBook b1 l) = bspans b1 := by
  unfold bspans
  rw [swept_execs_eq]
  exact map_ite_same b1.execs (fun e => e.tick ≤ b1.now) (fun e => { e with expiredSeen := true }) (·.trace.span) (fun e => rfl)

/-- an observation other than a request read / a request handed out leaves the request log and the spans alone -/
theorem step18 (b : Book) (o : Obs) (h : isCore18 o = false) :
    (b.step (.obs o)).reqReads = b.reqReads ∧ bspans (b.step (.obs o)) = bspans b := by
  cases o with
  | yielded r id d tr => simp [isCore18] at h
  | tNext ep r =>
    rw [step_tNext_eq]
    obtain ⟨h1, h2⟩ := preRead_rr b
    cases r with
    | item m =>
      cases m with
      | request id d tr body => simp [isCore18] at h
      | cancel id tr =>
        simp only
        split
        · next r' _ =>
          exact ⟨h1, (updExec_spans (preRead b) r' (fun e => { e with cancelRead := true }) (fun e => rfl)).trans h2⟩
        · exact ⟨h1, h2⟩
      | response id res => exact ⟨h1, h2⟩
    | pending => exact ⟨h1, h2⟩
    | err => exact ⟨h1, h2⟩
    | eof => exact ⟨h1, h2⟩
  | tSend ep m ok =>
    cases m with
    | response id res => cases ok <;> exact ⟨rfl, rfl⟩
    | _ => exact ⟨rfl, rfl⟩
  | ret t r =>
    cases t with
    | server k =>
      rw [step_ret_eq]
      cases r <;> (simp only; split) <;> first | exact ⟨rfl, swept_spans _ _⟩ | exact ⟨rfl, rfl⟩
    | exec v =>
      cases r with
      | readyOk => exact ⟨rfl, updExec_spans _ _ _ (fun e => rfl)⟩
      | _ => exact ⟨rfl, rfl⟩
    | _ => exact ⟨rfl, rfl⟩
  | handler r ev t =>
    cases ev with
    | completed => exact ⟨rfl, updExec_spans _ _ _ (fun e => rfl)⟩
    | dropped => exact ⟨rfl, updExec_spans _ _ _ (fun e => rfl)⟩
    | _ => exact ⟨rfl, rfl⟩
  | tReady ep r => simp only [Book.step]; (repeat' split) <;> exact ⟨rfl, rfl⟩
  | tFlush ep r => simp only [Book.step]; (repeat' split) <;> exact ⟨rfl, rfl⟩
  | counts ep a b' => cases ep <;> exact ⟨rfl, rfl⟩
  | _ => exact ⟨rfl, rfl⟩

theorem bo_ext18 (b0 : Book) {s s' : St} (h : Ext18 s s') :
    (bo b0 s'.obs).reqReads = (bo b0 s.obs).reqReads ∧ bspans (bo b0 s'.obs) = bspans (bo b0 s.obs) := by
  obtain ⟨l, e, p⟩ := h
  rw [e]
  clear e
  induction l with
  | nil => exact ⟨rfl, rfl⟩
  | cons o l ih =>
    have ih' := ih (fun o' ho' => p o' (List.mem_cons_of_mem _ ho'))
    obtain ⟨h1, h2⟩ := step18 (bo b0 (l ++ s.obs)) o (p o (List.mem_cons_self ..))
    exact ⟨h1.trans ih'.1, h2.trans ih'.2⟩

/-! ## what the parts of the model keep: the executions' identity, the span counter, the inbound queue -/

/-- the identity of an execution, as far as C18 is concerned -/
structure XT where
  rid : Nat
  id : Nat
  deadline : Nat
  trace : Trace
  vis : Option Nat

def xt (e : Exec) : XT := ⟨e.rid, e.id, e.deadline, e.trace, e.vis⟩

structure T18 (s s' : St) : Prop where
  execs : s'.execs.map xt = s.execs.map xt
  fresh : s'.nextFresh = s.nextFresh
  inb : ∀ m ∈ s'.t.inbound, m ∈ s.t.inbound

/-- quiet for the C18 book, and the same identities -/
def Q18 (s s' : St) : Prop := Ext18 s s' ∧ T18 s s'

theorem T18.refl (s : St) : T18 s s := ⟨rfl, rfl, fun _ h => h⟩
theorem T18.trans {a b c : St} (h1 : T18 a b) (h2 : T18 b c) : T18 a c :=
  ⟨h2.execs.trans h1.execs, h2.fresh.trans h1.fresh, fun m hm => h1.inb m (h2.inb m hm)⟩
theorem T18.of_eq {s s' : St} (h1 : s'.execs = s.execs) (h2 : s'.nextFresh = s.nextFresh) (h3 : s'.t = s.t) : T18 s s' :=
  ⟨by rw [h1], h2, fun m hm => by rw [h3] at hm; exact hm⟩

theorem Q18.refl (s : St) : Q18 s s := ⟨Ext18.refl s, T18.refl s⟩
theorem Q18.trans {a b c : St} (h1 : Q18 a b) (h2 : Q18 b c) : Q18 a c := ⟨h1.1.trans h2.1, h1.2.trans h2.2⟩
theorem Q18.of_eq {s s' : St} (h0 : s'.obs = s.obs) (h1 : s'.execs = s.execs) (h2 : s'.nextFresh = s.nextFresh)
    (h3 : s'.t = s.t) : Q18 s s' := ⟨Ext18.of_eq h0, T18.of_eq h1 h2 h3⟩
theorem Q18.pre {s s0 s' : St} (h : Q18 s0 s') (h0 : s0.obs = s.obs) (h1 : s0.execs = s.execs)
    (h2 : s0.nextFresh = s.nextFresh) (h3 : s0.t = s.t) : Q18 s s' := (Q18.of_eq h0 h1 h2 h3).trans h
theorem Q18.emit (s : St) (o : Obs) (h : isCore18 o = false) : Q18 s (emit s o) :=
  ⟨Ext18.emit s o h, T18.of_eq rfl rfl rfl⟩

theorem q18_emitViolations (s : St) (n : Nat) : Q18 s (emitViolations s n) := by
  unfold emitViolations
  generalize ((s.t.violations.take (s.t.violations.length - n)).reverse) = l
  induction l generalizing s with
  | nil => exact Q18.refl s
  | cons a l ih => simp only [List.foldl_cons]; exact (Q18.emit s _ rfl).trans (ih _)

theorem q18_wakeServer (s : St) : Q18 s (wakeServer s) := by
  unfold wakeServer; split
  · exact Q18.refl s
  · exact (Q18.emit _ _ rfl).pre rfl rfl rfl rfl

theorem q18_updExec (s : St) (r : Nat) (f : Exec → Exec) (hf : ∀ e, xt (f e) = xt e) : Q18 s (updExec s r f) := by
  refine ⟨Ext18.of_eq rfl, ?_, rfl, fun _ h => h⟩
  unfold updExec
  simp only [List.map_map]
  apply List.map_congr_left
  intro e _
  simp only [Function.comp]
  split
  · exact hf e
  · rfl

theorem q18_wakeExec (s : St) (r : Nat) : Q18 s (wakeExec s r) := by
  unfold wakeExec; repeat' split
  all_goals first
    | exact Q18.refl s
    | exact Q18.trans (q18_updExec s r (fun e => { e with woken := true }) (fun e => rfl)) (Q18.emit _ _ rfl)

theorem q18_abortExec (s : St) (r : Nat) : Q18 s (abortExec s r) := by
  unfold abortExec; split
  · exact Q18.refl s
  · simp only; split
    · exact Q18.trans (q18_updExec s r (fun e => { e with aborted := true, abortWaker := false }) (fun e => rfl))
        (q18_wakeExec _ r)
    · exact q18_updExec s r _ (fun e => rfl)

theorem q18_removeTimer (s : St) (k : Nat) : Q18 s (removeTimer s k) := by
  unfold removeTimer; split
  · simp only; split
    · exact (q18_wakeServer _).pre rfl rfl rfl rfl
    · exact Q18.of_eq rfl rfl rfl rfl
  · exact (Q18.emit _ _ rfl).pre rfl rfl rfl rfl

theorem q18_removeRequest (s : St) (id : Nat) : Q18 s (removeRequest s id).1 := by
  unfold removeRequest; split
  · exact Q18.refl s
  · exact (q18_removeTimer _ _).pre rfl rfl rfl rfl

theorem q18_cancelRequest (s : St) (id : Nat) : Q18 s (cancelRequest s id).1 := by
  unfold cancelRequest; split
  · exact Q18.refl s
  · exact ((q18_abortExec _ _).trans (q18_removeTimer _ _)).pre rfl rfl rfl rfl

theorem q18_rearm {s s2 : St} {now : Nat} {en : SEntry} (hr : rearm s now en = some s2) : Q18 s s2 := by
  rcases rearm_cases s now en with ⟨_, he⟩ | ⟨q, key, w, _, he⟩ <;> rw [he] at hr <;> cases hr
  cases w
  · exact Q18.of_eq rfl rfl rfl rfl
  · exact (q18_wakeServer s).trans (Q18.of_eq rfl rfl rfl rfl)

theorem q18_expireStep (s : St) (now : Nat) : Q18 s (expireStep s now).1 := by
  have hs := expireStep_shape s now
  revert hs; generalize expireStep s now = q; intro hs
  obtain ⟨s', r⟩ := q
  dsimp only at hs ⊢
  cases hs with
  | idleNone q hp' => exact Q18.of_eq rfl rfl rfl rfl
  | idlePending q hp' => exact Q18.of_eq rfl rfl rfl rfl
  | orphan q e hp' hf => exact Q18.of_eq rfl rfl rfl rfl
  | abort q e en hp' hf h0 => exact (q18_abortExec _ _).pre rfl rfl rfl rfl
  | rearmed q e en s2 hp' hf h0 hr => exact (q18_rearm hr).pre rfl rfl rfl rfl
  | panicked q e en hp' hf h0 hr => exact (Q18.emit _ _ rfl).pre rfl rfl rfl rfl

theorem q18_pollExpired (s : St) (now : Nat) : Q18 s (pollExpired s now).1 :=
  pollExpired_rel (R := Q18) now Q18.refl (fun _ _ _ => Q18.trans) (fun s => Q18.emit s _ rfl)
    (fun s => q18_expireStep s now) s

theorem q18_rqRelease (s : St) : Q18 s (rqRelease s) := by
  unfold rqRelease; split
  · exact (q18_wakeExec _ _).pre rfl rfl rfl rfl
  · exact Q18.of_eq rfl rfl rfl rfl

theorem q18_dropOffered (s : St) (rid id : Nat) : Q18 s (dropOffered s rid id) := by
  unfold dropOffered
  simp only
  have h0 : Q18 s (updExec s rid (fun e => { e with phase := .gone, guardArmed := false, woken := false })) :=
    q18_updExec s rid _ (fun e => rfl)
  split
  · exact h0.trans ((q18_wakeServer _).pre rfl rfl rfl rfl)
  · exact h0.trans (Q18.of_eq rfl rfl rfl rfl)

theorem q18_setT (s : St) (t' : SimT) (h : t'.inbound = s.t.inbound) : T18 s { s with t := t' } :=
  ⟨rfl, rfl, fun m hm => by rw [← h]; exact hm⟩

theorem q18_tReady (s : St) : Q18 s (tReady s).1 := by
  unfold tReady
  simp only
  have h0 : Q18 s (emitViolations { s with t := s.t.pollReady.1 } s.t.violations.length) :=
    Q18.trans (b := { s with t := s.t.pollReady.1 }) ⟨Ext18.of_eq rfl, q18_setT s _ (by simp)⟩ (q18_emitViolations _ _)
  have h : Q18 s (Server.emit (emitViolations { s with t := s.t.pollReady.1 } s.t.violations.length)
      (.tReady (tid s) s.t.pollReady.2.1)) := h0.trans (Q18.emit _ _ rfl)
  split
  · exact h.trans (q18_wakeServer _)
  · exact h

theorem q18_tFlush (s : St) : Q18 s (tFlush s).1 := by
  unfold tFlush
  simp only
  have h0 : Q18 s (emitViolations { s with t := s.t.pollFlush.1 } s.t.violations.length) :=
    Q18.trans (b := { s with t := s.t.pollFlush.1 }) ⟨Ext18.of_eq rfl, q18_setT s _ (by simp)⟩ (q18_emitViolations _ _)
  have h : Q18 s (Server.emit (emitViolations { s with t := s.t.pollFlush.1 } s.t.violations.length)
      (.tFlush (tid s) s.t.pollFlush.2.1)) := h0.trans (Q18.emit _ _ rfl)
  split
  · exact h.trans (q18_wakeServer _)
  · exact h

theorem q18_tSend (s : St) (m : Msg) : Q18 s (tSend s m).1 := by
  unfold tSend
  simp only
  have h0 : Q18 s (emitViolations { s with t := (s.t.startSend m).1 } s.t.violations.length) :=
    Q18.trans (b := { s with t := (s.t.startSend m).1 }) ⟨Ext18.of_eq rfl, q18_setT s _ (by simp)⟩ (q18_emitViolations _ _)
  exact h0.trans (Q18.emit _ _ rfl)

theorem q18_ensureOnce (s : St) : Q18 s (ensureOnce s).1 := by
  unfold ensureOnce
  have h1 := q18_tReady s
  split
  · next s1 heq => rw [heq] at h1; exact h1
  · next s1 heq => rw [heq] at h1; exact h1
  · next s1 heq =>
    rw [heq] at h1
    have h2 := h1.trans (q18_tFlush s1)
    split
    · next s2 heq2 => rw [heq2] at h2; exact h2
    · next s2 heq2 => rw [heq2] at h2; exact h2
    · next s2 heq2 =>
      rw [heq2] at h2
      have h3 := h2.trans (q18_tReady s2)
      split <;> (rename_i heq3; rw [heq3] at h3; exact h3)

theorem q18_ensureLoop : ∀ (fuel : Nat) (s : St), Q18 s (ensureLoop fuel s).1 := by
  intro fuel
  induction fuel with
  | zero => intro s; exact Q18.emit _ _ rfl
  | succ n ih =>
    intro s
    unfold ensureLoop
    have h1 := q18_tReady s
    split
    · next s1 heq => rw [heq] at h1; exact h1
    · next s1 heq => rw [heq] at h1; exact h1
    · next s1 heq =>
      rw [heq] at h1
      have h2 := h1.trans (q18_tFlush s1)
      split
      · next s2 heq2 => rw [heq2] at h2; exact h2
      · next s2 heq2 => rw [heq2] at h2; exact h2
      · next s2 heq2 => rw [heq2] at h2; exact h2.trans (ih s2)

theorem q18_ensureWriteable (s : St) : Q18 s (ensureWriteable s).1 := by
  unfold ensureWriteable
  split
  · exact q18_ensureLoop _ s
  · exact q18_ensureOnce s

theorem q18_flushArm (s : St) (rc : Bool) : Q18 s (flushArm s rc).1 := by
  unfold flushArm
  have h1 := q18_tFlush s
  split
  · next s1 heq => rw [heq] at h1; exact h1
  · next s1 heq => rw [heq] at h1; exact h1
  · next s1 heq => rw [heq] at h1; split <;> exact h1

theorem q18_baseStartSend (s : St) (id : Nat) (res : Res) : Q18 s (baseStartSend s id res).1 := by
  unfold baseStartSend
  have h1 := q18_removeRequest s id
  split
  · next s1 heq => rw [heq] at h1; exact h1.trans (q18_tSend _ _)
  · next s1 heq => rw [heq] at h1; exact h1

theorem q18_armRead (s : St) (r : SPoll Exec) : Q18 s (armRead s r) := by
  unfold armRead; split
  · exact q18_updExec _ _ _ (fun e => rfl)
  · exact Q18.refl s

theorem q18_pumpWrite (s : St) (rc : Bool) : Q18 s (pumpWrite s rc).1 := by
  unfold pumpWrite
  have h1 := q18_ensureWriteable s
  split
  · next s1 heq => rw [heq] at h1; exact h1.trans (q18_flushArm _ _)
  · next s1 a heq => rw [heq] at h1; exact h1
  · next s1 heq => rw [heq] at h1; exact h1
  · next s1 heq =>
    rw [heq] at h1
    split
    · next id res rest hq =>
      have h2 := (h1.trans ((q18_rqRelease { s1 with respQ := rest }).pre rfl rfl rfl rfl)).trans
        (q18_baseStartSend (rqRelease { s1 with respQ := rest }) id res)
      simp only
      split
      · next s3 heq3 => rw [heq3] at h2; exact h2
      · next s3 r hne heq3 => rw [heq3] at h2; exact h2
    · exact h1.trans ((q18_flushArm _ _).pre rfl rfl rfl rfl)

theorem q18_bpCancel (s : St) : Q18 s (bpCancel s).1 := by
  unfold bpCancel; split
  · exact (q18_removeRequest _ _).pre rfl rfl rfl rfl
  · exact Q18.of_eq rfl rfl rfl rfl

/-! ## the invariant -/

/-- an inbound message: a request carries a caller-chosen span id -/
def GivenMsg : Inb → Prop
  | .msg (.request _ _ tr _) => ∃ n, tr.span = .given n
  | _ => True

/-- the request read last for the id of `x` is `x`'s: same deadline, trace id, sampling decision; its span is `given` -/
def Match (rr : List (Nat × Nat × Trace × Nat)) (x : XT) : Prop :=
  ∃ tr' body, rr.reverse.find? (·.1 == x.id) = some (x.id, x.deadline, tr', body) ∧
    x.trace.traceId = tr'.traceId ∧ x.trace.sampled = tr'.sampled ∧ ∃ n, tr'.span = .given n

/-- `rr`: the book's request log; `sp`: the spans of the executions the book lists; `X`: the executions' identities;
`nf`: the span counter; `inb`: the inbound queue; `pend`: the rid of a request started and not yet handed out -/
structure I18 (rr : List (Nat × Nat × Trace × Nat)) (sp : List Span) (X : List XT) (nf : Nat) (inb : List Inb)
    (pend : Option Nat) : Prop where
  nd : (X.map (·.trace.span)).Nodup
  fr : ∀ x ∈ X, ∃ k, x.trace.span = .fresh k ∧ k < nf
  inb : ∀ m ∈ inb, GivenMsg m
  bk : ∀ s ∈ sp, ∃ x ∈ X, x.vis.isSome = true ∧ x.trace.span = s
  pd : ∀ r, pend = some r → ∀ x ∈ X, x.rid = r → x.vis = none ∧ Match rr x
  ridLt : ∀ x ∈ X, x.rid < X.length

/-- the invariant along the observation buffer of the current op -/
def J18 (b0 : Book) (pend : Option Nat) (s : St) : Prop :=
  I18 (bo b0 s.obs).reqReads (bspans (bo b0 s.obs)) (s.execs.map xt) s.nextFresh s.t.inbound pend

theorem I18.weaken {rr sp X nf inb pend} (h : I18 rr sp X nf inb pend) : I18 rr sp X nf inb none :=
  ⟨h.nd, h.fr, h.inb, h.bk, (fun r hr => by cases hr), h.ridLt⟩

theorem I18.sub {rr sp X nf inb inb' pend} (h : I18 rr sp X nf inb pend) (hs : ∀ m ∈ inb', m ∈ inb) :
    I18 rr sp X nf inb' pend :=
  ⟨h.nd, h.fr, fun m hm => h.inb m (hs m hm), h.bk, h.pd, h.ridLt⟩

theorem j18_q {b0 : Book} {pend : Option Nat} {s s' : St} (hq : Q18 s s') (h : J18 b0 pend s) : J18 b0 pend s' := by
  unfold J18 at *
  obtain ⟨h1, h2⟩ := bo_ext18 b0 hq.1
  rw [h1, h2, hq.2.execs, hq.2.fresh]
  exact h.sub hq.2.inb

theorem j18_weaken {b0 : Book} {pend : Option Nat} {s : St} (h : J18 b0 pend s) : J18 b0 none s := I18.weaken h

theorem I18.rr_none {rr rr' sp X nf inb} (h : I18 rr sp X nf inb none) : I18 rr' sp X nf inb none :=
  ⟨h.nd, h.fr, h.inb, h.bk, (fun r hr => by cases hr), h.ridLt⟩

/-- a request is started: it is pending, and matches the request just read -/
theorem I18.start {rr0 sp X nf inb} (id d : Nat) (tr : Trace) (body : Nat)
    (h : I18 (rr0 ++ [(id, d, tr, body)]) sp X nf inb none) (hg : ∃ n, tr.span = .given n) :
    I18 (rr0 ++ [(id, d, tr, body)]) sp (X ++ [⟨X.length, id, d, { tr with span := .fresh nf }, none⟩]) (nf + 1) inb
      (some X.length) := by
  refine ⟨?_, ?_, h.inb, ?_, ?_, ?_⟩
  · rw [List.map_append, List.nodup_append]
    refine ⟨h.nd, by simp, ?_⟩
    intro a ha b hb
    simp only [List.map_cons, List.map_nil, List.mem_singleton] at hb
    subst hb
    obtain ⟨x, hx, rfl⟩ := List.mem_map.mp ha
    obtain ⟨k, hk, hlt⟩ := h.fr x hx
    rw [hk]
    intro heq
    cases heq
    exact Nat.lt_irrefl _ hlt
  · intro x hx
    simp only [List.mem_append, List.mem_singleton] at hx
    rcases hx with hx | rfl
    · obtain ⟨k, hk, hlt⟩ := h.fr x hx
      exact ⟨k, hk, Nat.lt_succ_of_lt hlt⟩
    · exact ⟨nf, rfl, Nat.lt_succ_self _⟩
  · intro s hs
    obtain ⟨x, hx, h1, h2⟩ := h.bk s hs
    exact ⟨x, List.mem_append_left _ hx, h1, h2⟩
  · intro r hr x hx hxr
    cases hr
    simp only [List.mem_append, List.mem_singleton] at hx
    rcases hx with hx | rfl
    · exact absurd hxr (Nat.ne_of_lt (h.ridLt x hx))
    · refine ⟨rfl, tr, body, ?_, rfl, rfl, hg⟩
      simp
  · intro x hx
    simp only [List.mem_append, List.mem_singleton] at hx
    rw [List.length_append]
    rcases hx with hx | rfl
    · have := h.ridLt x hx; simp; omega
    · simp

theorem inj_of_nodup_map {α β : Type} (f : α → β) {l : List α} (h : (l.map f).Nodup) {a b : α} (ha : a ∈ l) (hb : b ∈ l)
    (he : f a = f b) : a = b := by
  induction l with
  | nil => cases ha
  | cons c l ih =>
    simp only [List.map_cons, List.nodup_cons, List.mem_map, not_exists, not_and] at h
    rcases List.mem_cons.mp ha with rfl | ha'
    · rcases List.mem_cons.mp hb with rfl | hb'
      · rfl
      · exact absurd he.symm (h.1 b hb')
    · rcases List.mem_cons.mp hb with rfl | hb'
      · exact absurd he (h.1 a ha')
      · exact ih h.2 ha' hb'

/-- the pending request is handed out: it gets its number, the book lists its span -/
theorem I18.yield {rr sp X nf inb} {r : Nat} (v : Nat) (h : I18 rr sp X nf inb (some r)) (x0 : XT) (hx0 : x0 ∈ X)
    (hr0 : x0.rid = r) :
    I18 rr (sp ++ [x0.trace.span]) (X.map (fun x => if x.rid == r then { x with vis := some v } else x)) nf inb none := by
  have hspan : (X.map (fun x => if x.rid == r then { x with vis := some v } else x)).map (·.trace.span) =
      X.map (·.trace.span) := by
    rw [List.map_map]
    apply List.map_congr_left
    intro x _
    simp only [Function.comp]
    split <;> rfl
  have hmem : ∀ x' ∈ X.map (fun x => if x.rid == r then { x with vis := some v } else x),
      ∃ x ∈ X, x' = (if x.rid == r then { x with vis := some v } else x) := by
    intro x' hx'; obtain ⟨x, hx, rfl⟩ := List.mem_map.mp hx'; exact ⟨x, hx, rfl⟩
  refine ⟨by rw [hspan]; exact h.nd, ?_, h.inb, ?_, (fun r' hr' => by cases hr'), ?_⟩
  · intro x' hx'
    obtain ⟨x, hx, rfl⟩ := hmem x' hx'
    obtain ⟨k, hk, hlt⟩ := h.fr x hx
    refine ⟨k, ?_, hlt⟩
    split <;> exact hk
  · intro s hs
    simp only [List.mem_append, List.mem_singleton] at hs
    rcases hs with hs | rfl
    · obtain ⟨x, hx, h1, h2⟩ := h.bk s hs
      refine ⟨_, List.mem_map_of_mem (f := fun x => if x.rid == r then { x with vis := some v } else x) hx, ?_, ?_⟩
      · split
        · rfl
        · exact h1
      · split <;> exact h2
    · refine ⟨_, List.mem_map_of_mem (f := fun x => if x.rid == r then { x with vis := some v } else x) hx0, ?_, ?_⟩
      · rw [if_pos (by simpa using hr0)]; rfl
      · split <;> rfl
  · intro x' hx'
    obtain ⟨x, hx, rfl⟩ := hmem x' hx'
    rw [List.length_map]
    have := h.ridLt x hx
    split <;> exact this

/-- what the check looks at, for the pending request -/
theorem I18.check {rr sp X nf inb} {r : Nat} (h : I18 rr sp X nf inb (some r)) (x0 : XT) (hx0 : x0 ∈ X) (hr0 : x0.rid = r) :
    Match rr x0 ∧ (∃ k, x0.trace.span = .fresh k) ∧ x0.trace.span ∉ sp := by
  obtain ⟨hv, hm⟩ := h.pd r rfl x0 hx0 hr0
  obtain ⟨k, hk, _⟩ := h.fr x0 hx0
  refine ⟨hm, ⟨k, hk⟩, fun hin => ?_⟩
  obtain ⟨x, hx, h1, h2⟩ := h.bk _ hin
  have : x = x0 := inj_of_nodup_map (·.trace.span) h.nd hx hx0 h2
  rw [this, hv] at h1
  cases h1

/-! ## the walk through one poll -/

theorem pollNext_sub (t : SimT) :
    (∀ x ∈ t.pollNext.1.inbound, x ∈ t.inbound) ∧ ∀ m, t.pollNext.2 = .item m → Inb.msg m ∈ t.inbound := by
  rcases SimT.pollNext_cases t with ⟨_, he⟩ | ⟨_, u, _, hi, he⟩
  · rw [he]; exact ⟨fun x hx => hx, fun m hm => by cases hm⟩
  · rw [he, ← hi]
    cases hq : u.inbound with
    | nil => simp only; split <;> exact ⟨fun x hx => by simpa [hq] using hx, fun m hm => by cases hm⟩
    | cons a rest =>
      cases a with
      | msg m0 =>
        refine ⟨fun x hx => List.mem_cons_of_mem _ hx, fun m hm => ?_⟩
        simp only at hm
        cases hm
        exact List.mem_cons_self ..
      | err => exact ⟨fun x hx => List.mem_cons_of_mem _ hx, fun m hm => by cases hm⟩

theorem tNext_frame18 (s : St) :
    (tNext s).1.execs = s.execs ∧ (tNext s).1.nextFresh = s.nextFresh ∧
    (∀ x ∈ (tNext s).1.t.inbound, x ∈ s.t.inbound) ∧ ∀ m, (tNext s).2 = .item m → Inb.msg m ∈ s.t.inbound := by
  refine ⟨by simp, ?_, ?_, ?_⟩
  · unfold tNext; split
    · rfl
    · simp only; split <;> rfl
  · rw [tNext_t]; split
    · exact fun x hx => hx
    · exact (pollNext_sub s.t).1
  · rw [tNext_res]; split
    · intro m hm; cases hm
    · exact (pollNext_sub s.t).2

theorem step_req_rr (b : Book) (ep : TaskId) (id d : Nat) (tr : Trace) (body : Nat) :
    (b.step (.obs (.tNext ep (.item (.request id d tr body))))).reqReads = b.reqReads ++ [(id, d, tr, body)] ∧
    bspans (b.step (.obs (.tNext ep (.item (.request id d tr body))))) = bspans b := by
  rw [step_tNext_eq]
  obtain ⟨p1, p2⟩ := preRead_rr b
  refine ⟨?_, p2⟩
  show (preRead b).reqReads ++ _ = _
  rw [p1]

theorem j18_tNext {b0 : Book} {s : St} (h : J18 b0 none s) :
    J18 b0 none (tNext s).1 ∧
    ∀ id d tr body, (tNext s).2 = .item (.request id d tr body) →
      (∃ n, tr.span = .given n) ∧ ∃ rr0, (bo b0 (tNext s).1.obs).reqReads = rr0 ++ [(id, d, tr, body)] := by
  obtain ⟨f1, f2, f3, f4⟩ := tNext_frame18 s
  by_cases hf : s.readFused = true
  · rw [tNext_fused_eq s hf]
    exact ⟨h, fun id d tr body hr => by cases hr⟩
  · have hf' : s.readFused = false := by simpa using hf
    have hobs := tNext_obs s hf'
    have hgiven : ∀ id d tr body, (tNext s).2 = .item (.request id d tr body) → ∃ n, tr.span = .given n := by
      intro id d tr body hr
      exact h.inb _ (f4 _ hr)
    have hbase : I18 (bo b0 s.obs).reqReads (bspans (bo b0 s.obs)) ((tNext s).1.execs.map xt) (tNext s).1.nextFresh
        (tNext s).1.t.inbound none := by
      rw [f1, f2]; exact I18.sub h f3
    unfold J18
    rw [hobs, bo_cons]
    by_cases hreq : ∃ id d tr body, (tNext s).2 = .item (.request id d tr body)
    · obtain ⟨id, d, tr, body, hr⟩ := hreq
      rw [hr]
      obtain ⟨e1, e2⟩ := step_req_rr (bo b0 s.obs) (tid s) id d tr body
      refine ⟨?_, fun id' d' tr' body' hr' => ?_⟩
      · rw [e1, e2]
        exact hbase.rr_none
      · cases hr'
        exact ⟨hgiven _ _ _ _ hr, _, e1⟩
    · have hnc : isCore18 (.tNext (tid s) (tNext s).2) = false := by
        cases hres : (tNext s).2 with
        | item m =>
          cases m with
          | request id d tr body => exact absurd ⟨id, d, tr, body, hres⟩ hreq
          | _ => rfl
        | _ => rfl
      obtain ⟨e1, e2⟩ := step18 (bo b0 s.obs) _ hnc
      refine ⟨?_, fun id d tr body hr => absurd ⟨id, d, tr, body, hr⟩ hreq⟩
      rw [e1, e2]; exact hbase

theorem wakeServer_nextFresh (s : St) : (wakeServer s).nextFresh = s.nextFresh := by
  unfold wakeServer; split <;> rfl

/-- the effect of `start_request` on what C18 looks at -/
theorem startRequest_eff18 (s : St) (now id d : Nat) (tr : Trace) (body : Nat) :
    ((startRequest s now id d tr body).2 = none ∧ Q18 s (startRequest s now id d tr body).1) ∨
    (∃ ex, (startRequest s now id d tr body).2 = some ex ∧ ex.rid = s.execs.length ∧
      Ext18 s (startRequest s now id d tr body).1 ∧
      (startRequest s now id d tr body).1.execs.map xt =
        s.execs.map xt ++ [⟨s.execs.length, id, d, { tr with span := .fresh s.nextFresh }, none⟩] ∧
      (startRequest s now id d tr body).1.nextFresh = s.nextFresh + 1 ∧
      (startRequest s now id d tr body).1.t = s.t) := by
  unfold startRequest
  split
  · exact Or.inl ⟨rfl, Q18.refl s⟩
  · split
    · exact Or.inl ⟨rfl, (Q18.emit _ _ rfl).pre rfl rfl rfl rfl⟩
    · next q key woke hq =>
      right
      simp only
      cases woke
      · exact ⟨_, rfl, rfl, Ext18.of_eq rfl, by simp [xt], rfl, rfl⟩
      · simp only [if_true]
        refine ⟨_, rfl, by simp, (q18_wakeServer s).1.trans (Ext18.of_eq rfl), by simp [xt, wakeServer_nextFresh],
          by simp [wakeServer_nextFresh], by simp⟩

theorem j18_startRequest {b0 : Book} {s : St} (now id d : Nat) (tr : Trace) (body : Nat) (h : J18 b0 none s)
    (hg : ∃ n, tr.span = .given n) (hrr : ∃ rr0, (bo b0 s.obs).reqReads = rr0 ++ [(id, d, tr, body)]) :
    match (startRequest s now id d tr body).2 with
    | some ex => J18 b0 (some ex.rid) (startRequest s now id d tr body).1
    | none => J18 b0 none (startRequest s now id d tr body).1 := by
  rcases startRequest_eff18 s now id d tr body with ⟨h1, h2⟩ | ⟨ex, h1, hr, hx, he, hn, ht⟩
  · rw [h1]; exact j18_q h2 h
  · rw [h1]
    simp only
    obtain ⟨rr0, hrr0⟩ := hrr
    obtain ⟨e1, e2⟩ := bo_ext18 b0 hx
    unfold J18 at h ⊢
    rw [e1, e2, he, hn, ht, hr, hrr0]
    rw [hrr0] at h
    have := I18.start id d tr body h hg
    rw [List.length_map] at this
    exact this

theorem q18_bpOther (s : St) (nx : NextRes) : Q18 s (bpOther s nx).1 := by
  unfold bpOther; split
  · exact q18_cancelRequest _ _
  all_goals exact Q18.refl s

def PostRdO18 (b0 : Book) : St × Option (SPoll Exec) → Prop
  | (s', some (.some ex)) => J18 b0 (some ex.rid) s'
  | (s', _) => J18 b0 none s'

def PostRd18 (b0 : Book) : St × SPoll Exec → Prop
  | (s', .some ex) => J18 b0 (some ex.rid) s'
  | (s', _) => J18 b0 none s'

theorem j18_bpStep {b0 : Book} {now : Nat} {s : St} (h : J18 b0 none s) : PostRdO18 b0 (bpStep s now) := by
  have h2 : J18 b0 none (bp2 s now) := j18_q ((q18_bpCancel s).trans (q18_pollExpired _ now)) h
  obtain ⟨h3, hreq⟩ := j18_tNext h2
  have ho := bpStep_out s now
  generalize bpStep s now = out at ho ⊢
  cases ho with
  | poisoned2 hp => exact h2
  | readErr hp hn => exact h3
  | started id d tr b ex hp hn hs' =>
    obtain ⟨hg, hrr⟩ := hreq id d tr b hn
    have := j18_startRequest now id d tr b h3 hg hrr
    rw [show (tNext (bp2 s now)).1 = bp3 s now from rfl, hs'] at this
    exact this
  | startPanic id d tr b hp hn hs' hpo =>
    obtain ⟨hg, hrr⟩ := hreq id d tr b hn
    have := j18_startRequest now id d tr b h3 hg hrr
    rw [show (tNext (bp2 s now)).1 = bp3 s now from rfl, hs'] at this
    exact this
  | duplicate id d tr b hp hn hs' hpo =>
    obtain ⟨hg, hrr⟩ := hreq id d tr b hn
    have := j18_startRequest now id d tr b h3 hg hrr
    rw [show (tNext (bp2 s now)).1 = bp3 s now from rfl, hs'] at this
    exact this
  | otherPoisoned hp hn1 hn2 hpo => exact j18_q (q18_bpOther _ _) h3
  | again hp hn1 hn2 hpo hc => exact j18_q (q18_bpOther _ _) h3
  | closed hp hn1 hn2 hpo hc => exact j18_q (q18_bpOther _ _) h3
  | pending hp hn1 hn2 hpo hc => exact j18_q (q18_bpOther _ _) h3

theorem j18_basePollNext {b0 : Book} {now : Nat} : ∀ (fuel : Nat) (s : St), J18 b0 none s →
    PostRd18 b0 (basePollNext fuel s now) := by
  intro fuel
  induction fuel with
  | zero => intro s h; exact j18_q (Q18.emit s _ rfl) h
  | succ n ih =>
    intro s h
    rw [basePollNext_succ]
    have hb := j18_bpStep (now := now) h
    revert hb
    generalize bpStep s now = p
    obtain ⟨s', r⟩ := p
    intro hb
    cases r with
    | none => exact ih s' hb
    | some r => cases r <;> exact hb

theorem PostRd18.weaken {b0 : Book} {s : St} {r : SPoll Exec} (h : PostRd18 b0 (s, r)) : J18 b0 none s := by
  cases r with
  | some ex => exact j18_weaken h
  | _ => exact h

theorem j18_limitedLegacy {b0 : Book} (limit now : Nat) : ∀ (fuel : Nat) (s : St), J18 b0 none s →
    PostRd18 b0 (limitedPollNextLegacy limit fuel s now) := by
  intro fuel
  induction fuel with
  | zero => intro s h; exact j18_q (Q18.emit s _ rfl) h
  | succ n ih =>
    intro s h
    unfold limitedPollNextLegacy
    split
    · have ht := j18_q (q18_tReady s) h
      split
      · next s1 heq => rw [heq] at ht; exact ht
      · next s1 heq => rw [heq] at ht; exact ht
      · next s1 heq =>
        rw [heq] at ht
        have hb := j18_basePollNext (now := now) (baseFuel s1) s1 ht
        split
        · next s2 ex heq2 =>
          rw [heq2] at hb
          have hsend := j18_q (q18_baseStartSend s2 ex.id (.err throttleKindIdx)) hb.weaken
          split
          · next s3 heq3 => rw [heq3] at hsend; exact hsend
          · next s3 r hne heq3 =>
            rw [heq3] at hsend
            exact ih _ (j18_q (q18_updExec _ _ _ (fun e => rfl)) hsend)
        · next r hne => exact hb
    · exact j18_basePollNext _ s h

theorem j18_limitedFixed {b0 : Book} (limit now : Nat) : ∀ (fuel : Nat) (s : St), J18 b0 none s →
    PostRd18 b0 (limitedPollNextFixed limit fuel s now) := by
  intro fuel
  induction fuel with
  | zero => intro s h; exact j18_q (Q18.emit s _ rfl) h
  | succ n ih =>
    intro s h
    rw [limitedPollNextFixed_succ]
    have hpre : J18 b0 none (fixedPre limit s).1 := by
      unfold fixedPre
      split
      · have ht := j18_q (q18_tReady s) h
        split <;> (rename_i heq; rw [heq] at ht; exact ht)
      · exact h
    split
    · next s1 r heq =>
      rw [heq] at hpre
      have hr : ∀ ex, r ≠ .some ex := by
        intro ex hex
        subst hex
        unfold fixedPre at heq
        split at heq
        · split at heq <;> cases heq
        · cases heq
      cases r with
      | some ex => exact absurd rfl (hr ex)
      | _ => exact hpre
    · next s1 heq =>
      rw [heq] at hpre
      have hb := j18_basePollNext (now := now) (baseFuel s1) s1 hpre
      split
      · next s2 ex heq2 =>
        rw [heq2] at hb
        split
        · have hsend := j18_q (q18_baseStartSend s2 ex.id (.err throttleKindIdx)) hb.weaken
          split
          · next s3 heq3 => rw [heq3] at hsend; exact hsend
          · next s3 r hne heq3 =>
            rw [heq3] at hsend
            exact ih _ (j18_q (q18_updExec _ _ _ (fun e => rfl)) hsend)
        · exact hb
      · exact hb

theorem j18_channelPollNext {b0 : Book} {now : Nat} {s : St} (h : J18 b0 none s) :
    PostRd18 b0 (channelPollNext s now) := by
  unfold channelPollNext
  split
  · exact j18_basePollNext _ s h
  · split
    · exact j18_limitedFixed _ now _ s h
    · exact j18_limitedLegacy _ now _ s h

/-- postcondition of `Requests::poll_next`: an item is a pending request -/
def PostRq18 (b0 : Book) : St × ReqPoll → Prop
  | (s', .item rid) => J18 b0 (some rid) s'
  | (s', _) => J18 b0 none s'

theorem j18_requestsPollNext {b0 : Book} {now : Nat} : ∀ (fuel : Nat) (s : St), J18 b0 none s →
    PostRq18 b0 (requestsPollNext fuel s now) := by
  intro fuel
  induction fuel with
  | zero => intro s h; exact j18_q (Q18.emit s _ rfl) h
  | succ n ih =>
    intro s h
    rw [requestsPollNext_succ]
    have hch := j18_channelPollNext (now := now) h
    split
    · next s1 a heq => rw [heq] at hch; exact hch
    · next s1 heq => rw [heq] at hch; exact hch
    · next s1 read hne1 hne2 heq =>
      rw [heq] at hch
      have hq : Q18 s1 (pumpWrite (armRead s1 read) (readClosedOf read)).1 :=
        (q18_armRead s1 read).trans (q18_pumpWrite _ _)
      cases read with
      | some ex =>
        have hp : J18 b0 (some ex.rid) (pumpWrite (armRead s1 (.some ex)) (readClosedOf (.some ex))).1 := j18_q hq hch
        split
        · next s3 a heq3 =>
          rw [heq3] at hp
          exact j18_q (q18_dropOffered _ _ _) (j18_weaken hp)
        · next s3 heq3 => rw [heq3] at hp; exact j18_weaken hp
        · next s3 write hne3 hne4 heq3 =>
          rw [heq3] at hp
          split
          case h_2 exq heq' => cases heq'; exact hp
          case h_3 hx => exact (hx ex rfl).elim
          case h_4 _ hx _ => exact (hx ex rfl).elim
          all_goals (rename_i h; cases h)
      | err a => exact absurd rfl (hne1 a)
      | spin => exact absurd rfl hne2
      | pending =>
        have hp : J18 b0 none (pumpWrite (armRead s1 .pending) (readClosedOf .pending)).1 := j18_q hq hch
        split
        · next s3 a heq3 => rw [heq3] at hp; exact hp
        · next s3 heq3 => rw [heq3] at hp; exact hp
        · next s3 write hne3 hne4 heq3 =>
          rw [heq3] at hp
          split
          · exact hp
          · next h => cases h
          · exact ih s3 hp
          · exact hp
      | none =>
        have hp : J18 b0 none (pumpWrite (armRead s1 .none) (readClosedOf .none)).1 := j18_q hq hch
        split
        · next s3 a heq3 => rw [heq3] at hp; exact hp
        · next s3 heq3 => rw [heq3] at hp; exact hp
        · next s3 write hne3 hne4 heq3 =>
          rw [heq3] at hp
          split
          · exact hp
          · next h => cases h
          · exact ih s3 hp
          · exact hp

/-! ## the end of a poll: the request is handed out -/

/-- a `yielded` observation -/
def isY : Obs → Bool
  | .yielded _ _ _ _ => true
  | _ => false

theorem isY_pollQuiet : PollQuiet isY :=
  ⟨fun _ _ => rfl, fun _ _ _ => rfl, fun _ _ => rfl, fun _ _ => rfl, fun _ _ => rfl, fun _ => rfl, fun _ => rfl, fun _ _ => rfl⟩

theorem isY_execQuiet : ExecQuiet isY := ⟨⟨⟨fun _ => rfl, rfl, fun _ _ => rfl⟩, fun _ _ => rfl⟩, fun _ _ _ => rfl⟩

theorem noY_of_filter {l : List Obs} (h : l.filter isY = []) : ∀ o ∈ l, isY o = false := by
  intro o ho
  have := List.filter_eq_nil_iff.mp h o ho
  simpa using this

/-- what the check needs at a `yielded` observation, on the book at that point -/
def YOK (b : Book) (x : XT) : Prop :=
  Match b.reqReads x ∧ (∃ k, x.trace.span = .fresh k) ∧ x.trace.span ∉ bspans b

theorem check18_ok (b : Book) (v : Nat) (x : XT) (h : YOK b x) :
    (checkC18 b () (.obs (.yielded v x.id x.deadline x.trace))).2 = none := by
  obtain ⟨⟨tr', body, hf, h1, h2, n, hn⟩, ⟨k, hk⟩, hnot⟩ := h
  simp only [checkC18, hf]
  have hany : (b.execs.any fun e => e.trace.span == x.trace.span) = false := by
    rw [List.any_eq_false]
    intro e he heq
    exact hnot (by
      unfold bspans
      rw [← (by simpa using heq : e.trace.span = x.trace.span)]
      exact List.mem_map_of_mem he)
  simp [h1, h2, hk, hn]
  rw [hk] at hany
  have hex : ¬ ∃ x, x ∈ b.execs ∧ x.trace.span = Span.fresh k := by
    rintro ⟨e, he, hs⟩
    have := List.any_eq_false.mp hany e he
    simp [hs] at this
  rw [if_neg hex]

theorem check18_other (b : Book) (e : SEv) (h : ∀ v id d tr, e ≠ .obs (.yielded v id d tr)) :
    (checkC18 b () e).2 = none := by
  unfold checkC18
  split
  · next r id d tr => exact absurd rfl (h r id d tr)
  · rfl

theorem step_yielded18 (b : Book) (r id d : Nat) (tr : Trace) :
    (b.step (.obs (.yielded r id d tr))).reqReads = b.reqReads ∧
    bspans (b.step (.obs (.yielded r id d tr))) = bspans b ++ [tr.span] := by
  refine ⟨rfl, ?_⟩
  simp [bspans, Book.step]

/-- the pending request is handed out -/
theorem j18_yield {b0 : Book} {s : St} {rid : Nat} {e : Exec} (hg : getExec s rid = some e) (h : J18 b0 (some rid) s) :
    YOK (bo b0 s.obs) (xt e) ∧
    J18 b0 none (emit (updExec { s with nextVis := s.nextVis + 1 } rid (fun x => { x with vis := some s.nextVis }))
      (.yielded s.nextVis e.id e.deadline e.trace)) := by
  obtain ⟨hem, her⟩ := getExec_mem hg
  have hx0 : xt e ∈ s.execs.map xt := List.mem_map_of_mem hem
  refine ⟨I18.check h (xt e) hx0 her, ?_⟩
  unfold J18
  have e1 : (emit (updExec { s with nextVis := s.nextVis + 1 } rid (fun x => { x with vis := some s.nextVis }))
      (.yielded s.nextVis e.id e.deadline e.trace)).obs = .yielded s.nextVis e.id e.deadline e.trace :: s.obs := rfl
  rw [e1, bo_cons]
  obtain ⟨r1, r2⟩ := step_yielded18 (bo b0 s.obs) s.nextVis e.id e.deadline e.trace
  rw [r1, r2]
  have := I18.yield s.nextVis h (xt e) hx0 her
  have hex : (emit (updExec { s with nextVis := s.nextVis + 1 } rid (fun x => { x with vis := some s.nextVis }))
      (.yielded s.nextVis e.id e.deadline e.trace)).execs.map xt =
      (s.execs.map xt).map (fun x => if x.rid == rid then { x with vis := some s.nextVis } else x) := by
    show (List.map (fun e' => if e'.rid == rid then { e' with vis := some s.nextVis } else e') s.execs).map xt = _
    rw [List.map_map, List.map_map]
    apply List.map_congr_left
    intro e' _
    simp only [Function.comp]
    have hxr : (xt e').rid = e'.rid := rfl
    by_cases hc : (e'.rid == rid) = true
    · rw [if_pos hc, if_pos (by rw [hxr]; exact hc)]; rfl
    · rw [if_neg hc, if_neg (by rw [hxr]; exact hc)]
  rw [hex]
  exact this

/-- what one op's observations look like, for the C18 check -/
def ObsOK (b1 : Book) (obs : List Obs) : Prop :=
  (∀ o ∈ obs, isY o = false) ∨
  ∃ post pre v x, obs = post ++ .yielded v x.id x.deadline x.trace :: pre ∧ (∀ o ∈ post, isY o = false) ∧
    (∀ o ∈ pre, isY o = false) ∧ YOK (bo b1 pre) x

theorem j18_pskFinish {b0 : Book} {s : St} {r : ReqPoll} (hs : ∀ o ∈ s.obs, isY o = false) (h : PostRq18 b0 (s, r)) :
    J18 b0 none (pskFinish s r) ∧ ObsOK b0 (pskFinish s r).obs := by
  have hfin : ∀ (s1 : St) (rt : Ret), J18 b0 none s1 →
      J18 b0 none (emit (emit s1 (.ret (tid s1) rt)) (.counts (tid s1) s1.inflight.length s1.timers.len)) :=
    fun s1 rt h1 => j18_q ((Q18.emit _ _ rfl).trans (Q18.emit _ _ rfl)) h1
  have hno : ∀ (s1 : St) (rt : Ret), (∀ o ∈ s1.obs, isY o = false) →
      ∀ o ∈ (emit (emit s1 (.ret (tid s1) rt)) (.counts (tid s1) s1.inflight.length s1.timers.len)).obs, isY o = false := by
    intro s1 rt h1 o ho
    simp only [emit_obs, List.mem_cons] at ho
    rcases ho with rfl | rfl | ho
    · rfl
    · rfl
    · exact h1 o ho
  cases r with
  | pending => exact ⟨hfin s .pending h, Or.inl (hno s _ hs)⟩
  | spin => exact ⟨hfin s .pending h, Or.inl (hno s _ hs)⟩
  | none => exact ⟨hfin { s with done := some .readyNone } .readyNone (j18_q (Q18.of_eq rfl rfl rfl rfl) h),
      Or.inl (hno { s with done := some .readyNone } _ hs)⟩
  | err a => exact ⟨hfin { s with done := some (.readyItemErr a) } _ (j18_q (Q18.of_eq rfl rfl rfl rfl) h),
      Or.inl (hno { s with done := some (.readyItemErr a) } _ hs)⟩
  | item rid =>
    simp only [pskFinish, pskRet]
    split
    · next e he =>
      obtain ⟨hy, hj⟩ := j18_yield he h
      refine ⟨hfin _ .readyItem hj, Or.inr ⟨[.counts _ _ _, .ret _ _], s.obs, s.nextVis, xt e, rfl, ?_, hs, hy⟩⟩
      intro o ho
      simp only [List.mem_cons, List.mem_singleton, List.not_mem_nil, or_false] at ho
      rcases ho with rfl | rfl <;> rfl
    · exact ⟨hfin s .readyItem (j18_weaken h), Or.inl (hno s _ hs)⟩

theorem ObsOK.ext {b1 : Book} {obs : List Obs} (h : ObsOK b1 obs) (l : List Obs) (hl : ∀ o ∈ l, isY o = false) :
    ObsOK b1 (l ++ obs) := by
  rcases h with h | ⟨post, pre, v, x, he, h1, h2, h3⟩
  · exact Or.inl (fun o ho => (List.mem_append.mp ho).elim (hl o) (h o))
  · refine Or.inr ⟨l ++ post, pre, v, x, by rw [he, List.append_assoc], ?_, h2, h3⟩
    intro o ho
    exact (List.mem_append.mp ho).elim (hl o) (h1 o)

theorem j18_pollServerKeep {b0 : Book} {now : Nat} {s : St} (h0 : s.obs = []) (h : J18 b0 none s)
    (hcfg : s.throttleAfterRead = false) (hel : s.ensureLoop = false) :
    J18 b0 none (pollServerKeep s now) ∧ ObsOK b0 (pollServerKeep s now).obs := by
  rw [pollServerKeep_eq]
  split
  · refine ⟨j18_q (Q18.emit s _ rfl) h, Or.inl ?_⟩
    intro o ho
    rw [emit_obs, h0] at ho
    simp only [List.mem_singleton] at ho
    rw [ho]; rfl
  · have hns : NS s := by unfold NS; rw [h0]; rfl
    have h1 := NS_requestsPollNext now (pollFuel { s with woken := false }) { s with woken := false }
      (by unfold pollFuel; simp only; omega) (NS_of_obs hns rfl) hcfg hel
    have hp := j18_requestsPollNext (now := now) (pollFuel { s with woken := false }) { s with woken := false }
      (j18_q (Q18.of_eq rfl rfl rfl rfl) h)
    have hflt := flt_requestsPollNext isY_pollQuiet now (pollFuel { s with woken := false }) { s with woken := false }
    revert h1 hp hflt
    generalize requestsPollNext (pollFuel { s with woken := false }) { s with woken := false } now = p
    obtain ⟨s1, r⟩ := p
    intro h1 hp hflt
    have hnoY : ∀ o ∈ s1.obs, isY o = false := by
      apply noY_of_filter
      unfold Flt at hflt
      simp only at hflt
      rw [hflt, h0]; rfl
    simp only
    split
    · next hsp =>
      unfold NS at hns h1
      simp only at h1
      simp [hns, h1] at hsp
    · split
      · refine ⟨?_, Or.inl hnoY⟩
        cases r <;> first | exact hp | exact j18_weaken hp
      · exact j18_pskFinish hnoY hp

/-! ## the other ops -/

theorem q18_foldl_abort (es : List SEntry) (s : St) : Q18 s (es.foldl (fun s e => abortExec s e.rid) s) := by
  induction es generalizing s with
  | nil => exact Q18.refl s
  | cons e es ih => exact (q18_abortExec s e.rid).trans (ih _)

theorem q18_foldl_wake (ws : List Nat) (s : St) : Q18 s (ws.foldl wakeExec s) := by
  induction ws generalizing s with
  | nil => exact Q18.refl s
  | cons w ws ih => exact (q18_wakeExec s w).trans (ih _)

theorem q18_dropServer (s : St) : Q18 s (dropServer s) := by
  unfold dropServer
  split
  · exact Q18.emit s _ rfl
  · simp only
    have h1 : Q18 s (s.inflight.foldl (fun s e => abortExec s e.rid) { s with dropped := true, woken := false }) :=
      (q18_foldl_abort _ _).pre rfl rfl rfl rfl
    generalize (s.inflight.foldl (fun s e => abortExec s e.rid) { s with dropped := true, woken := false }) = s1 at h1 ⊢
    have h2 : Q18 s1 (s1.rqWaiters.foldl wakeExec { s1 with rqWaiters := [] }) := (q18_foldl_wake _ _).pre rfl rfl rfl rfl
    generalize (s1.rqWaiters.foldl wakeExec { s1 with rqWaiters := [] }) = s2 at h2 ⊢
    exact (h1.trans h2).trans (Q18.of_eq rfl rfl rfl rfl)

macro "q18_upd" : tactic => `(tactic| (refine q18_updExec _ _ _ ?_; exact fun e => rfl))

theorem q18_guardDrop (s : St) (e : Exec) : Q18 s (guardDrop s e) := by
  unfold guardDrop; split
  · simp only; split
    · exact (q18_wakeServer _).pre rfl rfl rfl rfl
    · exact Q18.of_eq rfl rfl rfl rfl
  · exact Q18.refl s

theorem q18_queueAndFinish (s : St) (e : Exec) (res : Res) (n : Nat) : Q18 s (queueAndFinish s e res n) := by
  unfold queueAndFinish
  simp only
  refine Q18.trans ?_ (Q18.emit _ _ rfl)
  have h0 : Q18 s (if s.dropped = true then s else
      if s.rqRxWaker = true then wakeServer { s with respQ := s.respQ ++ [(e.id, res)], rqRxWaker := false }
      else { s with respQ := s.respQ ++ [(e.id, res)] }) := by
    split
    · exact Q18.refl s
    · split
      · exact (q18_wakeServer _).pre rfl rfl rfl rfl
      · exact Q18.of_eq rfl rfl rfl rfl
  refine h0.trans ?_
  q18_upd

theorem q18_trySend (s : St) (e : Exec) (res : Res) (n : Nat) : Q18 s (trySend s e res n) := by
  unfold trySend
  split
  · exact q18_queueAndFinish s e res n
  · split
    · exact (q18_queueAndFinish _ e res n).pre rfl rfl rfl rfl
    · split
      · refine Q18.trans ?_ (Q18.emit _ _ rfl)
        q18_upd
      · split
        · exact (q18_queueAndFinish _ e res n).pre rfl rfl rfl rfl
        · refine Q18.trans ?_ (Q18.emit _ _ rfl)
          refine Q18.pre (s0 := { s with rqWaiters := s.rqWaiters ++ [e.rid] }) ?_ rfl rfl rfl rfl
          q18_upd

theorem q18_pollExec (s : St) (vid n : Nat) : Q18 s (pollExec s vid n) := by
  unfold pollExec
  split
  · exact Q18.emit _ _ rfl
  · next e hg =>
    simp only
    split
    · exact Q18.emit _ _ rfl
    · have h0 : Q18 s (updExec s e.rid (fun x => { x with woken := false })) := by q18_upd
      refine h0.trans ?_
      generalize updExec s e.rid (fun x => { x with woken := false }) = s0
      split
      · refine Q18.trans ?_ (Q18.emit _ _ rfl)
        refine Q18.trans ?_ (by q18_upd)
        split
        · split
          · exact (q18_rqRelease _).pre rfl rfl rfl rfl
          · exact Q18.of_eq rfl rfl rfl rfl
        · split
          · exact Q18.refl _
          · exact Q18.emit _ _ rfl
      · split
        · split
          · exact q18_trySend _ _ _ _
          · exact Q18.emit _ _ rfl
        · have h1 : Q18 s0 (emit (updExec s0 e.rid (fun x => { x with phase := .running })) (.handler vid .polled n)) := by
            refine Q18.trans ?_ (Q18.emit _ _ rfl)
            q18_upd
          refine h1.trans ?_
          generalize emit (updExec s0 e.rid (fun x => { x with phase := .running })) (.handler vid .polled n) = s1
          split
          · refine Q18.trans ?_ (q18_trySend _ { e with hDone := true, phase := .running } _ _)
            refine Q18.trans (b := emit s1 (.handler vid .completed n)) (Q18.emit _ _ rfl) ?_
            q18_upd
          · refine Q18.trans ?_ (Q18.emit _ _ rfl)
            q18_upd

theorem q18_dropExec (s : St) (vid n : Nat) : Q18 s (dropExec s vid n) := by
  unfold dropExec
  split
  · exact Q18.emit _ _ rfl
  · next e hg =>
    simp only
    split
    · exact Q18.emit _ _ rfl
    · refine Q18.trans ?_ (q18_guardDrop _ _)
      refine Q18.trans ?_ (by q18_upd)
      split
      · split
        · exact Q18.refl _
        · exact Q18.emit _ _ rfl
      · split
        · exact (q18_rqRelease _).pre rfl rfl rfl rfl
        · exact Q18.of_eq rfl rfl rfl rfl
      · exact Q18.refl _

theorem q18_finishHandler (s : St) (vid : Nat) (res : Res) : Q18 s (finishHandler s vid res) := by
  unfold finishHandler
  split
  · exact Q18.emit _ _ rfl
  · simp only
    split
    · exact Q18.emit _ _ rfl
    · have h0 : Q18 s (updExec s ‹Exec›.rid (fun x => { x with finishCmd := some res })) := by q18_upd
      split
      · exact h0.trans (q18_wakeExec _ _)
      · exact h0

/-- a transport event from outside: the inbound queue may grow by messages with `given` spans -/
theorem j18_liftT {b0 : Book} {pend : Option Nat} {s : St} (r : SimT × Bool)
    (hin : ∀ m ∈ r.1.inbound, m ∈ s.t.inbound ∨ GivenMsg m) (h : J18 b0 pend s) : J18 b0 pend (liftT s r) := by
  have hq : Q18 { s with t := r.1 } (liftT s r) := by
    unfold liftT; simp only; split
    · exact q18_wakeServer _
    · exact Q18.refl _
  refine j18_q hq ?_
  unfold J18 at h ⊢
  exact ⟨h.nd, h.fr, fun m hm => (hin m hm).elim (h.inb m) id, h.bk, h.pd, h.ridLt⟩

theorem q18_took (ms : List Msg) (s : St) : Q18 s (ms.foldl (fun s m => emit s (.took (tid s) m)) s) := by
  induction ms generalizing s with
  | nil => exact Q18.refl s
  | cons m ms ih => exact (Q18.emit s _ rfl).trans (ih _)

theorem q18_onAdvance (s : St) (n : Nat) : Q18 s (onAdvance s n) := by
  unfold onAdvance
  split
  · split
    · exact (q18_wakeServer _).pre rfl rfl rfl rfl
    · exact Q18.refl s
  · exact Q18.refl s

/-- the requests an op injects carry caller-chosen span ids -/
def GivenOp : SOp → Prop
  | .injectReq _ _ tr _ => ∃ n, tr.span = .given n
  | _ => True

theorem opBook_rr (b : Book) (op : SOp) : (opBook b op).reqReads = b.reqReads ∧ bspans (opBook b op) = bspans b := by
  have he : b.endOp.reqReads = b.reqReads ∧ bspans b.endOp = bspans b := by
    constructor
    · unfold Book.endOp; simp only []; (repeat' split) <;> rfl
    · unfold bspans
      cases hc : b.curDropExec with
      | none => rw [endOp_execs_none b hc]
      | some r =>
        rw [endOp_execs_some b r hc]
        exact updExec_spans b r _ (fun e => by split <;> rfl)
  unfold opBook
  have hn : ∀ b' : Book, (b'.noteFinish (.op op)).reqReads = b'.reqReads ∧ bspans (b'.noteFinish (.op op)) = bspans b' := by
    intro b'
    unfold Book.noteFinish
    split
    · exact ⟨rfl, updExec_spans _ _ _ (fun e => by split <;> rfl)⟩
    · exact ⟨rfl, rfl⟩
  rw [(hn _).1, (hn _).2]
  cases op <;> exact he

/-! ## one op, every trace -/

/-- the invariant between ops -/
def OI18 (b : Book) (c : Sys) : Prop :=
  I18 b.reqReads (bspans b) (c.s.execs.map xt) c.s.nextFresh c.s.t.inbound none ∧
  c.s.throttleAfterRead = false ∧ c.s.ensureLoop = false

theorem noY_of_q18 {s s' : St} (h0 : s.obs = []) (hq : Q18 s s') : ∀ o ∈ s'.obs, isY o = false := by
  obtain ⟨l, hl, hp⟩ := hq.1
  rw [hl, h0, List.append_nil]
  intro o ho
  have := hp o ho
  cases o <;> simp [isCore18, isY] at this ⊢

theorem op18 {b : Book} {c : Sys} (op : SOp) (h : OI18 b c) (hop : GivenOp op) :
    OI18 (bo (opBook b op) (applyOp { c with s := { c.s with obs := [] } } op).s.obs) (stepOp c op).1 ∧
    ObsOK (opBook b op) (applyOp { c with s := { c.s with obs := [] } } op).s.obs := by
  generalize hc0 : ({ c with s := { c.s with obs := [] } } : Sys) = c0
  have hobs0 : c0.s.obs = [] := by rw [← hc0]
  have hJ0 : J18 (opBook b op) none c0.s := by
    unfold J18
    rw [hobs0, bo_nil, (opBook_rr b op).1, (opBook_rr b op).2, ← hc0]
    exact h.1
  have hcfg0 : c0.s.throttleAfterRead = false ∧ c0.s.ensureLoop = false := by rw [← hc0]; exact ⟨h.2.1, h.2.2⟩
  have hcfgA := cfg_reach c0 [op]
  have hstep : (stepOp c op).1 = { applyOp c0 op with s := { (applyOp c0 op).s with obs := [] } } := by
    rw [← hc0]; rfl
  have hbase : J18 (opBook b op) none (applyOp c0 op).s →
      OI18 (bo (opBook b op) (applyOp c0 op).s.obs) (stepOp c op).1 := by
    intro hJ
    rw [hstep]
    exact ⟨hJ, hcfgA.2.2.2.trans hcfg0.1, hcfgA.2.2.1.trans hcfg0.2⟩
  have hq : ∀ (hq : Q18 c0.s (applyOp c0 op).s),
      OI18 (bo (opBook b op) (applyOp c0 op).s.obs) (stepOp c op).1 ∧ ObsOK (opBook b op) (applyOp c0 op).s.obs :=
    fun hq => ⟨hbase (j18_q hq hJ0), Or.inl (noY_of_q18 hobs0 hq)⟩
  have hlift : ∀ (r : SimT × Bool), (∀ m ∈ r.1.inbound, m ∈ c0.s.t.inbound ∨ GivenMsg m) →
      (applyOp c0 op).s = liftT c0.s r →
      OI18 (bo (opBook b op) (applyOp c0 op).s.obs) (stepOp c op).1 ∧ ObsOK (opBook b op) (applyOp c0 op).s.obs := by
    intro r hin he
    have hq' : Q18 { c0.s with t := r.1 } (liftT c0.s r) := by
      unfold liftT; simp only; split
      · exact q18_wakeServer _
      · exact Q18.refl _
    refine ⟨hbase (by rw [he]; exact j18_liftT r hin hJ0), Or.inl ?_⟩
    rw [he]
    exact noY_of_q18 (s := { c0.s with t := r.1 }) hobs0 hq'
  cases op with
  | pollServer =>
    obtain ⟨h1, h2⟩ := j18_pollServerKeep (now := c0.now) hobs0 hJ0 hcfg0.1 hcfg0.2
    show OI18 _ _ ∧ ObsOK _ (pollServer c0.s c0.now).obs
    have key : J18 (opBook b .pollServer) none (pollServer c0.s c0.now) ∧ ObsOK (opBook b .pollServer) (pollServer c0.s c0.now).obs := by
      unfold pollServer
      simp only
      split
      · obtain ⟨l, hl, hp⟩ := (q18_dropServer (pollServerKeep c0.s c0.now)).1
        refine ⟨j18_q (q18_dropServer _) h1, ?_⟩
        rw [hl]
        refine h2.ext l (fun o ho => ?_)
        have := hp o ho
        cases o <;> simp [isCore18, isY] at this ⊢
      · split
        · exact ⟨j18_q (Q18.of_eq rfl rfl rfl rfl) h1, h2⟩
        · exact ⟨h1, h2⟩
    exact ⟨hbase key.1, key.2⟩
  | dropServer => exact hq (q18_dropServer _)
  | pollExec r => exact hq (q18_pollExec _ _ _)
  | dropExec r => exact hq (q18_dropExec _ _ _)
  | finish r res => exact hq (q18_finishHandler _ _ _)
  | injectReq id d tr b' =>
    refine hlift (c0.s.t.inject (.msg (.request id d tr b'))) ?_ rfl
    intro m hm
    simp only [SimT.inject, List.mem_append, List.mem_singleton] at hm
    rcases hm with hm | rfl
    · exact Or.inl hm
    · exact Or.inr hop
  | injectCancel id tr =>
    refine hlift (c0.s.t.inject (.msg (.cancel id tr))) ?_ rfl
    intro m hm
    simp only [SimT.inject, List.mem_append, List.mem_singleton] at hm
    rcases hm with hm | rfl
    · exact Or.inl hm
    · exact Or.inr trivial
  | injectErr =>
    refine hlift (c0.s.t.inject .err) ?_ rfl
    intro m hm
    simp only [SimT.inject, List.mem_append, List.mem_singleton] at hm
    rcases hm with hm | rfl
    · exact Or.inl hm
    · exact Or.inr trivial
  | eof => exact hlift c0.s.t.setEof (fun m hm => Or.inl hm) rfl
  | setReady b' =>
    refine hlift (c0.s.t.setReady b') (fun m hm => Or.inl ?_) rfl
    simp only [SimT.setReady, SimT.wakeIfReady] at hm
    split at hm <;> exact hm
  | setFlush b' =>
    refine hlift (c0.s.t.setFlush b') (fun m hm => Or.inl ?_) rfl
    simp only [SimT.setFlush, SimT.wakeIfReady] at hm
    split at hm <;> exact hm
  | fault k =>
    refine hq ⟨Ext18.of_eq rfl, rfl, rfl, fun m hm => ?_⟩
    cases k <;> exact hm
  | faultSkip n => exact hq ⟨Ext18.of_eq rfl, rfl, rfl, fun m hm => hm⟩
  | selfWake b' => exact hq ⟨Ext18.of_eq rfl, rfl, rfl, fun m hm => hm⟩
  | take n =>
    refine hq ?_
    show Q18 c0.s (List.foldl (fun s m => emit s (.took (tid s) m)) { c0.s with t := (c0.s.t.take n).1 } (c0.s.t.take n).2)
    exact Q18.trans (b := { c0.s with t := (c0.s.t.take n).1 }) ⟨Ext18.of_eq rfl, rfl, rfl, fun m hm => hm⟩ (q18_took _ _)
  | advance n => exact hq (q18_onAdvance _ _)

/-- the C18 monitor over the observations of one op (oldest first) -/
def mobs18 (m : Mon Unit) (l : List Obs) : Mon Unit := l.foldl (fun m o => Mon.step checkC18 m (.obs o)) m

theorem mon18_step_book (m : Mon Unit) (e : SEv) : (Mon.step checkC18 m e).book = (m.book.step e).noteFinish e := by
  rw [FlowMon.mon_step_def]
  split
  · rw [FlowMon.fail_book]
  · rfl

theorem mon18_step_bad (m : Mon Unit) (e : SEv) (hb : m.bad = none)
    (hc : (checkC18 (FlowMon.bookOf m.book e) () e).2 = none) : (Mon.step checkC18 m e).bad = none := by
  rw [FlowMon.mon_step_def]
  have : (if (FlowMon.bookOf m.book e).spun then (m.st, none) else checkC18 (FlowMon.bookOf m.book e) m.st e).2 = none := by
    split
    · rfl
    · exact hc
  rw [this]; exact hb

theorem mobs18_book (l : List Obs) (m : Mon Unit) : (mobs18 m l).book = l.foldl (fun b o => b.step (.obs o)) m.book := by
  induction l generalizing m with
  | nil => rfl
  | cons o l ih =>
    simp only [mobs18, List.foldl_cons] at ih ⊢
    rw [ih, mon18_step_book]
    rfl

theorem mobs18_noY (l : List Obs) (m : Mon Unit) (hb : m.bad = none) (hl : ∀ o ∈ l, isY o = false) :
    (mobs18 m l).bad = none := by
  induction l generalizing m with
  | nil => exact hb
  | cons o l ih =>
    simp only [mobs18, List.foldl_cons]
    refine ih _ (mon18_step_bad m _ hb (check18_other _ _ (fun v id d tr he => ?_))) (fun o' ho' => hl o' (List.mem_cons_of_mem _ ho'))
    cases he
    have := hl _ (List.mem_cons_self ..)
    simp [isY] at this

theorem mobs18_append (m : Mon Unit) (l1 l2 : List Obs) : mobs18 m (l1 ++ l2) = mobs18 (mobs18 m l1) l2 := by
  simp [mobs18, List.foldl_append]

theorem mobs18_ok (obs : List Obs) (m : Mon Unit) (hb : m.bad = none) (h : ObsOK m.book obs) :
    (mobs18 m obs.reverse).bad = none := by
  rcases h with h | ⟨post, pre, v, x, he, h1, h2, h3⟩
  · exact mobs18_noY _ _ hb (fun o ho => h o (List.mem_reverse.mp ho))
  · rw [he, List.reverse_append, List.reverse_cons, List.append_assoc, mobs18_append, mobs18_append]
    have hb1 : (mobs18 m pre.reverse).bad = none := mobs18_noY _ _ hb (fun o ho => h2 o (List.mem_reverse.mp ho))
    have hbk : (mobs18 m pre.reverse).book = bo m.book pre := by rw [mobs18_book, bo_eq_foldl]
    have hb2 : (mobs18 (mobs18 m pre.reverse) [.yielded v x.id x.deadline x.trace]).bad = none := by
      simp only [mobs18, List.foldl_cons, List.foldl_nil]
      refine mon18_step_bad _ _ hb1 ?_
      show (checkC18 (mobs18 m pre.reverse).book () _).2 = none
      rw [hbk]
      exact check18_ok _ v x h3
    exact mobs18_noY _ _ hb2 (fun o ho => h1 o (List.mem_reverse.mp ho))

/-- all the requests a script injects carry caller-chosen span ids -/
def GivenOps (ops : List SOp) : Prop := ∀ op ∈ ops, GivenOp op

theorem c18_trace (ops : List SOp) : ∀ (c : Sys) (m : Mon Unit), m.bad = none → OI18 m.book c → GivenOps ops →
    ((trace c ops).foldl (Mon.step checkC18) m).bad = none := by
  induction ops with
  | nil => intro c m hb _ _; exact hb
  | cons op ops ih =>
    intro c m hb hI hg
    obtain ⟨hI', hchk⟩ := op18 op hI (hg op (List.mem_cons_self ..))
    have htr : trace c (op :: ops) = SEv.op op :: ((stepOp c op).2.map SEv.obs ++ trace (stepOp c op).1 ops) := rfl
    rw [htr, List.foldl_cons, List.foldl_append, List.foldl_map]
    have hb1 : (Mon.step checkC18 m (.op op)).bad = none :=
      mon18_step_bad m _ hb (check18_other _ _ (fun v id d tr h => by cases h))
    have hbk1 : (Mon.step checkC18 m (.op op)).book = opBook m.book op := mon18_step_book m _
    have hos : (stepOp c op).2 = (applyOp { c with s := { c.s with obs := [] } } op).s.obs.reverse := rfl
    rw [hos]
    have hm2 : (mobs18 (Mon.step checkC18 m (.op op)) (applyOp { c with s := { c.s with obs := [] } } op).s.obs.reverse).bad = none :=
      mobs18_ok _ _ hb1 (by rw [hbk1]; exact hchk)
    have hbk2 : (mobs18 (Mon.step checkC18 m (.op op)) (applyOp { c with s := { c.s with obs := [] } } op).s.obs.reverse).book =
        bo (opBook m.book op) (applyOp { c with s := { c.s with obs := [] } } op).s.obs := by
      rw [mobs18_book, hbk1, bo_eq_foldl]
    have hI2 : OI18 (mobs18 (Mon.step checkC18 m (.op op)) (applyOp { c with s := { c.s with obs := [] } } op).s.obs.reverse).book
        (stepOp c op).1 := by rw [hbk2]; exact hI'
    exact ih (stepOp c op).1 (mobs18 (Mon.step checkC18 m (.op op)) (applyOp { c with s := { c.s with obs := [] } } op).s.obs.reverse)
      hm2 hI2 (fun op' ho' => hg op' (List.mem_cons_of_mem _ ho'))

theorem oi18_init (limit : Option Nat) (respCap tcap : Nat) (coupled : Bool) :
    OI18 ({ limit := limit } : Book) (initSys limit respCap tcap coupled) := by
  refine ⟨⟨by simp [initSys, init], ?_, ?_, ?_, (fun r hr => by cases hr), ?_⟩, rfl, rfl⟩
  all_goals (intro x hx; simp [initSys, init, bspans] at hx)

/-- **The C18 monitor never fires on a trace of the model whose injected requests carry `given` span ids.** -/
theorem c18_accepts (limit : Option Nat) (respCap tcap : Nat) (coupled : Bool) (ops : List SOp) (hg : GivenOps ops) :
    (monC18 limit (trace (initSys limit respCap tcap coupled) ops)).bad = none :=
  c18_trace ops _ _ rfl (oi18_init limit respCap tcap coupled) hg

end TarpcModel.Server.Mon18

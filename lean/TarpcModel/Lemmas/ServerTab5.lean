import TarpcModel.Lemmas.ServerTab3
import TarpcModel.Lemmas.ServerTab4
/-!
The third coupling (`Tab.Y`) over whole scripts: what `poll-exec` and `drop-exec` do to the executions, their guards and
the observations; the invariant between ops; the acceptance of `checkC11Idle` (the stalled-limiter and idle-channel
clauses of the C11 monitor).
-/
namespace TarpcModel.Server.Tab
open TarpcModel TarpcModel.Server TarpcModel.Server.Flow TarpcModel.Server.ObsMon TarpcModel.Server.Mon06
open TarpcModel.Server.Mon11
set_option linter.unusedSimpArgs false
set_option linter.unusedVariables false

/-! ## `poll-exec`, `drop-exec`: the executions, their guards, the `ret` observations -/

/-- the `ret … readyOk` of an execution -/
def retOk (v : Nat) : Obs := .ret (.exec v) .readyOk

/-- `g` keeps identities, numbers and guards, and touches only the executions with rid `r` -/
def Gn (r : Nat) (g : Exec → Exec) : Prop :=
  ∀ x, (g x).rid = x.rid ∧ (g x).id = x.id ∧ (g x).vis = x.vis ∧ (x.rid ≠ r → ye (g x) = ye x) ∧
    (g x).guardArmed = x.guardArmed

/-- … or disarms the guard of an execution it finishes -/
def Ga (r : Nat) (g : Exec → Exec) : Prop :=
  ∀ x, (g x).rid = x.rid ∧ (g x).id = x.id ∧ (g x).vis = x.vis ∧ (x.rid ≠ r → ye (g x) = ye x) ∧
    (execLive (g x) = true → (g x).guardArmed = x.guardArmed)

theorem Gn.id (r : Nat) : Gn r id := fun x => ⟨rfl, rfl, rfl, fun _ => rfl, rfl⟩

theorem Gn.toGa {r : Nat} {g : Exec → Exec} (h : Gn r g) : Ga r g :=
  fun x => ⟨(h x).1, (h x).2.1, (h x).2.2.1, (h x).2.2.2.1, fun _ => (h x).2.2.2.2⟩

theorem Gn.comp {r : Nat} {g1 g2 : Exec → Exec} (h1 : Gn r g1) (h2 : Gn r g2) : Gn r (g2 ∘ g1) := by
  intro x
  obtain ⟨a1, a2, a3, a4, a5⟩ := h1 x
  obtain ⟨b1, b2, b3, b4, b5⟩ := h2 (g1 x)
  exact ⟨b1.trans a1, b2.trans a2, b3.trans a3, fun hne => (b4 (by rw [a1]; exact hne)).trans (a4 hne), b5.trans a5⟩

theorem Ga.after {r : Nat} {g1 g2 : Exec → Exec} (h1 : Gn r g1) (h2 : Ga r g2) : Ga r (g2 ∘ g1) := by
  intro x
  obtain ⟨a1, a2, a3, a4, a5⟩ := h1 x
  obtain ⟨b1, b2, b3, b4, b5⟩ := h2 (g1 x)
  exact ⟨b1.trans a1, b2.trans a2, b3.trans a3, fun hne => (b4 (by rw [a1]; exact hne)).trans (a4 hne),
    fun hl => (b5 hl).trans a5⟩

/-- a step inside an op on the executions with rid `r`: no `ret … readyOk`; they stay live -/
structure NEU (r : Nat) (s s' : St) : Prop where
  ex : ∃ g, s'.execs = s.execs.map g ∧ Gn r g
  obs : ∃ l, s'.obs = l ++ s.obs ∧ ∀ v, retOk v ∉ l
  live : (∀ x ∈ s.execs, x.rid = r → execLive x = true) → ∀ x ∈ s'.execs, x.rid = r → execLive x = true
  cq : s'.cancelQ = s.cancelQ
  dr : s'.dropped = s.dropped

theorem NEU.of_frame {r : Nat} {s s' : St} (h1 : s'.execs = s.execs) (h2 : s'.obs = s.obs) (h3 : s'.cancelQ = s.cancelQ)
    (h4 : s'.dropped = s.dropped) : NEU r s s' :=
  ⟨⟨id, by simp [h1], Gn.id r⟩, ⟨[], by simp [h2], fun v h => by cases h⟩, fun h => by rw [h1]; exact h, h3, h4⟩

theorem NEU.refl (r : Nat) (s : St) : NEU r s s := NEU.of_frame rfl rfl rfl rfl

theorem NEU.trans {r : Nat} {a b c : St} (h1 : NEU r a b) (h2 : NEU r b c) : NEU r a c := by
  obtain ⟨g1, e1, i1⟩ := h1.ex
  obtain ⟨g2, e2, i2⟩ := h2.ex
  obtain ⟨l1, o1, n1⟩ := h1.obs
  obtain ⟨l2, o2, n2⟩ := h2.obs
  refine ⟨⟨g2 ∘ g1, by rw [e2, e1, List.map_map], i1.comp i2⟩, ⟨l2 ++ l1, by rw [o2, o1, List.append_assoc], ?_⟩,
    fun h => h2.live (h1.live h), h2.cq.trans h1.cq, h2.dr.trans h1.dr⟩
  intro v hv
  rcases List.mem_append.mp hv with h | h
  · exact n2 v h
  · exact n1 v h

theorem NEU.pre {r : Nat} {s s0 s' : St} (h : NEU r s0 s') (h1 : s0.execs = s.execs) (h2 : s0.obs = s.obs)
    (h3 : s0.cancelQ = s.cancelQ) (h4 : s0.dropped = s.dropped) : NEU r s s' :=
  (NEU.of_frame h1 h2 h3 h4).trans h

theorem neu_emit (r : Nat) (s : St) (o : Obs) (ho : ∀ v, o ≠ retOk v) : NEU r s (emit s o) :=
  ⟨⟨id, by simp, Gn.id r⟩, ⟨[o], rfl, fun v h => ho v (List.mem_singleton.mp h).symm⟩, fun h => h, rfl, rfl⟩

/-- an update of the executions with rid `r` that keeps them live (they were) and their guards -/
theorem neu_updExec (r : Nat) (s : St) (f : Exec → Exec)
    (hf : ∀ x, (f x).rid = x.rid ∧ (f x).id = x.id ∧ (f x).vis = x.vis ∧ (f x).guardArmed = x.guardArmed)
    (hl : ∀ x, execLive x = true → execLive (f x) = true) : NEU r s (updExec s r f) := by
  refine ⟨⟨fun x => if x.rid == r then f x else x, rfl, fun x => ?_⟩, ⟨[], rfl, fun v h => by cases h⟩, ?_, rfl, rfl⟩
  · simp only
    split
    · next hc =>
      obtain ⟨a1, a2, a3, a4⟩ := hf x
      exact ⟨a1, a2, a3, fun hne => absurd (by simpa using hc) hne, a4⟩
    · exact ⟨rfl, rfl, rfl, fun _ => rfl, rfl⟩
  · intro h x hx hr
    simp only [updExec] at hx
    obtain ⟨x0, hx0, rfl⟩ := List.mem_map.mp hx
    by_cases h0 : x0.rid = r
    · rw [if_pos (by simpa using h0)]
      exact hl x0 (h x0 hx0 h0)
    · rw [if_neg (by simpa using h0)] at hr ⊢
      exact absurd hr h0

/-- an update of another execution's bookkeeping (its `woken` flag) -/
theorem neu_updOther (r w : Nat) (s : St) (f : Exec → Exec) (hf : ∀ x, ye (f x) = ye x ∧ (f x).rid = x.rid ∧
    (f x).id = x.id ∧ (f x).vis = x.vis ∧ (f x).guardArmed = x.guardArmed ∧ execLive (f x) = execLive x) :
    NEU r s (updExec s w f) := by
  refine ⟨⟨fun x => if x.rid == w then f x else x, rfl, fun x => ?_⟩, ⟨[], rfl, fun v h => by cases h⟩, ?_, rfl, rfl⟩
  · simp only
    split
    · obtain ⟨a0, a1, a2, a3, a4, _⟩ := hf x
      exact ⟨a1, a2, a3, fun _ => a0, a4⟩
    · exact ⟨rfl, rfl, rfl, fun _ => rfl, rfl⟩
  · intro h x hx hr
    simp only [updExec] at hx
    obtain ⟨x0, hx0, rfl⟩ := List.mem_map.mp hx
    by_cases h0 : (x0.rid == w) = true
    · rw [if_pos h0] at hr ⊢
      rw [(hf x0).2.2.2.2.2]
      exact h x0 hx0 ((hf x0).2.1.symm.trans hr)
    · rw [if_neg h0] at hr ⊢
      exact h x0 hx0 hr

theorem neu_wakeServer (r : Nat) (s : St) : NEU r s (wakeServer s) := by
  unfold wakeServer; split
  · exact NEU.refl r s
  · exact (neu_emit r _ _ (fun v h => by cases h)).pre rfl rfl rfl rfl

theorem neu_wakeExec (r : Nat) (s : St) (w : Nat) : NEU r s (wakeExec s w) := by
  unfold wakeExec; repeat' split
  all_goals first
    | exact NEU.refl r s
    | exact (neu_updOther r w s (fun e => { e with woken := true }) (fun x => ⟨rfl, rfl, rfl, rfl, rfl, rfl⟩)).trans
        (neu_emit r _ _ (fun v h => by cases h))

theorem neu_rqRelease (r : Nat) (s : St) : NEU r s (rqRelease s) := by
  unfold rqRelease; split
  · exact (neu_wakeExec r _ _).pre rfl rfl rfl rfl
  · exact NEU.of_frame rfl rfl rfl rfl

/-- the outcome of an op on the executions with rid `r`, numbered `vid`: they are finished and `ret … readyOk` was
observed for `vid`, or they stay live and it was not -/
structure PEOut (r vid : Nat) (s s' : St) : Prop where
  ex : ∃ g, s'.execs = s.execs.map g ∧ Ga r g
  obs : ∃ l, s'.obs = l ++ s.obs ∧ (∀ v, retOk v ∈ l → v = vid) ∧
    ((retOk vid ∈ l ∧ ∀ x ∈ s'.execs, x.rid = r → execLive x = false) ∨
     (retOk vid ∉ l ∧ ((∀ x ∈ s.execs, x.rid = r → execLive x = true) → ∀ x ∈ s'.execs, x.rid = r → execLive x = true)))
  cq : s'.cancelQ = s.cancelQ
  dr : s'.dropped = s.dropped

theorem NEU.toOut {r : Nat} {s s' : St} (vid : Nat) (h : NEU r s s') : PEOut r vid s s' := by
  obtain ⟨g, e, i⟩ := h.ex
  obtain ⟨l, o, n⟩ := h.obs
  exact ⟨⟨g, e, i.toGa⟩, ⟨l, o, fun v hv => absurd hv (n v), Or.inr ⟨n vid, h.live⟩⟩, h.cq, h.dr⟩

theorem PEOut.after {r vid : Nat} {a b c : St} (h1 : NEU r a b) (h2 : PEOut r vid b c) : PEOut r vid a c := by
  obtain ⟨g1, e1, i1⟩ := h1.ex
  obtain ⟨g2, e2, i2⟩ := h2.ex
  obtain ⟨l1, o1, n1⟩ := h1.obs
  obtain ⟨l2, o2, n2, n3⟩ := h2.obs
  refine ⟨⟨g2 ∘ g1, by rw [e2, e1, List.map_map], Ga.after i1 i2⟩, ⟨l2 ++ l1, by rw [o2, o1, List.append_assoc], ?_, ?_⟩,
    h2.cq.trans h1.cq, h2.dr.trans h1.dr⟩
  · intro v hv
    rcases List.mem_append.mp hv with h | h
    · exact n2 v h
    · exact absurd h (n1 v)
  · rcases n3 with ⟨h3, h4⟩ | ⟨h3, h4⟩
    · exact Or.inl ⟨List.mem_append_left _ h3, h4⟩
    · refine Or.inr ⟨fun hv => ?_, fun h => h4 (h1.live h)⟩
      rcases List.mem_append.mp hv with h | h
      · exact h3 h
      · exact n1 vid h

theorem PEOut.pre {r vid : Nat} {s s0 s' : St} (h : PEOut r vid s0 s') (h1 : s0.execs = s.execs) (h2 : s0.obs = s.obs)
    (h3 : s0.cancelQ = s.cancelQ) (h4 : s0.dropped = s.dropped) : PEOut r vid s s' :=
  PEOut.after (NEU.of_frame h1 h2 h3 h4) h

theorem out_queueAndFinish (s : St) (e : Exec) (res : Res) (n : Nat) : PEOut e.rid (visOf e) s (queueAndFinish s e res n) := by
  unfold queueAndFinish
  simp only
  have h0 : NEU e.rid s (if s.dropped = true then s else
      if s.rqRxWaker = true then wakeServer { s with respQ := s.respQ ++ [(e.id, res)], rqRxWaker := false }
      else { s with respQ := s.respQ ++ [(e.id, res)] }) := by
    split
    · exact NEU.refl _ s
    · split
      · exact (neu_wakeServer _ _).pre rfl rfl rfl rfl
      · exact NEU.of_frame rfl rfl rfl rfl
  refine PEOut.after h0 ?_
  generalize (if s.dropped = true then s else
      if s.rqRxWaker = true then wakeServer { s with respQ := s.respQ ++ [(e.id, res)], rqRxWaker := false }
      else { s with respQ := s.respQ ++ [(e.id, res)] }) = s1
  refine ⟨⟨fun x => if x.rid == e.rid then { x with phase := .done, guardArmed := false, woken := false, resp := none } else x,
    rfl, fun x => ?_⟩, ⟨[retOk (visOf e)], rfl, fun v hv => ?_, Or.inl ⟨List.mem_singleton.mpr rfl, ?_⟩⟩, rfl, rfl⟩
  · simp only
    split
    · next hc => exact ⟨rfl, rfl, rfl, fun hne => absurd (by simpa using hc) hne, fun hl => by cases hl⟩
    · exact ⟨rfl, rfl, rfl, fun _ => rfl, fun _ => rfl⟩
  · have := List.mem_singleton.mp hv
    unfold retOk at this
    cases this; rfl
  · intro x hx
    rw [emit_execs] at hx
    refine dead_of_updExec_done _ _ _ ?_ x hx
    exact fun e' => ⟨rfl, rfl⟩

theorem out_trySend (s : St) (e : Exec) (res : Res) (n : Nat) : PEOut e.rid (visOf e) s (trySend s e res n) := by
  unfold trySend
  split
  · exact out_queueAndFinish s e res n
  · split
    · exact (out_queueAndFinish _ e res n).pre rfl rfl rfl rfl
    · split
      · refine NEU.toOut _ ?_
        refine NEU.trans (neu_updExec e.rid s (fun x => { x with abortWaker := true }) (fun x => ⟨rfl, rfl, rfl, rfl⟩)
          (fun x h => h)) (neu_emit _ _ _ (fun v h => by cases h))
      · split
        · exact (out_queueAndFinish _ e res n).pre rfl rfl rfl rfl
        · refine NEU.toOut _ ?_
          refine NEU.trans ?_ (neu_emit _ _ _ (fun v h => by cases h))
          refine NEU.pre (s0 := { s with rqWaiters := s.rqWaiters ++ [e.rid] }) ?_ rfl rfl rfl rfl
          exact neu_updExec e.rid _ (fun x => { x with phase := .sending, resp := some res, abortWaker := true })
            (fun x => ⟨rfl, rfl, rfl, rfl⟩) (fun x _ => rfl)

theorem neu_peDrop (s0 : St) (e : Exec) (vid now : Nat) : NEU e.rid s0 (peDrop s0 e vid now) := by
  unfold peDrop
  cases e.phase <;> simp only <;>
    (split <;> first
      | exact NEU.refl _ _
      | exact neu_emit _ _ _ (fun v h => by cases h)
      | exact (neu_rqRelease _ _).pre rfl rfl rfl rfl
      | exact NEU.of_frame rfl rfl rfl rfl)

theorem out_peAborted (s0 : St) (e : Exec) (vid now : Nat) : PEOut e.rid vid s0 (peAborted s0 e vid now) := by
  unfold peAborted
  refine PEOut.after (neu_peDrop s0 e vid now) ?_
  generalize peDrop s0 e vid now = s1
  refine ⟨⟨fun x => if x.rid == e.rid then { x with phase := .done, guardArmed := false } else x, rfl, fun x => ?_⟩,
    ⟨[retOk vid], rfl, fun v hv => ?_, Or.inl ⟨List.mem_singleton.mpr rfl, ?_⟩⟩, rfl, rfl⟩
  · simp only
    split
    · next hc => exact ⟨rfl, rfl, rfl, fun hne => absurd (by simpa using hc) hne, fun hl => by cases hl⟩
    · exact ⟨rfl, rfl, rfl, fun _ => rfl, fun _ => rfl⟩
  · have := List.mem_singleton.mp hv
    unfold retOk at this
    cases this; rfl
  · intro x hx
    rw [emit_execs] at hx
    refine dead_of_updExec_done _ _ _ ?_ x hx
    exact fun e' => ⟨rfl, rfl⟩

theorem out_peRun (s0 : St) (e : Exec) (vid now : Nat) (hv : visOf e = vid) : PEOut e.rid vid s0 (peRun s0 e vid now) := by
  have hsend : PEOut e.rid vid s0 (peSending s0 e now) := by
    unfold peSending
    cases e.resp with
    | none => exact NEU.toOut _ (neu_emit _ _ _ (fun v h => by cases h))
    | some res => rw [← hv]; exact out_trySend s0 e res now
  have hstart : NEU e.rid s0 (peStart s0 e vid now) := by
    unfold peStart
    exact (neu_updExec e.rid s0 (fun x => { x with phase := .running }) (fun x => ⟨rfl, rfl, rfl, rfl⟩) (fun x _ => rfl)).trans
      (neu_emit _ _ _ (fun v h => by cases h))
  have hrun : PEOut e.rid vid s0 (peRunning s0 e vid now) := by
    unfold peRunning
    cases e.finishCmd with
    | none =>
      refine NEU.toOut _ (hstart.trans ?_)
      exact (neu_updExec e.rid _ (fun x => { x with abortWaker := true }) (fun x => ⟨rfl, rfl, rfl, rfl⟩) (fun x h => h)).trans
        (neu_emit _ _ _ (fun v h => by cases h))
    | some res =>
      have h1 : NEU e.rid s0 (updExec (emit (peStart s0 e vid now) (.handler vid .completed now)) e.rid
          (fun x => { x with hDone := true, finishCmd := none })) :=
        (hstart.trans (neu_emit _ _ _ (fun v h => by cases h))).trans
          (neu_updExec e.rid _ (fun x => { x with hDone := true, finishCmd := none }) (fun x => ⟨rfl, rfl, rfl, rfl⟩)
            (fun x h => h))
      have h2 := out_trySend (updExec (emit (peStart s0 e vid now) (.handler vid .completed now)) e.rid
        (fun x => { x with hDone := true, finishCmd := none })) { e with hDone := true, phase := .running } res now
      have hv' : visOf { e with hDone := true, phase := .running } = vid := hv
      rw [hv'] at h2
      exact PEOut.after h1 h2
  unfold peRun
  cases e.phase <;> first | exact hsend | exact hrun

/-- `poll-exec v`: a no-op, or the outcome for the live execution numbered `v` -/
theorem pollExec_out (s : St) (vid n : Nat) :
    (∃ e, getExecVis s vid = some e ∧ execLive e = true ∧ PEOut e.rid vid s (pollExec s vid n)) ∨
    ((∀ e, getExecVis s vid = some e → execLive e = false) ∧ pollExec s vid n = emit s .noop) := by
  rw [pollExec_eq]
  cases hg : getExecVis s vid with
  | none => exact Or.inr ⟨fun e he => (by cases he), rfl⟩
  | some e =>
    simp only
    by_cases hl : (!execLive e) = true
    · rw [if_pos hl]
      exact Or.inr ⟨fun e' he' => (by cases he'; simpa using hl), rfl⟩
    · rw [if_neg hl]
      left
      have hv : visOf e = vid := by
        unfold visOf; rw [(getExecVis_mem hg).2]; rfl
      refine ⟨e, rfl, by simpa using hl, ?_⟩
      have h0 : NEU e.rid s (updExec s e.rid (fun x => { x with woken := false })) :=
        neu_updExec e.rid s _ (fun x => ⟨rfl, rfl, rfl, rfl⟩) (fun x h => h)
      by_cases ha : e.aborted = true
      · rw [if_pos ha]; exact PEOut.after h0 (out_peAborted _ e vid n)
      · rw [if_neg ha]; exact PEOut.after h0 (out_peRun _ e vid n hv)

/-- the outcome of `drop-exec` on the live execution `e` -/
structure DEOut (e : Exec) (s s' : St) : Prop where
  ex : ∃ g, s'.execs = s.execs.map g ∧ Ga e.rid g
  obs : ∃ l, s'.obs = l ++ s.obs ∧ ∀ v, retOk v ∉ l
  dead : ∀ x ∈ s'.execs, x.rid = e.rid → execLive x = false
  cq : (e.guardArmed = true ∧ s.dropped = false ∧ s'.cancelQ = s.cancelQ ++ [e.id]) ∨
    ((e.guardArmed = false ∨ s.dropped = true) ∧ s'.cancelQ = s.cancelQ)
  dr : s'.dropped = s.dropped

/-- `drop-exec` of a live execution: what is dropped -/
def deDrop (s : St) (e : Exec) (vid now : Nat) : St :=
  match e.phase with
  | .running => if e.hDone then s else emit s (.handler vid .dropped now)
  | .sending =>
      let had := s.rqAssigned.contains e.rid
      let s := { s with rqAssigned := s.rqAssigned.filter (· != e.rid), rqWaiters := s.rqWaiters.filter (· != e.rid) }
      if had then rqRelease s else s
  | _ => s

theorem dropExec_eq (s : St) (vid now : Nat) :
    dropExec s vid now =
      match getExecVis s vid with
      | none => emit s .noop
      | some e =>
          if !execLive e then emit s .noop
          else guardDrop (updExec (deDrop s e vid now) e.rid (fun x => { x with phase := .gone, woken := false })) e := by
  unfold dropExec deDrop
  cases getExecVis s vid with
  | none => rfl
  | some e =>
    simp only
    by_cases hl : (!execLive e) = true
    · rw [if_pos hl, if_pos hl]
    · rw [if_neg hl, if_neg hl]
      cases e.phase <;> rfl

theorem neu_deDrop (s : St) (e : Exec) (vid now : Nat) : NEU e.rid s (deDrop s e vid now) := by
  unfold deDrop
  cases e.phase <;> simp only <;>
    first
      | exact NEU.refl _ _
      | (split <;> first
          | exact NEU.refl _ _
          | exact neu_emit _ _ _ (fun v h => by cases h)
          | exact (neu_rqRelease _ _).pre rfl rfl rfl rfl
          | exact NEU.of_frame rfl rfl rfl rfl)

theorem dropExec_out (s : St) (vid n : Nat) :
    (∃ e, getExecVis s vid = some e ∧ execLive e = true ∧ DEOut e s (dropExec s vid n)) ∨
    ((∀ e, getExecVis s vid = some e → execLive e = false) ∧ dropExec s vid n = emit s .noop) := by
  rw [dropExec_eq]
  cases hg : getExecVis s vid with
  | none => exact Or.inr ⟨fun e he => (by cases he), rfl⟩
  | some e =>
    simp only
    by_cases hl : (!execLive e) = true
    · rw [if_pos hl]
      exact Or.inr ⟨fun e' he' => (by cases he'; simpa using hl), rfl⟩
    · rw [if_neg hl]
      left
      refine ⟨e, rfl, by simpa using hl, ?_⟩
      have h1 := neu_deDrop s e vid n
      generalize deDrop s e vid n = s1 at h1 ⊢
      obtain ⟨g1, e1, i1⟩ := h1.ex
      obtain ⟨l1, o1, n1⟩ := h1.obs
      let g2 : Exec → Exec := fun x => if x.rid == e.rid then { x with phase := .gone, woken := false } else x
      have hg2 : Ga e.rid g2 := by
        intro x
        simp only [g2]
        split
        · next hc => exact ⟨rfl, rfl, rfl, fun hne => absurd (by simpa using hc) hne, fun hl => by cases hl⟩
        · exact ⟨rfl, rfl, rfl, fun _ => rfl, fun _ => rfl⟩
      have hdead : ∀ x ∈ (updExec s1 e.rid (fun x => { x with phase := .gone, woken := false })).execs,
          x.rid = e.rid → execLive x = false := dead_of_updExec_done _ _ _ (fun e' => ⟨rfl, rfl⟩)
      generalize hs2 : updExec s1 e.rid (fun x => { x with phase := .gone, woken := false }) = s2 at hdead ⊢
      have hs2e : s2.execs = s1.execs.map g2 := by rw [← hs2]; rfl
      have hs2o : s2.obs = s1.obs := by rw [← hs2]; rfl
      have hs2c : s2.cancelQ = s1.cancelQ := by rw [← hs2]; rfl
      have hs2d : s2.dropped = s1.dropped := by rw [← hs2]; rfl
      unfold guardDrop
      by_cases hc : (e.guardArmed && !s2.dropped) = true
      · rw [if_pos hc]
        simp only [Bool.and_eq_true, Bool.not_eq_true'] at hc
        simp only
        have hfin : ∀ s3 : St, s3.execs = s2.execs → (∃ l, s3.obs = l ++ s2.obs ∧ ∀ v, retOk v ∉ l) →
            s3.cancelQ = s2.cancelQ ++ [e.id] → s3.dropped = s2.dropped → DEOut e s s3 := by
          intro s3 a1 a2 a3 a4
          obtain ⟨l3, o3, n3⟩ := a2
          refine ⟨⟨g2 ∘ g1, by rw [a1, hs2e, e1, List.map_map], Ga.after i1 hg2⟩,
            ⟨l3 ++ l1, by rw [o3, hs2o, o1, List.append_assoc], fun v hv => ?_⟩, by rw [a1]; exact hdead, ?_,
            a4.trans (hs2d.trans h1.dr)⟩
          · rcases List.mem_append.mp hv with h | h
            · exact n3 v h
            · exact n1 v h
          · exact Or.inl ⟨hc.1, by rw [← h1.dr, ← hs2d]; exact hc.2, by rw [a3, hs2c, h1.cq]⟩
        split
        · refine hfin _ (by simp) ?_ (by simp) (by simp)
          unfold wakeServer
          split
          · exact ⟨[], rfl, fun v h => by cases h⟩
          · exact ⟨[.wake (.server s2.sidx)], rfl, fun v h => by
              have := List.mem_singleton.mp h
              unfold retOk at this; cases this⟩
        · exact hfin _ rfl ⟨[], rfl, fun v h => by cases h⟩ rfl rfl
      · rw [if_neg hc]
        refine ⟨⟨g2 ∘ g1, by rw [hs2e, e1, List.map_map], Ga.after i1 hg2⟩,
          ⟨l1, by rw [hs2o, o1], n1⟩, hdead, Or.inr ⟨?_, by rw [hs2c, h1.cq]⟩, hs2d.trans h1.dr⟩
        cases ha : e.guardArmed with
        | false => exact Or.inl rfl
        | true =>
          right
          rw [ha] at hc
          simp only [Bool.true_and, Bool.not_eq_true', Bool.not_eq_false] at hc
          rw [← h1.dr, ← hs2d]; exact hc

/-! ## the book over the observations of an op on an execution -/

/-- what the book's executions (wide view) may undergo: only `gone` marks are set -/
def Fg (P : WB → Prop) (f : WB → WB) : Prop :=
  ∀ x, (f x).rid = x.rid ∧ (f x).id = x.id ∧ (f x).deadline = x.deadline ∧ (f x).yieldedAt = x.yieldedAt ∧
    (f x).abandoned = x.abandoned ∧ (f x).expiredSeen = x.expiredSeen ∧ ((f x).gone = true ↔ x.gone = true ∨ P x)

theorem step_wb_same (b : Book) (o : Obs) (h : isCore o = false) (hr : ∀ v, o ≠ retOk v) :
    (bw (b.step (.obs o))).execs = (bw b).execs ∧ (bw (b.step (.obs o))).table = (bw b).table ∧
    (bw (b.step (.obs o))).now = (bw b).now := by
  have hupd : ∀ (r : Nat) (f : BExec → BExec), (∀ e, wb (f e) = wb e) →
      (bw (b.updExec r f)).execs = (bw b).execs ∧ (bw (b.updExec r f)).table = (bw b).table ∧
      (bw (b.updExec r f)).now = (bw b).now := by
    intro r f hf
    rw [updExec_wb b r f hf]; exact ⟨rfl, rfl, rfl⟩
  cases o with
  | tNext ep r => simp [isCore] at h
  | yielded r id d tr => simp [isCore] at h
  | tSend ep m ok =>
    cases m with
    | response id res => simp [isCore] at h
    | _ => exact ⟨rfl, rfl, rfl⟩
  | ret t r =>
    cases t with
    | server k => simp [isCore] at h
    | exec v =>
      cases r with
      | readyOk => exact absurd rfl (hr v)
      | _ => exact ⟨rfl, rfl, rfl⟩
    | _ => exact ⟨rfl, rfl, rfl⟩
  | handler r ev t =>
    cases ev with
    | completed => exact hupd _ _ (fun e => rfl)
    | dropped => exact hupd _ _ (fun e => rfl)
    | _ => exact ⟨rfl, rfl, rfl⟩
  | tReady ep r =>
    simp only [Book.step]
    (repeat' split) <;> exact ⟨rfl, rfl, rfl⟩
  | tFlush ep r =>
    simp only [Book.step]
    (repeat' split) <;> exact ⟨rfl, rfl, rfl⟩
  | counts ep a b' => cases ep <;> exact ⟨rfl, rfl, rfl⟩
  | wake t => exact ⟨rfl, rfl, rfl⟩
  | _ => exact ⟨rfl, rfl, rfl⟩

theorem step_wb_retOk (b : Book) (v : Nat) :
    (bw (b.step (.obs (retOk v)))).execs = (bw b).execs.map (fun x => if x.rid == v then { x with gone := true } else x) ∧
    (bw (b.step (.obs (retOk v)))).table = (bw b).table ∧ (bw (b.step (.obs (retOk v)))).now = (bw b).now := by
  refine ⟨?_, rfl, rfl⟩
  show (b.execs.map (fun e => if e.rid == v then { e with gone := true } else e)).map wb = _
  exact map_wb_ite b.execs (fun e => (e.rid == v) = true) (fun x => (x.rid == v) = true) (fun e => Iff.rfl)
    (fun e => { e with gone := true }) (fun x => { x with gone := true }) (fun e => rfl)

theorem gone_fold (b : Book) (vid : Nat) : ∀ (l : List Obs), (∀ o ∈ l, isCore o = false) → (∀ v, retOk v ∈ l → v = vid) →
    ∃ f, (bw (bo b l)).execs = (bw b).execs.map f ∧ Fg (fun x => x.rid = vid ∧ retOk vid ∈ l) f ∧
      (bw (bo b l)).table = (bw b).table ∧ (bw (bo b l)).now = (bw b).now := by
  intro l
  induction l with
  | nil =>
    intro _ _
    exact ⟨id, by simp, fun x => ⟨rfl, rfl, rfl, rfl, rfl, rfl, by simp⟩, rfl, rfl⟩
  | cons o l ih =>
    intro hc hv
    obtain ⟨f, hf1, hf2, hf3, hf4⟩ := ih (fun o' ho' => hc o' (List.mem_cons_of_mem _ ho'))
      (fun v h => hv v (List.mem_cons_of_mem _ h))
    by_cases hro : ∃ v, o = retOk v
    · obtain ⟨v, rfl⟩ := hro
      have hvv : v = vid := hv v (List.mem_cons_self ..)
      subst hvv
      obtain ⟨a1, a2, a3⟩ := step_wb_retOk (bo b l) v
      refine ⟨(fun x => if x.rid == v then { x with gone := true } else x) ∘ f, ?_, fun x => ?_, a2.trans hf3, a3.trans hf4⟩
      · show (bw ((bo b l).step (.obs (retOk v)))).execs = _
        rw [a1, hf1, List.map_map]
      · obtain ⟨b1, b2, b3, b4, b5, b6, b7⟩ := hf2 x
        simp only [Function.comp]
        by_cases hx : (f x).rid = v
        · rw [if_pos (by simpa using hx)]
          refine ⟨b1, b2, b3, b4, b5, b6, ?_⟩
          simp only [true_iff]
          exact Or.inr ⟨b1.symm.trans hx, List.mem_cons_self ..⟩
        · rw [if_neg (by simpa using hx)]
          refine ⟨b1, b2, b3, b4, b5, b6, ?_⟩
          rw [b7]
          constructor
          · rintro (h1 | ⟨h1, h2⟩)
            · exact Or.inl h1
            · exact Or.inr ⟨h1, List.mem_cons_of_mem _ h2⟩
          · rintro (h1 | ⟨h1, h2⟩)
            · exact Or.inl h1
            · exact absurd (b1.trans h1) hx
    · have hne : ∀ v, o ≠ retOk v := fun v h => hro ⟨v, h⟩
      obtain ⟨a1, a2, a3⟩ := step_wb_same (bo b l) o (hc o (List.mem_cons_self ..)) hne
      refine ⟨f, by show (bw ((bo b l).step (.obs o))).execs = _; rw [a1, hf1], fun x => ?_, a2.trans hf3, a3.trans hf4⟩
      obtain ⟨b1, b2, b3, b4, b5, b6, b7⟩ := hf2 x
      refine ⟨b1, b2, b3, b4, b5, b6, ?_⟩
      rw [b7]
      constructor
      · rintro (h1 | ⟨h1, h2⟩)
        · exact Or.inl h1
        · exact Or.inr ⟨h1, List.mem_cons_of_mem _ h2⟩
      · rintro (h1 | ⟨h1, h2⟩)
        · exact Or.inl h1
        · rcases List.mem_cons.mp h2 with h3 | h3
          · exact absurd h3.symm (hne vid)
          · exact Or.inr ⟨h1, h3⟩

theorem endOp_failed (b : Book) : b.endOp.failed = b.failed := by
  unfold Book.endOp; simp only []; (repeat' split) <;> rfl

theorem bw_endOp_none (b : Book) (hc : b.curDropExec = none) : bw b.endOp = bw b := by
  unfold bw
  rw [endOp_now, endOp_execs_none b hc, endOp_table, endOp_failed]

/-! ## `poll-exec` and the third coupling -/

theorem noncore_of_filter {l : List Obs} (h : l.filter isCore = []) : ∀ o ∈ l, isCore o = false := by
  intro o ho
  have := List.filter_eq_nil_iff.mp h o ho
  simpa using this

theorem vis_rid {now : Nat} {pend : Option (Nat × Nat)} {Bv : BV} {s : St} (hK : K now pend Bv (sview s))
    {a e : Exec} (ha : a ∈ s.execs) (he : e ∈ s.execs) {v : Nat} (hav : a.vis = some v) (hev : e.vis = some v) :
    a.rid = e.rid := by
  have := hK.visInj (xe a) (List.mem_map_of_mem ha) (xe e) (List.mem_map_of_mem he) v hav hev
  exact congrArg XE.rid this

theorem rid_vis {now : Nat} {pend : Option (Nat × Nat)} {Bv : BV} {s : St} (hK : K now pend Bv (sview s))
    {a e : Exec} (ha : a ∈ s.execs) (he : e ∈ s.execs) (hr : a.rid = e.rid) : a.vis = e.vis := by
  have := eq_of_rid_nodup hK.ridNodup (List.mem_map_of_mem ha) (List.mem_map_of_mem he) hr
  exact congrArg XE.vis this

theorem Y_pollExec {rest : List Nat} {now : Nat} {pend : Option (Nat × Nat)} {b : Book} {s : St} (vid n : Nat)
    (h0 : s.obs = []) (hcd : b.curDropExec = none)
    (hK : K now pend (bview b) (sview s)) (hX : X rest (bw b) (mv s)) (hY : Y now none (bw b) (mv s)) :
    Y now none (bw (bo b (pollExec s vid n).obs).endOp) (mv (pollExec s vid n)) := by
  have hcd' : (bo b (pollExec s vid n).obs).curDropExec = none := by rw [bo_curDropExec]; exact hcd
  rw [bw_endOp_none _ hcd']
  have hcoreF : (pollExec s vid n).obs.filter isCore = [] := by
    rw [fx_pollExec isCore_execQuiet, h0]; rfl
  have hcore := noncore_of_filter hcoreF
  rcases pollExec_out s vid n with ⟨e, hg, hl, hout⟩ | ⟨hnl, heq⟩
  · obtain ⟨hem, hev⟩ := getExecVis_mem hg
    obtain ⟨g, hge, hga⟩ := hout.ex
    obtain ⟨l, hlo, hlv, hfin⟩ := hout.obs
    rw [h0, List.append_nil] at hlo
    rw [hlo] at hcore ⊢
    obtain ⟨f, hf1, hf2, hf3, hf4⟩ := gone_fold b vid l hcore hlv
    have hlive_r : ∀ a ∈ s.execs, a.rid = e.rid → execLive a = true :=
      liveRid_of_K hK (Or.inr ⟨e, hem, rfl, hl⟩)
    refine hY.execOp s.execs ye (ye ∘ g) rfl (by show (pollExec s vid n).execs.map ye = _; rw [hge, List.map_map]) ?_
      f hf1 (fun x => ⟨(hf2 x).1, (hf2 x).2.1, (hf2 x).2.2.1, (hf2 x).2.2.2.1, fun h => by rw [(hf2 x).2.2.2.2.1]; exact h⟩)
      ?_ (congrArg (List.map ze) (pollExec_inflight s vid n))
      (by show (pollExec s vid n).t.inbound = s.t.inbound; rw [pollExec_t]) hout.dr hf3 hf4
      (fun i hi => by show i ∈ (pollExec s vid n).cancelQ; rw [hout.cq]; exact hi)
      (fun i hi => Or.inl (by show i ∈ s.cancelQ; rw [← hout.cq]; exact hi))
      (fun _ a _ eb _ _ hab => Or.inl (by rw [(hf2 eb).2.2.2.2.1] at hab; exact hab)) (K_eid_mv hK)
    · intro a ha
      obtain ⟨a1, a2, a3, a4, a5⟩ := hga a
      refine ⟨a1, a2, a3, fun hq => ?_, fun hq hp => ?_⟩
      · by_cases hr : a.rid = e.rid
        · exact hlive_r a ha hr
        · have : ye (g a) = ye a := a4 hr
          show (ye a).live = true
          rw [← this]; exact hq
      · show (g a).guardArmed = true
        rw [a5 hq]; exact hp
    · intro a ha eb heb hv
      have hv' : a.vis = some eb.rid := hv
      rw [(hf2 eb).2.2.2.2.2.2]
      have hgl := hY.gl (ye a) (List.mem_map_of_mem ha) eb heb hv
      by_cases hbr : eb.rid = vid
      · have har : a.rid = e.rid := vis_rid hK ha hem (hv'.trans (by rw [hbr])) hev
        have hmem : g a ∈ (pollExec s vid n).execs := by rw [hge]; exact List.mem_map_of_mem ha
        have hgr : (g a).rid = e.rid := (hga a).1.trans har
        rcases hfin with ⟨h1, h2⟩ | ⟨h1, h2⟩
        · constructor
          · intro _; exact h2 (g a) hmem hgr
          · intro _; exact Or.inr ⟨hbr, h1⟩
        · have hla : execLive a = true := hlive_r a ha har
          have hlg : execLive (g a) = true := h2 hlive_r (g a) hmem hgr
          constructor
          · rintro (h3 | ⟨_, h3⟩)
            · have := hgl.mp h3
              have h4 : execLive a = false := this
              rw [hla] at h4; cases h4
            · exact absurd h3 h1
          · intro h3
            have h4 : execLive (g a) = false := h3
            rw [hlg] at h4; cases h4
      · have har : a.rid ≠ e.rid := by
          intro hr
          have := rid_vis hK ha hem hr
          rw [hv', hev] at this
          exact hbr (Option.some.inj this)
        have hye : ye (g a) = ye a := (hga a).2.2.2.1 har
        constructor
        · rintro (h3 | ⟨h3, _⟩)
          · show (ye (g a)).live = false
            rw [hye]; exact hgl.mp h3
          · exact absurd h3 hbr
        · intro h3
          have h4 : (ye (g a)).live = false := h3
          rw [hye] at h4
          exact Or.inl (hgl.mpr h4)
  · rw [heq] at hcore ⊢
    have hmv : mv (emit s .noop) = mv s := rfl
    rw [hmv]
    have hbw : bw (bo b (emit s Obs.noop).obs) = bw b := by
      rw [emit_obs, h0]; rfl
    rw [hbw]; exact hY

/-! ## `drop-exec` (with the book's `endOp` that follows) and the third coupling -/

/-- what `endOp` does to the book's execution numbered `r` after `drop-exec r` -/
def endF (r : Nat) (x : WB) : WB :=
  if x.rid == r then (if x.gone then x else { x with gone := true, abandoned := true }) else x

theorem bw_endOp_some (b : Book) (r : Nat) (hc : b.curDropExec = some r) :
    (bw b.endOp).execs = (bw b).execs.map (endF r) ∧ (bw b.endOp).table = (bw b).table ∧ (bw b.endOp).now = (bw b).now := by
  refine ⟨?_, endOp_table b, endOp_now b⟩
  show b.endOp.execs.map wb = _
  rw [endOp_execs_some b r hc]
  show (b.execs.map (fun e => if e.rid == r then (if e.gone then e else { e with gone := true, abandoned := true }) else e)).map wb = _
  exact map_wb_ite b.execs (fun e => (e.rid == r) = true) (fun x => (x.rid == r) = true) (fun e => Iff.rfl)
    (fun e => if e.gone then e else { e with gone := true, abandoned := true })
    (fun x => if x.gone then x else { x with gone := true, abandoned := true })
    (fun e => by cases hg : e.gone <;> simp [wb, hg])

theorem endF_spec (r : Nat) (x : WB) :
    (endF r x).rid = x.rid ∧ (endF r x).id = x.id ∧ (endF r x).deadline = x.deadline ∧ (endF r x).yieldedAt = x.yieldedAt ∧
    (x.abandoned = true → (endF r x).abandoned = true) ∧
    (x.rid = r → (endF r x).gone = true) ∧ (x.rid ≠ r → endF r x = x) ∧
    ((endF r x).abandoned = true → x.abandoned = true ∨ (x.rid = r ∧ x.gone = false)) := by
  unfold endF
  by_cases h1 : x.rid = r
  · rw [if_pos (by simpa using h1)]
    cases hg : x.gone
    · simp [h1, hg]
    · simp [h1, hg]
  · rw [if_neg (by simpa using h1)]
    exact ⟨rfl, rfl, rfl, rfl, fun h => h, fun h => absurd h h1, fun _ => rfl, fun h => Or.inl h⟩

theorem Y_dropExec {rest : List Nat} {now : Nat} {pend : Option (Nat × Nat)} {b : Book} {s : St} (vid n : Nat)
    (h0 : s.obs = []) (hcd : b.curDropExec = some vid)
    (hK : K now pend (bview b) (sview s)) (hX : X rest (bw b) (mv s)) (hY : Y now none (bw b) (mv s)) :
    Y now none (bw (bo b (dropExec s vid n).obs).endOp) (mv (dropExec s vid n)) := by
  have hcd' : (bo b (dropExec s vid n).obs).curDropExec = some vid := by rw [bo_curDropExec]; exact hcd
  obtain ⟨he1, he2, he3⟩ := bw_endOp_some _ vid hcd'
  have hcoreF : (dropExec s vid n).obs.filter isCore = [] := by
    rw [fx_dropExec isCore_execQuiet, h0]; rfl
  have hcore := noncore_of_filter hcoreF
  -- the book over the op's observations: no `ret … readyOk`
  have hbook : ∀ l : List Obs, (dropExec s vid n).obs = l → (∀ v, retOk v ∉ l) →
      ∃ f, (bw (bo b (dropExec s vid n).obs).endOp).execs = (bw b).execs.map (endF vid ∘ f) ∧
        (∀ x, (f x).rid = x.rid ∧ (f x).id = x.id ∧ (f x).deadline = x.deadline ∧ (f x).yieldedAt = x.yieldedAt ∧
          (f x).abandoned = x.abandoned ∧ ((f x).gone = true ↔ x.gone = true)) ∧
        (bw (bo b (dropExec s vid n).obs).endOp).table = (bw b).table ∧
        (bw (bo b (dropExec s vid n).obs).endOp).now = (bw b).now := by
    intro l hl hno
    rw [hl] at hcore he1 he2 he3 ⊢
    obtain ⟨f, hf1, hf2, hf3, hf4⟩ := gone_fold b vid l hcore (fun v hv => absurd hv (hno v))
    refine ⟨f, by rw [he1, hf1, List.map_map], fun x => ?_, he2.trans hf3, he3.trans hf4⟩
    obtain ⟨b1, b2, b3, b4, b5, _, b7⟩ := hf2 x
    refine ⟨b1, b2, b3, b4, b5, ?_⟩
    rw [b7]
    constructor
    · rintro (h | ⟨_, h⟩)
      · exact h
      · exact absurd h (hno vid)
    · exact Or.inl
  have hinf : (dropExec s vid n).inflight = s.inflight := dropExec_inflight s vid n
  have ht : (dropExec s vid n).t = s.t := dropExec_t s vid n
  rcases dropExec_out s vid n with ⟨e, hg, hl, hout⟩ | ⟨hnl, heq⟩
  · obtain ⟨hem, hev⟩ := getExecVis_mem hg
    obtain ⟨g, hge, hga⟩ := hout.ex
    obtain ⟨l, hlo, hno⟩ := hout.obs
    rw [h0, List.append_nil] at hlo
    obtain ⟨f, hf1, hf2, hf3, hf4⟩ := hbook l hlo hno
    have hlive_r : ∀ a ∈ s.execs, a.rid = e.rid → execLive a = true :=
      liveRid_of_K hK (Or.inr ⟨e, hem, rfl, hl⟩)
    have harmed : e.guardArmed = true :=
      hY.arm (ye e) (List.mem_map_of_mem hem) (by show e.vis ≠ none; rw [hev]; exact Option.some_ne_none _) hl
    have hcqsub : ∀ i ∈ s.cancelQ, i ∈ (dropExec s vid n).cancelQ := by
      intro i hi
      rcases hout.cq with ⟨_, _, h3⟩ | ⟨_, h3⟩
      · rw [h3]; exact List.mem_append_left _ hi
      · rw [h3]; exact hi
    -- the book's execution of `e`
    have hebv : ∀ eb ∈ (bw b).execs, eb.id = e.id → eb.rid = vid ∧ eb.gone = false := by
      intro eb heb hei
      obtain ⟨x0, hx0, hv0⟩ := hX.bsrc eb heb
      have h1 := hX.bid eb heb x0 hx0 hv0
      have : x0 = ye e := hX.id_inj hx0 (List.mem_map_of_mem hem) (h1.trans hei)
      rw [this] at hv0
      have hv0' : e.vis = some eb.rid := hv0
      rw [hev] at hv0'
      refine ⟨(Option.some.inj hv0').symm, ?_⟩
      cases hgo : eb.gone with
      | false => rfl
      | true =>
        have := (hY.gl (ye e) (List.mem_map_of_mem hem) eb heb (by show e.vis = some eb.rid; rw [hev, (Option.some.inj hv0')])).mp hgo
        have h4 : execLive e = false := this
        rw [hl] at h4; cases h4
    refine hY.execOp s.execs ye (ye ∘ g) rfl (by show (dropExec s vid n).execs.map ye = _; rw [hge, List.map_map]) ?_
      (endF vid ∘ f) hf1 (fun x => ?_) ?_ (congrArg (List.map ze) hinf)
      (by show (dropExec s vid n).t.inbound = s.t.inbound; rw [ht]) hout.dr hf3 hf4 hcqsub ?_ ?_ (K_eid_mv hK)
    · intro a ha
      obtain ⟨a1, a2, a3, a4, a5⟩ := hga a
      refine ⟨a1, a2, a3, fun hq => ?_, fun hq hp => ?_⟩
      · by_cases hr : a.rid = e.rid
        · exact hlive_r a ha hr
        · have : ye (g a) = ye a := a4 hr
          show (ye a).live = true
          rw [← this]; exact hq
      · show (g a).guardArmed = true
        rw [a5 hq]; exact hp
    · obtain ⟨b1, b2, b3, b4, b5, _⟩ := hf2 x
      obtain ⟨c1, c2, c3, c4, c5, _⟩ := endF_spec vid (f x)
      exact ⟨c1.trans b1, c2.trans b2, c3.trans b3, c4.trans b4, fun h => c5 (by rw [b5]; exact h)⟩
    · intro a ha eb heb hv
      have hv' : a.vis = some eb.rid := hv
      have hgl := hY.gl (ye a) (List.mem_map_of_mem ha) eb heb hv
      obtain ⟨b1, _, _, _, _, b6⟩ := hf2 eb
      obtain ⟨_, _, _, _, _, c6, c7, _⟩ := endF_spec vid (f eb)
      by_cases hbr : eb.rid = vid
      · have har : a.rid = e.rid := vis_rid hK ha hem (hv'.trans (by rw [hbr])) hev
        have hmem : g a ∈ (dropExec s vid n).execs := by rw [hge]; exact List.mem_map_of_mem ha
        constructor
        · intro _; exact hout.dead (g a) hmem ((hga a).1.trans har)
        · intro _; exact c6 (b1.trans hbr)
      · have har : a.rid ≠ e.rid := by
          intro hr
          have := rid_vis hK ha hem hr
          rw [hv', hev] at this
          exact hbr (Option.some.inj this)
        have hye : ye (g a) = ye a := (hga a).2.2.2.1 har
        show (endF vid (f eb)).gone = true ↔ (ye (g a)).live = false
        rw [c7 (by rw [b1]; exact hbr), b6, hye]
        exact hgl
    · intro i hi0
      have hi : i ∈ (dropExec s vid n).cancelQ := hi0
      rcases hout.cq with ⟨_, _, h3⟩ | ⟨_, h3⟩
      · rw [h3] at hi
        rcases List.mem_append.mp hi with h4 | h4
        · exact Or.inl h4
        · right
          intro eb heb hei
          rw [List.mem_singleton.mp h4] at hei
          obtain ⟨hr, hgo⟩ := hebv eb heb hei
          obtain ⟨b1, _, _, _, _, b6⟩ := hf2 eb
          show (endF vid (f eb)).abandoned = true
          unfold endF
          rw [if_pos (by rw [b1]; simpa using hr)]
          have : (f eb).gone = false := by
            cases hfg : (f eb).gone with
            | false => rfl
            | true => rw [b6.mp hfg] at hgo; cases hgo
          rw [this]; rfl
      · rw [h3] at hi; exact Or.inl hi
    · intro hd a ha eb heb hv hab
      have hv' : a.vis = some eb.rid := hv
      obtain ⟨b1, _, _, _, b5, b6⟩ := hf2 eb
      obtain ⟨_, _, _, _, _, _, _, c8⟩ := endF_spec vid (f eb)
      rcases c8 hab with h1 | ⟨h1, h2⟩
      · exact Or.inl (by rw [b5] at h1; exact h1)
      · right
        have hbr : eb.rid = vid := b1.symm.trans h1
        have har : a.rid = e.rid := vis_rid hK ha hem (hv'.trans (by rw [hbr])) hev
        have haid : a.id = e.id := by
          have := eq_of_rid_nodup hK.ridNodup (List.mem_map_of_mem ha) (List.mem_map_of_mem hem) har
          exact congrArg XE.id this
        show a.id ∈ (dropExec s vid n).cancelQ
        rcases hout.cq with ⟨_, _, h3⟩ | ⟨h4, _⟩
        · rw [h3, haid]; exact List.mem_append_right _ (List.mem_singleton.mpr rfl)
        · exfalso
          rcases h4 with h4 | h4
          · rw [harmed] at h4; cases h4
          · have hd' : (dropExec s vid n).dropped = false := hd
            rw [hout.dr, h4] at hd'; cases hd'
  · -- nothing to drop: the book's `endOp` changes nothing either
    rw [heq] at hcore he1 he2 he3 ⊢
    have hmv : mv (emit s .noop) = mv s := rfl
    rw [hmv]
    have hbwe : (bw (bo b (emit s Obs.noop).obs)).execs = (bw b).execs := by rw [emit_obs, h0]; rfl
    have hbwt : (bw (bo b (emit s Obs.noop).obs)).table = (bw b).table := by rw [emit_obs, h0]; rfl
    have hbwn : (bw (bo b (emit s Obs.noop).obs)).now = (bw b).now := by rw [emit_obs, h0]; rfl
    refine hY.execOp s.execs ye ye rfl rfl (fun a _ => ⟨rfl, rfl, rfl, fun h => h, fun _ h => h⟩) (endF vid)
      (by rw [he1, hbwe]) (fun x => ?_) ?_ rfl rfl rfl (he2.trans hbwt) (he3.trans hbwn) (fun i hi => hi)
      (fun i hi => Or.inl hi) ?_ (K_eid_mv hK)
    · obtain ⟨c1, c2, c3, c4, c5, _⟩ := endF_spec vid x
      exact ⟨c1, c2, c3, c4, c5⟩
    · intro a ha eb heb hv
      have hv' : a.vis = some eb.rid := hv
      have hgl := hY.gl (ye a) (List.mem_map_of_mem ha) eb heb hv
      obtain ⟨_, _, _, _, _, c6, c7, _⟩ := endF_spec vid eb
      by_cases hbr : eb.rid = vid
      · -- the execution numbered `vid` is not live
        have hdead : execLive a = false := by
          cases hfe : getExecVis s vid with
          | none =>
            unfold getExecVis at hfe
            have := List.find?_eq_none.mp hfe a ha
            rw [hv', hbr] at this
            simp at this
          | some ef =>
            obtain ⟨hfm, hfv⟩ := getExecVis_mem hfe
            have hr := vis_rid hK ha hfm (hv'.trans (by rw [hbr])) hfv
            have := eq_of_rid_nodup hK.ridNodup (List.mem_map_of_mem ha) (List.mem_map_of_mem hfm) hr
            have hlv : execLive a = execLive ef := congrArg XE.live this
            rw [hlv]; exact hnl ef hfe
        constructor
        · intro _; exact hdead
        · intro _; exact c6 hbr
      · rw [c7 hbr]; exact hgl
    · intro hd a ha eb heb hv hab
      have hv' : a.vis = some eb.rid := hv
      obtain ⟨_, _, _, _, _, _, _, c8⟩ := endF_spec vid eb
      rcases c8 hab with h1 | ⟨h1, h2⟩
      · exact Or.inl h1
      · exfalso
        -- `eb` is not gone, so its execution is live; but the one numbered `vid` is not
        have hgl := hY.gl (ye a) (List.mem_map_of_mem ha) eb heb hv
        have hla : execLive a = true := by
          cases hla : execLive a with
          | true => rfl
          | false => rw [hgl.mpr hla] at h2; cases h2
        cases hfe : getExecVis s vid with
        | none =>
          unfold getExecVis at hfe
          have := List.find?_eq_none.mp hfe a ha
          rw [hv', h1] at this
          simp at this
        | some ef =>
          obtain ⟨hfm, hfv⟩ := getExecVis_mem hfe
          have hr := vis_rid hK ha hfm (hv'.trans (by rw [h1])) hfv
          have := eq_of_rid_nodup hK.ridNodup (List.mem_map_of_mem ha) (List.mem_map_of_mem hfm) hr
          have hlv : execLive a = execLive ef := congrArg XE.live this
          rw [hlv, hnl ef hfe] at hla; cases hla

/-! ## the other ops -/

/-- the deadline of an injected request lies within the clamp horizon -/
def NearOp : SOp → Prop
  | .injectReq _ d _ _ => d ≤ clampNs
  | _ => True

theorem mv_finishHandler (s : St) (v : Nat) (res : Res) : mv (finishHandler s v res) = mv s := by
  unfold finishHandler
  split
  · rfl
  · simp only
    split
    · rfl
    · have h0 : mv (updExec s ‹Exec›.rid (fun x => { x with finishCmd := some res })) = mv s :=
        (qm_updExec s ‹Exec›.rid (fun x => { x with finishCmd := some res }) (fun e => rfl)).2
      split
      · exact ((qm_wakeExec _ _).2).trans h0
      · exact h0

theorem Y_applyOp_ext {now : Nat} {B : BW} (c0 : Sys) (op : SOp) (h1 : op ≠ .pollServer) (h2 : op ≠ .dropServer)
    (h3 : ∀ v, op ≠ .pollExec v) (h4 : ∀ v, op ≠ .dropExec v) (hnear : NearOp op)
    (hY : Y now none B (mv c0.s)) : Y now none B (mv (applyOp c0 op).s) := by
  have hsame : ∀ s' : St, mv s' = mv c0.s → Y now none B (mv s') := by
    intro s' h; rw [h]; exact hY
  have hinj : ∀ m : Inb, (∀ i d tr b, m = .msg (.request i d tr b) → d ≤ clampNs) →
      Y now none B (mv (liftT c0.s (c0.s.t.inject m))) := by
    intro m hm
    rw [mv_liftT]
    exact hY.inject m hm
  cases op with
  | pollServer => exact absurd rfl h1
  | dropServer => exact absurd rfl h2
  | pollExec v => exact absurd rfl (h3 v)
  | dropExec v => exact absurd rfl (h4 v)
  | finish v res => exact hsame _ (mv_finishHandler c0.s v res)
  | injectReq id d tr b =>
    refine hinj (.msg (.request id d tr b)) (fun i d' tr' b' hm => ?_)
    cases hm
    exact hnear
  | injectCancel id tr => exact hinj (.msg (.cancel id tr)) (fun i d' tr' b' hm => by cases hm)
  | injectErr => exact hinj .err (fun i d' tr' b' hm => by cases hm)
  | eof =>
    refine hsame _ ?_
    show mv (liftT c0.s c0.s.t.setEof) = _
    rw [mv_liftT]; rfl
  | setReady b =>
    refine hsame _ ?_
    show mv (liftT c0.s (c0.s.t.setReady b)) = _
    rw [mv_liftT]
    have : (c0.s.t.setReady b).1.inbound = c0.s.t.inbound := wakeIfReady_inbound _
    rw [this]; rfl
  | setFlush b =>
    refine hsame _ ?_
    show mv (liftT c0.s (c0.s.t.setFlush b)) = _
    rw [mv_liftT]
    have : (c0.s.t.setFlush b).1.inbound = c0.s.t.inbound := wakeIfReady_inbound _
    rw [this]; rfl
  | fault k => exact hsame _ (mv_setT c0.s _ (armFault_inbound _ k))
  | faultSkip n => exact hsame _ (mv_setT c0.s _ rfl)
  | selfWake b => exact hsame _ (mv_setT c0.s _ rfl)
  | take n =>
    refine hsame _ ?_
    show mv ((c0.s.t.take n).2.foldl (fun s m => emit s (.took (tid s) m)) { c0.s with t := (c0.s.t.take n).1 }) = _
    rw [mv_took]
    exact mv_setT c0.s _ rfl
  | advance n => exact hsame _ (mv_onAdvance _ _)

/-- a `counts` observation -/
def isCnt : Obs → Bool
  | .counts _ _ _ => true
  | _ => false

theorem isCnt_execQuiet : ExecQuiet isCnt := ⟨⟨⟨fun _ => rfl, rfl, fun _ _ => rfl⟩, fun _ _ => rfl⟩, fun _ _ _ => rfl⟩

theorem CK11_nocounts (b0 : Book) (l : List Obs) (h : l.filter isCnt = []) : CK chk11 b0 l := by
  have : CK chk11 b0 (l ++ []) := CK.append (l := []) trivial l (fun o ho b => by
    refine chk11_other b o (fun k a t hc => ?_)
    have : o ∈ l.filter isCnt := List.mem_filter.mpr ⟨ho, by rw [hc]; rfl⟩
    rw [h] at this; cases this)
  simpa using this

theorem step_limit (b : Book) (e : SEv) : (b.step e).limit = b.limit := by
  cases e with
  | op o =>
    have : b.endOp.limit = b.limit := by unfold Book.endOp; simp only []; (repeat' split) <;> rfl
    cases o <;> exact this
  | obs o =>
    cases o with
    | tNext ep r =>
      rw [step_tNext_eq]
      have hp : (preRead b).limit = b.limit := by
        unfold preRead
        split
        · exact (sweepOne_flags _).1
        · rfl
      cases r with
      | item m =>
        cases m with
        | request id d tr body => exact hp
        | cancel id tr =>
          simp only
          generalize (preRead b).table.reverse.find? (fun p : Nat × Nat => p.1 == id) = o
          cases o with
          | none => exact hp
          | some p => obtain ⟨i, r⟩ := p; exact hp
        | response id res => exact hp
      | pending => exact hp
      | err => exact hp
      | eof => exact hp
    | tReady ep r =>
      simp only [Book.step]
      (repeat' split) <;> rfl
    | tFlush ep r =>
      simp only [Book.step]
      (repeat' split) <;> rfl
    | tSend ep m ok =>
      cases m with
      | response id res => cases ok <;> rfl
      | _ => rfl
    | ret t r =>
      cases t with
      | server k =>
        rw [step_ret_eq]
        cases r <;> (simp only; split <;> rfl)
      | exec v => cases r <;> rfl
      | _ => rfl
    | handler r ev t => cases ev <;> rfl
    | counts ep a c => cases ep <;> rfl
    | _ => rfl

theorem noteFinish_limit (b : Book) (e : SEv) : (b.noteFinish e).limit = b.limit := by
  unfold Book.noteFinish; split <;> rfl

theorem bo_limit (b : Book) (l : List Obs) : (bo b l).limit = b.limit := by
  induction l with
  | nil => rfl
  | cons o l ih => rw [bo_cons, step_limit, ih]

theorem opBook_limit (b : Book) (op : SOp) : (opBook b op).limit = b.limit := by
  unfold opBook; rw [noteFinish_limit, step_limit]

theorem BL_opBook_poll (b : Book) (h : b.limit = none) : BL (opBook b .pollServer) := by
  refine ⟨by rw [opBook_limit]; exact h, ?_, ?_⟩
  · show b.endOp.stalled = false
    unfold Book.endOp; rfl
  · show b.endOp.idleNow = false
    unfold Book.endOp; rfl

/-! ## the invariant between ops, one op, every trace -/

theorem opBook_bw_execs (b : Book) (op : SOp) : (bw (opBook b op)).execs = (bw b.endOp).execs := by
  unfold opBook Book.noteFinish
  have h0 : (bw (b.step (.op op))).execs = (bw b.endOp).execs := by
    show (b.step (.op op)).execs.map wb = _
    rw [step_op_execs]; rfl
  split
  · rw [updExec_wb _ _ _ (fun e => by split <;> rfl)]; exact h0
  · exact h0

theorem opBook_table (b : Book) (op : SOp) : (opBook b op).table = b.endOp.table := by
  unfold opBook Book.noteFinish
  have h0 : (b.step (.op op)).table = b.endOp.table := by cases op <;> rfl
  split
  · exact h0
  · exact h0

theorem opBook_now_ge (b : Book) (op : SOp) : b.endOp.now ≤ (opBook b op).now := by
  unfold opBook Book.noteFinish
  have h0 : b.endOp.now ≤ (b.step (.op op)).now := by
    cases op <;> first | exact Nat.le_refl _ | exact Nat.le_add_right _ _
  split
  · exact h0
  · exact h0

structure OInvY (b : Book) (c : Sys) (rest : List Nat) : Prop where
  t : OInvT b c rest
  blim : b.limit = none
  y : b.spun = true ∨ c.s.poisoned = true ∨ Y c.now none (bw b.endOp) (mv c.s)

theorem op_stepY (hf : ClampFits) {b : Book} {c : Sys} {rest : List Nat} (op : SOp) (h : OInvY b c (opReq op ++ rest))
    (hn : c.now + opAdv op < panicFreeNs) (hnear : NearOp op) :
    OInvY (bo (opBook b op) (applyOp { c with s := { c.s with obs := [] } } op).s.obs) (stepOp c op).1 rest ∧
    CK chk11 (opBook b op) (applyOp { c with s := { c.s with obs := [] } } op).s.obs := by
  have ht' := (op_stepT hf op h.t hn).1
  have hbl' : (bo (opBook b op) (applyOp { c with s := { c.s with obs := [] } } op).s.obs).limit = none := by
    rw [bo_limit, opBook_limit]; exact h.blim
  generalize hc0 : ({ c with s := { c.s with obs := [] } } : Sys) = c0 at ht' hbl' ⊢
  have hobs0 : c0.s.obs = [] := by rw [← hc0]
  have hnow0 : c0.now = c.now := by rw [← hc0]
  have hsv0 : sview c0.s = sview c.s := by rw [← hc0]; rfl
  have hmv0 : mv c0.s = mv c.s := by rw [← hc0]; rfl
  have hpo0 : c0.s.poisoned = c.s.poisoned := by rw [← hc0]
  have hs0 : SInv false c0.now c0.s := by rw [← hc0]; exact h.t.base.sinv.clear_obs
  have hdd0 : DoneDropped c0.s := by rw [← hc0]; exact h.t.base.dd
  have hcfg0 : c0.s.throttleAfterRead = false ∧ c0.s.ensureLoop = false := by
    rw [← hc0]; exact ⟨h.t.base.cfg1, h.t.base.cfg2⟩
  have hl0 : c0.s.limit = none := by rw [← hc0]; exact h.t.lim
  have hq0 : QC c0.now c0.s := by rw [← hc0]; exact h.t.qc.of_timers rfl
  have hstep : (stepOp c op).1 = { applyOp c0 op with s := { (applyOp c0 op).s with obs := [] } } := by
    rw [← hc0]; rfl
  have hnow := applyOp_now c0 op
  rw [hnow0] at hnow
  have hfin : ((bo (opBook b op) (applyOp c0 op).s.obs).spun = true ∨ (applyOp c0 op).s.poisoned = true ∨
      Y (c.now + opAdv op) none (bw (bo (opBook b op) (applyOp c0 op).s.obs).endOp) (mv (applyOp c0 op).s)) →
      OInvY (bo (opBook b op) (applyOp c0 op).s.obs) (stepOp c op).1 rest := by
    intro hy
    refine ⟨ht', hbl', ?_⟩
    rw [hstep]
    show _ ∨ (applyOp c0 op).s.poisoned = true ∨ Y (applyOp c0 op).now none _ (mv (applyOp c0 op).s)
    rw [hnow]; exact hy
  have hspun0 : b.spun = true → ∀ l, (bo (opBook b op) l).spun = true := by
    intro hs l
    have : (bo (opBook b op) []).spun = true := by show (opBook b op).spun = true; rw [opBook_spun]; exact hs
    have := bo_spun_mono (opBook b op) [] l this
    simpa using this
  have hstart : b.spun = true ∨ ∃ pend, (pend = none ∨ c0.s.poisoned = true) ∧
      K (c.now + opAdv op) pend (bview (opBook b op)) (sview c0.s) ∧ X (opReq op ++ rest) (bw (opBook b op)) (mv c0.s) := by
    rcases h.t.base.j with hs | ⟨pend, hpp, hK⟩
    · exact Or.inl hs
    · rcases h.t.x with hs | hX
      · exact Or.inl hs
      · refine Or.inr ⟨pend, by rw [hpo0]; exact hpp, by rw [hsv0]; exact K_opBook op hK, ?_⟩
        rw [hmv0]; exact hX.lx (lx_opBook b op)
  have hystart : b.spun = true ∨ c0.s.poisoned = true ∨ Y (c.now + opAdv op) none (bw (opBook b op)) (mv c0.s) := by
    rcases h.y with hs | hp | hY
    · exact Or.inl hs
    · exact Or.inr (Or.inl (by rw [hpo0]; exact hp))
    · right; right
      rw [hmv0]
      exact hY.advance (opBook_bw_execs b op) (opBook_table b op) (opBook_now_ge b op)
  by_cases hps : op = .pollServer
  · subst hps
    have e : c.now + opAdv SOp.pollServer = c0.now := by rw [hnow0]; rfl
    have hn0 : c0.now < panicFreeNs := by rw [← e]; exact hn
    have hNP : NPY (opBook b .pollServer) c0.now rest c0.s := by
      rcases hstart with hs | ⟨pend, hpp, hK, hX⟩
      · exact Or.inl ⟨⟨Or.inl (by rw [hobs0]; exact hspun0 hs []), by rw [hobs0]; trivial⟩, by rw [hobs0]; trivial,
          Or.inl (by rw [hobs0]; exact hspun0 hs [])⟩
      · have hNN : NN (opBook b .pollServer) c0.now pend rest c0.s :=
          ⟨Or.inr ⟨by rw [hobs0, ← e]; exact hK, by rw [hobs0]; exact hX⟩, by rw [hobs0]; trivial⟩
        rcases hystart with hs | hp | hY
        · exact Or.inl ⟨⟨Or.inl (by rw [hobs0]; exact hspun0 hs []), by rw [hobs0]; trivial⟩, by rw [hobs0]; trivial,
            Or.inl (by rw [hobs0]; exact hspun0 hs [])⟩
        · exact Or.inr ⟨hp, by rw [hobs0]; trivial, pend, hNN⟩
        · rcases hpp with rfl | hpo
          · exact Or.inl ⟨hNN, by rw [hobs0]; trivial, Or.inr (by rw [hobs0, ← e]; exact hY)⟩
          · exact Or.inr ⟨hpo, by rw [hobs0]; trivial, pend, hNN⟩
    have hfinal := NY_pollServer hf hn0 hobs0 hs0 hq0 hdd0 hNP (BL_opBook_poll b h.blim) hl0 hcfg0.1 hcfg0.2
    have hcd : (bo (opBook b .pollServer) (pollServer c0.s c0.now).obs).curDropExec = none := by
      rw [bo_curDropExec, opBook_cd]
    rcases hfinal with hny | ⟨hpo, hck, _⟩
    · refine ⟨hfin ?_, hny.ck⟩
      rcases hny.y with hs | hY
      · exact Or.inl hs
      · right; right
        show Y (c.now + opAdv SOp.pollServer) none (bw (bo (opBook b .pollServer) (pollServer c0.s c0.now).obs).endOp)
          (mv (pollServer c0.s c0.now))
        rw [bw_endOp_none _ hcd, e]; exact hY
    · exact ⟨hfin (Or.inr (Or.inl hpo)), hck⟩
  · have hnoc : CK chk11 (opBook b op) (applyOp c0 op).s.obs := by
      apply CK11_nocounts
      rw [fx_applyOp isCnt_execQuiet c0 op hps, hobs0]; rfl
    refine ⟨hfin ?_, hnoc⟩
    rcases hstart with hs | ⟨pend, hpp, hK, hX⟩
    · exact Or.inl (hspun0 hs _)
    · rcases hystart with hs | hp | hY
      · exact Or.inl (hspun0 hs _)
      · exact Or.inr (Or.inl (by rw [applyOp_poisoned c0 op hps]; exact hp))
      · by_cases hds : op = .dropServer
        · subst hds
          -- not poisoned: nothing is pending
          by_cases hpoi : c0.s.poisoned = true
          · exact Or.inr (Or.inl (by rw [applyOp_poisoned c0 .dropServer hps]; exact hpoi))
          · have hpn : pend = none := by
              rcases hpp with h1 | h1
              · exact h1
              · exact absurd h1 hpoi
            subst hpn
            have hNY : NY (opBook b .dropServer) (c.now + opAdv .dropServer) none rest c0.s :=
              ⟨⟨Or.inr ⟨by rw [hobs0]; exact hK, by rw [hobs0]; exact hX⟩, by rw [hobs0]; trivial⟩, by rw [hobs0]; trivial,
                Or.inr (by rw [hobs0]; exact hY)⟩
            have hd : (bo (opBook b .dropServer) c0.s.obs).spun = true ∨ (bo (opBook b .dropServer) c0.s.obs).dropped = true := by
              rw [hobs0]; exact Or.inr (opBook_dropped b)
            have hr := NY_dropServer hNY hd
            have hcd : (bo (opBook b .dropServer) (dropServer c0.s).obs).curDropExec = none := by
              rw [bo_curDropExec, opBook_cd]
            rcases hr.y with hs | hY'
            · exact Or.inl hs
            · right; right
              show Y (c.now + opAdv SOp.dropServer) none (bw (bo (opBook b .dropServer) (dropServer c0.s).obs).endOp)
                (mv (dropServer c0.s))
              rw [bw_endOp_none _ hcd]; exact hY'
        · by_cases hpe : ∃ v, op = .pollExec v
          · obtain ⟨v, rfl⟩ := hpe
            exact Or.inr (Or.inr (Y_pollExec v c0.now hobs0 (by rw [opBook_cd]) hK hX hY))
          · by_cases hde : ∃ v, op = .dropExec v
            · obtain ⟨v, rfl⟩ := hde
              exact Or.inr (Or.inr (Y_dropExec v c0.now hobs0 (by rw [opBook_cd]) hK hX hY))
            · have h3 : ∀ v, op ≠ .pollExec v := fun v hv => hpe ⟨v, hv⟩
              have h4 : ∀ v, op ≠ .dropExec v := fun v hv => hde ⟨v, hv⟩
              have hY1 := Y_applyOp_ext c0 op hps hds h3 h4 hnear hY
              have hext : Ext c0.s (applyOp c0 op).s := ext_of_nil hobs0 (fx_applyOp isCore_execQuiet c0 op hps)
              have hflt : Flt isOut c0.s (applyOp c0 op).s := fx_applyOp_wake isOut_wakeQuiet c0 op hps h3 h4
              have hcd : (bo (opBook b op) (applyOp c0 op).s.obs).curDropExec = none := by
                rw [bo_curDropExec, opBook_cd]
                cases op <;> first | rfl | exact absurd ⟨_, rfl⟩ hde
              rcases bo_extW (opBook b op) (extW_of hext hflt) with hs | ⟨_, _, hle⟩
              · exact Or.inl hs
              · right; right
                rw [bw_endOp_none _ hcd]
                rw [hobs0] at hle
                exact hY1.le hle

def NearOps (ops : List SOp) : Prop := ∀ op ∈ ops, NearOp op

theorem chk11_eq : chk11 = chkOf checkC11Idle := rfl

/-- **The stalled-limiter and idle-channel clauses of the C11 monitor never fire** — from any state satisfying the
invariant, for scripts that stay below the clock bound and whose deadlines lie within the clamp horizon. -/
theorem c11i_trace (hf : ClampFits) (ops : List SOp) : ∀ (c : Sys) (m : Mon Unit), m.bad = none →
    OInvY m.book c (reqIds ops) → c.now + advSum ops < panicFreeNs → NearOps ops →
    ((trace c ops).foldl (Mon.step checkC11Idle) m).bad = none := by
  induction ops with
  | nil => intro c m hb _ _ _; exact hb
  | cons op ops ih =>
    intro c m hb hI hT hnear
    rw [advSum_cons] at hT
    obtain ⟨hI', hck⟩ := op_stepY hf op (rest := reqIds ops) hI (by omega) (hnear op (List.mem_cons_self ..))
    have htr : trace c (op :: ops) = SEv.op op :: ((stepOp c op).2.map SEv.obs ++ trace (stepOp c op).1 ops) := rfl
    rw [htr, List.foldl_cons, List.foldl_append, List.foldl_map]
    have hb1 : (Mon.step checkC11Idle m (.op op)).bad = none := monG_step_bad _ m _ hb (Or.inr rfl)
    have hbk1 : (Mon.step checkC11Idle m (.op op)).book = opBook m.book op := monG_step_book _ m _
    have hos : (stepOp c op).2 = (applyOp { c with s := { c.s with obs := [] } } op).s.obs.reverse := rfl
    rw [hos]
    have hm2 : (mobsG checkC11Idle (Mon.step checkC11Idle m (.op op))
        (applyOp { c with s := { c.s with obs := [] } } op).s.obs.reverse).bad = none :=
      mobsG_ok _ _ _ hb1 (by rw [hbk1]; exact hck)
    have hbk2 : (mobsG checkC11Idle (Mon.step checkC11Idle m (.op op))
        (applyOp { c with s := { c.s with obs := [] } } op).s.obs.reverse).book =
        bo (opBook m.book op) (applyOp { c with s := { c.s with obs := [] } } op).s.obs := by
      rw [mobsG_book, hbk1, bo_eq_foldl]
    have hnow' : (stepOp c op).1.now = c.now + opAdv op := applyOp_now _ op
    have hI2 : OInvY (mobsG checkC11Idle (Mon.step checkC11Idle m (.op op))
        (applyOp { c with s := { c.s with obs := [] } } op).s.obs.reverse).book (stepOp c op).1 (reqIds ops) := by
      rw [hbk2]; exact hI'
    exact ih (stepOp c op).1 (mobsG checkC11Idle (Mon.step checkC11Idle m (.op op))
        (applyOp { c with s := { c.s with obs := [] } } op).s.obs.reverse) hm2 hI2 (by rw [hnow']; omega)
      (fun op' ho' => hnear op' (List.mem_cons_of_mem _ ho'))

theorem Y_init (limit : Option Nat) (respCap tcap : Nat) (coupled : Bool) :
    Y 0 none (bw ({ limit := limit } : Book).endOp) (mv (initSys limit respCap tcap coupled).s) := by
  refine ⟨fun a ha => (by cases ha), fun a ha => (by cases ha), fun a ha => (by cases ha), fun r i hp => (by cases hp),
    fun a ha => (by cases ha), fun a ha => (by cases ha), fun i d tr b hm => (by cases hm), fun a ha => (by cases ha),
    fun _ a ha => (by cases ha), fun _ p hp => (by cases hp)⟩

theorem oinvY_init (respCap tcap : Nat) (coupled : Bool) (rest : List Nat) (h : rest.Nodup) :
    OInvY ({ limit := none } : Book) (initSys none respCap tcap coupled) rest :=
  ⟨oinvT_init none respCap tcap coupled rest h rfl, rfl, Or.inr (Or.inr (Y_init none respCap tcap coupled))⟩

theorem c11_idle_accepts (hf : ClampFits) (respCap tcap : Nat) (coupled : Bool) (ops : List SOp)
    (hT : advSum ops < panicFreeNs) (hd : DistinctIds ops) (hnear : NearOps ops) :
    (Mon.run none checkC11Idle () (trace (initSys none respCap tcap coupled) ops)).bad = none :=
  c11i_trace hf ops _ _ rfl (oinvY_init respCap tcap coupled _ hd) (by
    show 0 + advSum ops < panicFreeNs
    omega) hnear

end TarpcModel.Server.Tab

import TarpcModel.Lemmas.Chain
/-
The monitor of the `chain` family accepts every trace of the model: lemmas.
(`Props/C18Chain.lean` states the theorem.)
-/
namespace TarpcModel.Chain

/-! ### `updHop` at a known position -/

theorem updHop_at (f : Hop → Option Hop) (pre : List Hop) (hp : Hop) (suf : List Hop) :
    updHop f (pre.length + 1) (pre ++ hp :: suf) = (f hp).map (fun x => pre ++ x :: suf) := by
  induction pre with
  | nil => simp [updHop]
  | cons p pre ih =>
    simp only [List.length_cons, List.cons_append, updHop]
    rw [if_neg (by omega), ih, Option.map_map]
    rfl

/-! ### The monitor restricted to one call -/

def obsCallFold (seen : List Span) (cl : Call) : List Obs → Option (Call × List Span)
  | [] => some (cl, seen)
  | o :: os =>
    match obsCall seen cl o with
    | none => none
    | some cl' => obsCallFold (seen ++ o.spans) cl' os

theorem obsCallFold_append (seen : List Span) (cl : Call) (a b : List Obs) :
    obsCallFold seen cl (a ++ b) = (obsCallFold seen cl a).bind (fun r => obsCallFold r.2 r.1 b) := by
  induction a generalizing seen cl with
  | nil => simp [obsCallFold]
  | cons o os ih =>
    simp only [List.cons_append, obsCallFold]
    split
    · simp
    · exact ih _ _

theorem below_not_contains {k : Nat} {seen : List Span} (h : Below k seen) {j : Nat} (hj : k ≤ j) :
    Span.fresh j ∉ seen := by
  intro hm
  obtain ⟨j', hj', e⟩ := h _ hm
  injection e with e
  omega

theorem below_append {k : Nat} {seen : List Span} (h : Below k seen) (j : Nat) (hj : j < k) :
    Below k (seen ++ [Span.fresh j]) := by
  intro sp hm
  rcases List.mem_append.mp hm with hm | hm
  · exact h sp hm
  · simp only [List.mem_singleton] at hm
    exact ⟨j, hj, hm⟩

/-- A request line for a blank hop. -/
theorem obsCall_wireReq (seen : List Span) (cl : Call) (pre suf : List Hop) (hh : cl.hops = pre ++ {} :: suf)
    (hph : cl.phase = .fresh ∨ cl.phase = .finishing) (t : Trace) (ht : Agrees cl.ctx t)
    (j : Nat) (hsp : t.span = .fresh j) (hj : Span.fresh j ∉ seen) :
    obsCall seen cl (.wireReq (pre.length + 1) cl.id t cl.deadline) =
      some { cl with hops := pre ++ { req := some t } :: suf } := by
  have h1 : sameTrace cl t = true := by simp [sameTrace, ht.1, ht.2]
  have h2 : freshSpan seen t.span = true := by simp [freshSpan, hsp, isFresh, hj]
  have h3 : (cl.phase == .fresh || cl.phase == .finishing) = true := by
    rcases hph with h | h <;> simp [h]
  simp only [obsCall, h1, h2, h3, beq_self_eq_true, Bool.and_self, ↓reduceIte, hh, updHop_at]
  simp [setHops]

/-- A handler line for a hop whose request was written. -/
theorem obsCall_handler (seen : List Span) (cl : Call) (pre suf : List Hop) (rq : Trace)
    (hh : cl.hops = pre ++ { req := some rq } :: suf)
    (hph : cl.phase = .fresh ∨ cl.phase = .finishing) (t : Trace) (ht : Agrees cl.ctx t)
    (j : Nat) (hsp : t.span = .fresh j) (hj : Span.fresh j ∉ seen) :
    obsCall seen cl (.handler (pre.length + 1) cl.id t cl.deadline) =
      some { cl with hops := pre ++ { req := some rq, seen := some t, cancel := none, h := .running } :: suf } := by
  have h1 : sameTrace cl t = true := by simp [sameTrace, ht.1, ht.2]
  have h2 : freshSpan seen t.span = true := by simp [freshSpan, hsp, isFresh, hj]
  have h3 : (cl.phase == .fresh || cl.phase == .finishing) = true := by
    rcases hph with h | h <;> simp [h]
  simp only [obsCall, h1, h2, h3, beq_self_eq_true, Bool.and_self, ↓reduceIte, hh, updHop_at]
  simp [setHops]

theorem set_hops_self (cl : Call) (l : List Hop) (h : cl.hops = l) : { cl with hops := l } = cl := by
  subst h; rfl

/-- The monitor follows `extend`. -/
theorem fold_extend (upto : Nat) (suf : List Hop) :
    ∀ (cl : Call) (pre : List Hop) (seen : List Span) (k : Nat) (p : Trace),
      cl.hops = pre ++ suf → (cl.phase = .fresh ∨ cl.phase = .finishing) → Live suf →
      (∀ x ∈ suf, HopTr cl.ctx x) → Agrees cl.ctx p → Below k seen →
      ∃ seen', obsCallFold seen cl (extend cl.id cl.deadline upto (pre.length + 1) p k suf).2.1 =
          some ({ cl with hops := pre ++ (extend cl.id cl.deadline upto (pre.length + 1) p k suf).1 }, seen') ∧
        Below (extend cl.id cl.deadline upto (pre.length + 1) p k suf).2.2 seen' := by
  induction suf with
  | nil =>
    intro cl pre seen k p hh _ _ _ _ hb
    refine ⟨seen, ?_, by simpa [extend] using hb⟩
    simp only [extend, obsCallFold]
    rw [set_hops_self cl _ hh]
  | cons hp rest ih =>
    intro cl pre seen k p hh hph hl htr hp' hb
    have hrest : ∀ x ∈ rest, HopTr cl.ctx x := fun x hx => htr x (by simp [hx])
    simp only [extend]
    split
    · refine ⟨seen, ?_, hb⟩
      simp only [obsCallFold]
      rw [set_hops_self cl _ hh]
    · split
      · next hr hs =>
        have hlr : Live rest := by
          rcases hl with ⟨_, _, _, _, h5⟩ | ⟨h1, _⟩
          · exact h5
          · rw [h1] at hr; simp at hr
        have := ih cl (pre ++ [hp]) seen k _ (by simp [hh]) hph hlr hrest ((htr hp (by simp)).seen _ hs) hb
        simpa using this
      · next hn =>
        have hblank : hp = {} ∧ AllBlank rest := by
          rcases hl with ⟨h1, _⟩ | h2
          · rw [h1] at hn; simp at hn
          · exact h2
        obtain ⟨hp0, hbl⟩ := hblank
        subst hp0
        have a1 := agrees_newChild hp' k
        have a2 := agrees_newChild a1 (k + 1)
        have s1 := obsCall_wireReq seen cl pre rest hh hph (newChild p k) a1 k rfl (below_not_contains hb (Nat.le_refl k))
        have hb1 : Below (k + 1) (seen ++ [Span.fresh k]) := below_append (hb.mono (by omega)) k (by omega)
        have s2 := obsCall_handler (seen ++ [Span.fresh k])
          { cl with hops := pre ++ { req := some (newChild p k) } :: rest } pre rest (newChild p k) rfl hph
          (newChild (newChild p k) (k + 1)) a2 (k + 1) rfl (below_not_contains hb1 (Nat.le_refl _))
        have hb2 : Below (k + 2) (seen ++ [Span.fresh k] ++ [Span.fresh (k + 1)]) :=
          below_append (hb1.mono (by omega)) (k + 1) (by omega)
        obtain ⟨seen', h1, h2⟩ := ih
          { cl with hops := pre ++ { req := some (newChild p k), seen := some (newChild (newChild p k) (k + 1)),
                                       cancel := none, h := .running } :: rest }
          (pre ++ [{ req := some (newChild p k), seen := some (newChild (newChild p k) (k + 1)),
                     cancel := none, h := .running }])
          (seen ++ [Span.fresh k] ++ [Span.fresh (k + 1)]) (k + 2) (newChild (newChild p k) (k + 1))
          (by simp) hph (allBlank_live hbl) hrest a2 hb2
        refine ⟨seen', ?_, by simpa using h2⟩
        simp only [obsCallFold, s1, Obs.spans]
        simp only [newChild] at s2 ⊢
        rw [s2]
        simp only [List.length_append, List.length_cons, List.length_nil, Nat.zero_add, List.append_assoc,
          List.cons_append, List.nil_append, newChild] at h1
        simpa using h1
      · refine ⟨seen, ?_, hb⟩
        show obsCallFold seen cl [] = some ({ cl with hops := pre ++ hp :: rest }, seen)
        rw [set_hops_self cl _ hh]
        rfl

/-- The monitor follows `cascade`. -/
theorem fold_cascade (suf : List Hop) :
    ∀ (cl : Call) (pre : List Hop) (seen : List Span),
      cl.hops = pre ++ suf → cl.phase = .abandoning → Live suf →
      obsCallFold seen cl (cascade cl.id (pre.length + 1) suf).2 =
        some ({ cl with hops := pre ++ (cascade cl.id (pre.length + 1) suf).1 }, seen) := by
  induction suf with
  | nil =>
    intro cl pre seen hh _ _
    simp only [cascade, obsCallFold]
    rw [set_hops_self cl _ hh]
  | cons hp rest ih =>
    intro cl pre seen hh hph hl
    simp only [cascade]
    split
    · next rq hr hq =>
      have hl' : hp.cancel = none ∧ Live rest := by
        rcases hl with ⟨_, _, _, h4, h5⟩ | ⟨h1, _⟩
        · exact ⟨h4, h5⟩
        · rw [h1] at hr; simp at hr
      have s1 : obsCall seen cl (.wireCancel (pre.length + 1) cl.id rq) =
          some { cl with hops := pre ++ { hp with cancel := some rq } :: rest } := by
        simp only [obsCall, hph, beq_self_eq_true, ↓reduceIte, hh, updHop_at]
        simp [setHops, hq, hl'.1, hr, hph]
      have s2 : obsCall seen { cl with hops := pre ++ { hp with cancel := some rq } :: rest }
          (.dropped (pre.length + 1) cl.id) =
          some { cl with hops := pre ++ { hp with cancel := some rq, h := .dropped } :: rest } := by
        simp only [obsCall, hph, beq_self_eq_true, ↓reduceIte, updHop_at]
        simp [setHops, hr]
      have := ih { cl with hops := pre ++ { hp with cancel := some rq, h := .dropped } :: rest }
        (pre ++ [{ hp with cancel := some rq, h := .dropped }]) seen (by simp) hph hl'.2
      simp only [obsCallFold, s1, s2, Obs.spans, List.append_nil]
      simpa using this
    · show obsCallFold seen cl [] = some ({ cl with hops := pre ++ hp :: rest }, seen)
      rw [set_hops_self cl _ hh]
      rfl

/-- The monitor follows `complete`. -/
theorem fold_complete (suf : List Hop) :
    ∀ (cl : Call) (pre : List Hop) (seen : List Span),
      cl.hops = pre ++ suf → cl.phase = .finishing →
      obsCallFold seen cl (complete cl.id (pre.length + 1) suf).2 =
        some ({ cl with hops := pre ++ (complete cl.id (pre.length + 1) suf).1 }, seen) := by
  induction suf with
  | nil =>
    intro cl pre seen hh _
    simp only [complete, obsCallFold]
    rw [set_hops_self cl _ hh]
  | cons hp rest ih =>
    intro cl pre seen hh hph
    have := ih cl (pre ++ [hp]) seen (by simp [hh]) hph
    simp only [List.length_append, List.length_cons, List.length_nil, Nat.zero_add, List.append_assoc,
      List.cons_append, List.nil_append] at this
    simp only [complete]
    split
    · next hr =>
      rw [obsCallFold_append, this]
      simp only [Option.bind_some, obsCallFold]
      have s1 : obsCall seen { cl with hops := pre ++ hp :: (complete cl.id (pre.length + 1 + 1) rest).1 }
          (.completed (pre.length + 1) cl.id) =
          some { cl with hops := pre ++ { hp with h := .completed } :: (complete cl.id (pre.length + 1 + 1) rest).1 } := by
        simp only [obsCall, hph, beq_self_eq_true, ↓reduceIte, updHop_at]
        simp [setHops, hr]
      rw [s1]
      simp [Obs.spans]
    · exact this

theorem anyRunning_false {l : List Hop} (h : NoRunning l) : anyRunning l = false := by
  simp only [anyRunning, List.any_eq_false, beq_iff_eq]
  exact fun hp hm => h hp hm

/-- The monitor follows `refuse`. -/
theorem fold_refuse (cl : Call) (seen : List Span) (k : Nat) (hph : cl.phase = .fresh) (hb : AllBlank cl.hops)
    (hs : Below k seen) :
    ∃ seen', obsCallFold seen cl (refuse cl.id cl.deadline cl.ctx k cl.hops).2.1 =
        some ({ cl with phase := .refused, hops := (refuse cl.id cl.deadline cl.ctx k cl.hops).1 }, seen') ∧
      Below (refuse cl.id cl.deadline cl.ctx k cl.hops).2.2 seen' := by
  cases hh : cl.hops with
  | nil =>
    refine ⟨seen, ?_, by simpa [refuse] using hs⟩
    simp only [refuse, obsCallFold, obsCall, hph, hh, anyRunning, Obs.spans]
    simp
  | cons hp rest =>
    have h0 : hp = {} := hb hp (by simp [hh])
    have hr : AllBlank rest := fun x hx => hb x (by simp [hh, hx])
    subst h0
    have s1 := obsCall_wireReq seen cl [] rest (by simpa using hh) (Or.inl hph) (newChild cl.ctx k)
      (agrees_newChild (agrees_refl _) k) k rfl (below_not_contains hs (Nat.le_refl k))
    refine ⟨seen ++ [Span.fresh k], ?_, by
      simp only [refuse]; exact below_append (hs.mono (by omega)) k (by omega)⟩
    simp only [List.length_nil, Nat.zero_add, List.nil_append] at s1
    have hnr : anyRunning ({ req := some (newChild cl.ctx k) } :: rest) = false := by
      apply anyRunning_false
      intro x hx
      rcases List.mem_cons.mp hx with e | hx
      · rw [e]; simp
      · rw [hr x hx]; simp
    have s2 : ∀ sn, obsCall sn { cl with hops := { req := some (newChild cl.ctx k) } :: rest }
        (.outcomeRefused cl.id) =
        some { cl with phase := .refused, hops := { req := some (newChild cl.ctx k) } :: rest } := by
      intro sn
      simp [obsCall, hph, hnr]
    simp only [refuse, obsCallFold]
    rw [s1]
    simp only []
    rw [s2]
    simp [Obs.spans, newChild]

/-! ### Every event of a call's share of a run names that call -/

theorem extend_obs_call (c dl upto i : Nat) (p : Trace) (k : Nat) (l : List Hop) :
    ∀ o ∈ (extend c dl upto i p k l).2.1, o.call = some c := by
  induction l generalizing i p k with
  | nil => simp [extend]
  | cons hp rest ih =>
    simp only [extend]
    split
    · simp
    · split
      · exact ih _ _ _
      · intro o ho
        simp only [List.mem_cons] at ho
        rcases ho with e | e | ho
        · rw [e]; rfl
        · rw [e]; rfl
        · exact ih _ _ _ o ho
      · simp

theorem cascade_obs_call (c i : Nat) (l : List Hop) : ∀ o ∈ (cascade c i l).2, o.call = some c := by
  induction l generalizing i with
  | nil => simp [cascade]
  | cons hp rest ih =>
    simp only [cascade]
    split
    · intro o ho
      simp only [List.mem_cons] at ho
      rcases ho with e | e | ho
      · rw [e]; rfl
      · rw [e]; rfl
      · exact ih _ o ho
    · simp

theorem complete_obs_call (c i : Nat) (l : List Hop) : ∀ o ∈ (complete c i l).2, o.call = some c := by
  induction l generalizing i with
  | nil => simp [complete]
  | cons hp rest ih =>
    simp only [complete]
    split
    · intro o ho
      rcases List.mem_append.mp ho with ho | ho
      · exact ih _ o ho
      · simp only [List.mem_singleton] at ho; rw [ho]; rfl
    · exact ih _

theorem runCall_obs_call (depth : Nat) (limit : Option Nat) (cnt k : Nat) (cl : Call) :
    ∀ o ∈ (runCall depth limit cnt k cl).2.1, o.call = some cl.id := by
  unfold runCall
  split
  · split
    · intro o ho
      cases hh : cl.hops with
      | nil => simp only [hh, refuse, List.mem_singleton] at ho; rw [ho]; rfl
      | cons hp rest =>
        simp only [hh, refuse, List.mem_cons, List.not_mem_nil, or_false] at ho
        rcases ho with e | e <;> (rw [e]; rfl)
    · exact extend_obs_call _ _ _ _ _ _ _
  · intro o ho
    simp only [List.mem_append, List.mem_singleton] at ho
    rcases ho with (ho | ho) | ho
    · exact extend_obs_call _ _ _ _ _ _ _ o ho
    · exact complete_obs_call _ _ _ o ho
    · rw [ho]; rfl
  · exact cascade_obs_call _ _ _
  · simp

/-- The monitor follows one call's share of a run; what it holds at the end differs from the model's
call only by the phase change the monitor makes at the end of the run. -/
theorem fold_runCall (depth : Nat) (limit : Option Nat) (cnt k : Nat) (cl : Call) (hok : CallOK depth k cl)
    (seen : List Span) (hs : Below k seen) :
    ∃ cl'' seen', obsCallFold seen cl (runCall depth limit cnt k cl).2.1 = some (cl'', seen') ∧
      endCall cl'' = some (runCall depth limit cnt k cl).1 ∧
      Below (runCall depth limit cnt k cl).2.2.1 seen' := by
  unfold runCall
  split
  · next hf =>
    have hb := hok.fresh hf
    split
    · obtain ⟨seen', h1, h2⟩ := fold_refuse cl seen k hf hb hs
      exact ⟨_, seen', h1, by simp [endCall], h2⟩
    · obtain ⟨seen', h1, h2⟩ := fold_extend cl.stop cl.hops cl [] seen k cl.ctx (by simp) (Or.inl hf)
        (allBlank_live hb) hok.tr (agrees_refl _) hs
      exact ⟨_, seen', h1, by simp [endCall, hf], h2⟩
  · next hf =>
    have hl := hok.live (Or.inr (Or.inl hf))
    obtain ⟨seen', h1, h2⟩ := fold_extend depth cl.hops cl [] seen k cl.ctx (by simp) (Or.inr hf)
      hl hok.tr (agrees_refl _) hs
    simp only [List.length_nil, Nat.zero_add, List.nil_append] at h1 h2
    have h3 := fold_complete (extend cl.id cl.deadline depth 1 cl.ctx k cl.hops).1
      { cl with hops := (extend cl.id cl.deadline depth 1 cl.ctx k cl.hops).1 } [] seen' (by simp) hf
    simp only [List.length_nil, Nat.zero_add, List.nil_append] at h3
    refine ⟨{ cl with phase := .done,
                      hops := (complete cl.id 1 (extend cl.id cl.deadline depth 1 cl.ctx k cl.hops).1).1 },
            seen', ?_, by simp [endCall], h2⟩
    rw [obsCallFold_append, obsCallFold_append, h1]
    simp only [Option.bind_some]
    rw [h3]
    simp only [Option.bind_some, obsCallFold]
    have hnr := anyRunning_false (complete_noRunning cl.id 1 (extend cl.id cl.deadline depth 1 cl.ctx k cl.hops).1)
    simp [obsCall, hf, hnr, Obs.spans]
  · next hf =>
    have hl := hok.live (Or.inr (Or.inr hf))
    have h1 := fold_cascade cl.hops cl [] seen (by simp) hf hl
    simp only [List.length_nil, Nat.zero_add, List.nil_append] at h1
    refine ⟨_, seen, h1, ?_, hs⟩
    have hnr : anyRunning (cascade cl.id 1 cl.hops).1 = false := by
      apply anyRunning_false
      intro hp hm
      rcases cascade_dead cl.id 1 cl.hops hl hp hm with h | h <;> simp [h]
    simp [endCall, hf, hnr]
  · next h1 h2 h3 =>
    refine ⟨cl, seen, rfl, ?_, hs⟩
    simp only [endCall]

/-! ### Lifting the per-call fold to the monitor state -/

theorem setHops_id {cl cl' : Call} {hs : Option (List Hop)} (h : setHops cl hs = some cl') : cl'.id = cl.id := by
  cases hs with
  | none => simp [setHops] at h
  | some l => simp only [setHops, Option.map_some, Option.some.injEq] at h; subst h; rfl

theorem obsCall_id {seen : List Span} {cl cl' : Call} {o : Obs} (h : obsCall seen cl o = some cl') :
    cl'.id = cl.id := by
  cases o <;> simp only [obsCall] at h
  all_goals first
    | (split at h
       · first | exact setHops_id h | (injection h with h; subst h; rfl)
       · simp at h)
    | simp at h

theorem findCall_at {pre rest : List Call} {cl : Call} (hpre : cl.id ∉ pre.map (·.id)) :
    findCall cl.id (pre ++ cl :: rest) = some cl := by
  induction pre with
  | nil => simp [findCall]
  | cons x pre ih =>
    simp only [List.map_cons, List.mem_cons, not_or] at hpre
    simp only [List.cons_append, findCall]
    rw [if_neg (fun e => hpre.1 e.symm)]
    exact ih hpre.2

theorem updCall_notin {c : Nat} {f : Call → Call} {l : List Call} (h : c ∉ l.map (·.id)) :
    updCall c f l = l := by
  induction l with
  | nil => rfl
  | cons x l ih =>
    simp only [List.map_cons, List.mem_cons, not_or] at h
    simp only [updCall]
    rw [if_neg (fun e => h.1 e.symm), ih h.2]

theorem updCall_at {pre rest : List Call} {cl : Call} (f : Call → Call)
    (hpre : cl.id ∉ pre.map (·.id)) (hrest : cl.id ∉ rest.map (·.id)) :
    updCall cl.id f (pre ++ cl :: rest) = pre ++ f cl :: rest := by
  induction pre with
  | nil => simp [updCall, updCall_notin hrest]
  | cons x pre ih =>
    simp only [List.map_cons, List.mem_cons, not_or] at hpre
    simp only [List.cons_append, updCall]
    rw [if_neg (fun e => hpre.1 e.symm), ih hpre.2]

theorem monObs_run {m : MonSt} {o : Obs} {c : Nat} (hok : m.ok = true) (hp : m.pending = some .run)
    (hc : o.call = some c) : monObs m o = monObsRun m o := by
  cases o <;> simp_all [monObs, Obs.call]

theorem foldl_monObs_call (obs : List Obs) :
    ∀ (m : MonSt) (cl : Call) (pre rest : List Call), m.ok = true → m.pending = some .run →
      m.calls = pre ++ cl :: rest → cl.id ∉ pre.map (·.id) → cl.id ∉ rest.map (·.id) →
      (∀ o ∈ obs, o.call = some cl.id) →
      ∀ cl' seen', obsCallFold m.seen cl obs = some (cl', seen') →
        obs.foldl monObs m = { m with calls := pre ++ cl' :: rest, seen := seen' } := by
  induction obs with
  | nil =>
    intro m cl pre rest _ _ hc _ _ _ cl' seen' hf
    simp only [obsCallFold, Option.some.injEq, Prod.mk.injEq] at hf
    obtain ⟨h1, h2⟩ := hf
    subst h1 h2
    cases m
    simp_all
  | cons o os ih =>
    intro m cl pre rest hok hp hc hpre hrest hobs cl' seen' hf
    simp only [obsCallFold] at hf
    cases h1 : obsCall m.seen cl o with
    | none => rw [h1] at hf; simp at hf
    | some cl1 =>
      rw [h1] at hf
      simp only [] at hf
      have hid := obsCall_id h1
      have hstep : monObs m o = { m with calls := pre ++ cl1 :: rest, seen := m.seen ++ o.spans } := by
        rw [monObs_run hok hp (hobs o (by simp))]
        simp only [monObsRun, hobs o (by simp), hc, findCall_at hpre, h1, updCall_at _ hpre hrest]
      simp only [List.foldl_cons, hstep]
      have := ih { m with calls := pre ++ cl1 :: rest, seen := m.seen ++ o.spans } cl1 pre rest hok hp rfl
        (by rw [hid]; exact hpre) (by rw [hid]; exact hrest)
        (fun o' ho' => by rw [hid]; exact hobs o' (by simp [ho'])) cl' seen' hf
      rw [this]

theorem endCall_id {cl cl' : Call} (h : endCall cl = some cl') : cl'.id = cl.id := by
  simp only [endCall] at h
  split at h
  · injection h with h; subst h; rfl
  · split at h
    · simp at h
    · injection h with h; subst h; rfl
  · simp at h
  · injection h with h; subst h; rfl

/-- The monitor follows a whole `run`. -/
theorem foldl_runCalls (depth : Nat) (limit : Option Nat) (rest : List Call) :
    ∀ (m : MonSt) (pre : List Call) (cnt k : Nat), m.ok = true → m.pending = some .run →
      m.calls = pre ++ rest → ((pre ++ rest).map (·.id)).Nodup →
      (∀ cl ∈ rest, CallOK depth k cl) → Below k m.seen →
      ∃ rest'' seen',
        (runCalls depth limit cnt k rest).2.1.foldl monObs m = { m with calls := pre ++ rest'', seen := seen' } ∧
        endCalls rest'' = some (runCalls depth limit cnt k rest).1 ∧
        Below (runCalls depth limit cnt k rest).2.2 seen' := by
  induction rest with
  | nil =>
    intro m pre cnt k _ _ hc _ _ hb
    refine ⟨[], m.seen, ?_, rfl, hb⟩
    simp only [runCalls, List.foldl_nil]
    cases m
    simp_all
  | cons cl rest ih =>
    intro m pre cnt k hok hp hc hnd hcl hb
    have hnd' : cl.id ∉ pre.map (·.id) ∧ cl.id ∉ rest.map (·.id) := by
      simp only [List.map_append, List.map_cons] at hnd
      rw [List.nodup_append] at hnd
      obtain ⟨_, h2, h3⟩ := hnd
      simp only [List.nodup_cons] at h2
      exact ⟨fun hm => h3 _ hm _ (by simp) rfl, h2.1⟩
    obtain ⟨cl'', seen1, f1, f2, f3⟩ := fold_runCall depth limit cnt k cl (hcl cl (by simp)) m.seen hb
    have hid : cl''.id = cl.id := by
      have := endCall_id f2
      rw [(runCall_id depth limit cnt k cl).1] at this
      exact this.symm
    have hm1 := foldl_monObs_call (runCall depth limit cnt k cl).2.1 m cl pre rest hok hp hc hnd'.1 hnd'.2
      (runCall_obs_call depth limit cnt k cl) cl'' seen1 f1
    obtain ⟨rest'', seen', g1, g2, g3⟩ := ih { m with calls := pre ++ cl'' :: rest, seen := seen1 }
      (pre ++ [cl'']) (runCall depth limit cnt k cl).2.2.2 (runCall depth limit cnt k cl).2.2.1 hok hp (by simp)
      (by
        simp only [List.map_append, List.map_cons, List.append_assoc, List.cons_append,
          List.nil_append, hid]
        simpa using hnd)
      (fun x hx => (hcl x (by simp [hx])).mono (runCall_next_ge ..)) f3
    refine ⟨cl'' :: rest'', seen', ?_, ?_, g3⟩
    · simp only [runCalls, List.foldl_append, hm1, g1]
      simp
    · simp only [runCalls, endCalls, f2, g2]

/-! ### The monitor and the model, op by op -/

/-- After taking its pending op into account, the monitor's reconstruction is the model's state. -/
structure Coupled (s : St) (m : MonSt) : Prop where
  ok : (closeOut m).ok = true
  calls : (closeOut m).calls = s.calls
  depth : (closeOut m).depth = s.depth
  seen : Below s.next (closeOut m).seen
  pend : (closeOut m).pending = none

theorem fail_ok (m : MonSt) (w : String) : (m.fail w).ok = false := rfl

theorem closeOut_ok_imp {m : MonSt} (h : (closeOut m).ok = true) : m.ok = true := by
  unfold closeOut at h
  repeat' split at h
  all_goals first | exact h | (simp [MonSt.fail] at h)

theorem closeOut_none {m : MonSt} (h : m.pending = none) : closeOut m = m := by
  simp [closeOut, h]

theorem coupled_of_closed {s : St} {m : MonSt} (hp : m.pending = none) (hok : m.ok = true)
    (hc : m.calls = s.calls) (hd : m.depth = s.depth) (hs : Below s.next m.seen) : Coupled s m := by
  refine ⟨?_, ?_, ?_, ?_, ?_⟩ <;> rw [closeOut_none hp] <;> assumption

theorem abandonPhase_some {s : St} {cl : Call} {ph : Phase} (h : abandonPhase s cl = some ph) :
    (cl.phase = .fresh ∧ ph = .dead) ∨ (cl.phase = .waiting ∧ ph = .abandoning) := by
  simp only [abandonPhase] at h
  split at h
  · next hf => injection h with h; exact Or.inl ⟨hf, h.symm⟩
  · next hw =>
    split at h
    · simp at h
    · injection h with h; exact Or.inr ⟨hw, h.symm⟩
  · simp at h

theorem step_closed (s : St) (m0 : MonSt) (op : Op) (hinv : Inv s) (_cpend : m0.pending = none)
    (cok : m0.ok = true) (ccalls : m0.calls = s.calls) (cdepth : m0.depth = s.depth)
    (cseen : Below s.next m0.seen) :
    Coupled (step s op).1 ((step s op).2.foldl monObs { m0 with pending := some op }) := by
  -- an op answered `noop` leaves both sides where they were
  have hnoop : op ≠ .run → Coupled s ([Obs.noop].foldl monObs { m0 with pending := some op }) := by
    intro hne
    have : monObs { m0 with pending := some op } .noop = { m0 with pending := none } := by
      cases op <;> simp_all [monObs]
    simp only [List.foldl_cons, List.foldl_nil, this]
    exact coupled_of_closed rfl cok ccalls cdepth cseen
  cases op with
  | start c t d stop =>
    simp only [step]
    split
    · next hok =>
      simp only [List.foldl_nil]
      have hnc : hasCall c m0.calls = false := by
        rw [ccalls]
        simp only [startOk, Bool.and_eq_true, Bool.not_eq_eq_eq_not, Bool.not_true] at hok
        exact hok.1.1.1.1.1.1
      have hco : closeOut { m0 with pending := some (Op.start c t d stop) } =
          { m0 with pending := none, calls := m0.calls ++
              [{ id := c, ctx := t, deadline := d, stop := stop, phase := .fresh, hops := blank m0.depth }] } := by
        simp [closeOut, hnc]
      exact ⟨by rw [hco] <;> exact cok, by rw [hco] <;> simp [ccalls, cdepth], by rw [hco] <;> exact cdepth, by rw [hco] <;> exact cseen, by rw [hco] <;> rfl⟩
    · exact hnoop (by simp)
  | run =>
    simp only [step]
    obtain ⟨rest'', seen', f1, f2, f3⟩ := foldl_runCalls s.depth s.limit s.calls
      { m0 with pending := some Op.run } [] (countInFlight1 s.calls) s.next cok rfl
      (by simp [ccalls]) (by simpa using hinv.ids) hinv.calls cseen
    rw [f1]
    have hco : closeOut { m0 with pending := some Op.run, calls := [] ++ rest'', seen := seen' } =
        { m0 with pending := none, calls := (runCalls s.depth s.limit (countInFlight1 s.calls) s.next s.calls).1,
                  seen := seen' } := by
      simp [closeOut, f2]
    exact ⟨by rw [hco] <;> exact cok, by rw [hco] <;> rfl, by rw [hco] <;> exact cdepth, by rw [hco] <;> exact f3, by rw [hco] <;> rfl⟩
  | abandon c =>
    simp only [step]
    split
    · exact hnoop (by simp)
    · next cl hfind =>
      split
      · next ph hph =>
        simp only [List.foldl_nil]
        have hco : closeOut { m0 with pending := some (Op.abandon c) } =
            { m0 with pending := none, calls := updCall c (fun cl => { cl with phase := ph }) m0.calls } := by
          rcases abandonPhase_some hph with ⟨h1, h2⟩ | ⟨h1, h2⟩ <;> simp [closeOut, ccalls, hfind, h1, h2]
        exact ⟨by rw [hco] <;> exact cok, by rw [hco] <;> simp [ccalls], by rw [hco] <;> exact cdepth, by rw [hco] <;> exact cseen, by rw [hco] <;> rfl⟩
      · exact hnoop (by simp)
  | finish c =>
    simp only [step]
    split
    · exact hnoop (by simp)
    · next cl hfind =>
      split
      · next hok =>
        simp only [List.foldl_nil]
        have hw : cl.phase = .waiting := by
          simp only [finishOk, Bool.and_eq_true, beq_iff_eq] at hok
          exact hok.1
        have hco : closeOut { m0 with pending := some (Op.finish c) } =
            { m0 with pending := none, calls := updCall c (fun cl => { cl with phase := .finishing }) m0.calls } := by
          simp [closeOut, ccalls, hfind, hw]
        exact ⟨by rw [hco] <;> exact cok, by rw [hco] <;> simp [ccalls], by rw [hco] <;> exact cdepth, by rw [hco] <;> exact cseen, by rw [hco] <;> rfl⟩
      · exact hnoop (by simp)
  | advance ns =>
    simp only [step]
    split
    · have : monObs { m0 with pending := some (Op.advance ns) } (.now (s.now + ns)) =
          { m0 with pending := none } := by
        simp [monObs, cok]
      simp only [List.foldl_cons, List.foldl_nil, this]
      exact coupled_of_closed rfl cok ccalls cdepth cseen
    · exact hnoop (by simp)

theorem monPair_coupled (s : St) (m : MonSt) (op : Op) (hinv : Inv s) (hc : Coupled s m) :
    Coupled (step s op).1 (monPair m (op, (step s op).2)) := by
  have hmok := closeOut_ok_imp hc.ok
  obtain ⟨cok, ccalls, cdepth, cseen, cpend⟩ := hc
  have hm1 : monOp m op = { closeOut m with pending := some op } := by simp [monOp, hmok, cok]
  simp only [monPair, hm1]
  exact step_closed s (closeOut m) op hinv cpend cok ccalls cdepth cseen

theorem monInit_coupled (depth : Nat) (limit : Option Nat) : Coupled (init depth limit) (monInit depth) :=
  coupled_of_closed rfl rfl rfl rfl (by intro sp hm; simp [monInit] at hm)

theorem foldl_monPair_coupled (s : St) (m : MonSt) (ops : List Op) (hinv : Inv s) (hc : Coupled s m) :
    Coupled (runTrace s ops).1 ((runTrace s ops).2.foldl monPair m) := by
  induction ops generalizing s m with
  | nil => exact hc
  | cons op ops ih =>
    simp only [runTrace, List.foldl_cons]
    exact ih _ _ (step_inv s op hinv) (monPair_coupled s m op hinv hc)

end TarpcModel.Chain

import TarpcModel.Monitors.Chain
/-
Helper lemmas and invariants for the service-chain model (`Chain.lean`); the property theorems are
in `Props/C04Chain.lean` and `Props/C18Chain.lean`.
-/
namespace TarpcModel.Chain

/-! ### Shapes of a call's hop list -/

def AllBlank (l : List Hop) : Prop := ∀ hp ∈ l, hp = {}

/-- `running^k ++ blank^*`: the handlers that run form a prefix of the chain, each with its request
and observed context recorded and no cancel written. -/
def Live : List Hop → Prop
  | [] => True
  | hp :: rest =>
    (hp.h = .running ∧ (∃ rq, hp.req = some rq) ∧ (∃ sn, hp.seen = some sn) ∧ hp.cancel = none ∧ Live rest) ∨
    (hp = {} ∧ AllBlank rest)

def NoRunning (l : List Hop) : Prop := ∀ hp ∈ l, hp.h ≠ .running

theorem allBlank_live {l : List Hop} (h : AllBlank l) : Live l := by
  cases l with
  | nil => trivial
  | cons hp rest =>
    right
    exact ⟨h hp (by simp), fun x hx => h x (by simp [hx])⟩

theorem allBlank_noRunning {l : List Hop} (h : AllBlank l) : NoRunning l := by
  intro hp hm
  rw [h hp hm]
  decide

theorem allBlank_replicate (n : Nat) : AllBlank (blank n) := by
  intro hp hm
  exact (List.mem_replicate.mp hm).2

/-! ### Trace contexts along the chain -/

/-- `t` carries the trace id and sampling decision of `ctx`. -/
def Agrees (ctx t : Trace) : Prop := t.traceId = ctx.traceId ∧ t.sampled = ctx.sampled

theorem agrees_refl (t : Trace) : Agrees t t := ⟨rfl, rfl⟩

theorem agrees_newChild {ctx t : Trace} (h : Agrees ctx t) (k : Nat) : Agrees ctx (newChild t k) := h

/-- What the hop records agree with the call's context, and a cancel repeats the request. -/
structure HopTr (ctx : Trace) (hp : Hop) : Prop where
  req : ∀ t, hp.req = some t → Agrees ctx t
  seen : ∀ t, hp.seen = some t → Agrees ctx t
  cancel : ∀ t, hp.cancel = some t → hp.req = some t

theorem hopTr_blank (ctx : Trace) : HopTr ctx {} := ⟨by simp, by simp, by simp⟩

/-- Spans recorded for a chain, in chain order (request, handler, request, handler, …). -/
def hopSpans (hp : Hop) : List Span :=
  (match hp.req with | some t => [t.span] | none => []) ++
  (match hp.seen with | some t => [t.span] | none => [])

def chainSpans : List Hop → List Span
  | [] => []
  | hp :: rest => hopSpans hp ++ chainSpans rest

theorem chainSpans_blank {l : List Hop} (h : AllBlank l) : chainSpans l = [] := by
  induction l with
  | nil => rfl
  | cons hp rest ih =>
    have h1 : hp = {} := h hp (by simp)
    have h2 : AllBlank rest := fun x hx => h x (by simp [hx])
    simp [chainSpans, ih h2, h1, hopSpans]

/-- Every span is one of the first `k` random ones. -/
def Below (k : Nat) (l : List Span) : Prop := ∀ sp ∈ l, ∃ j, j < k ∧ sp = .fresh j

theorem Below.mono {k k' : Nat} {l : List Span} (h : Below k l) (hk : k ≤ k') : Below k' l := by
  intro sp hm
  obtain ⟨j, hj, e⟩ := h sp hm
  exact ⟨j, by omega, e⟩

/-! ### `extend` -/

theorem extend_next_ge (c dl upto i : Nat) (p : Trace) (k : Nat) (l : List Hop) :
    k ≤ (extend c dl upto i p k l).2.2 := by
  induction l generalizing i p k with
  | nil => simp [extend]
  | cons hp rest ih =>
    simp only [extend]
    split
    · simp
    · split
      · exact ih _ _ _
      · have := ih (i + 1) (newChild (newChild p k) (k + 1)) (k + 2)
        simp only
        omega
      · simp

theorem extend_length (c dl upto i : Nat) (p : Trace) (k : Nat) (l : List Hop) :
    (extend c dl upto i p k l).1.length = l.length := by
  induction l generalizing i p k with
  | nil => simp [extend]
  | cons hp rest ih =>
    simp only [extend]
    split
    · simp
    · split <;> simp [ih]

theorem extend_live (c dl upto i : Nat) (p : Trace) (k : Nat) (l : List Hop) (h : Live l) :
    Live (extend c dl upto i p k l).1 := by
  induction l generalizing i p k with
  | nil => simp [extend, Live]
  | cons hp rest ih =>
    simp only [extend]
    split
    · exact h
    · split
      · next hr hs =>
        rcases h with ⟨h1, h2, h3, h4, h5⟩ | ⟨h1, _⟩
        · exact Or.inl ⟨h1, h2, h3, h4, ih _ _ _ h5⟩
        · rw [h1] at hr; simp at hr
      · next hn =>
        rcases h with ⟨h1, _⟩ | ⟨_, h2⟩
        · rw [h1] at hn; simp at hn
        · exact Or.inl ⟨rfl, ⟨_, rfl⟩, ⟨_, rfl⟩, rfl, ih _ _ _ (allBlank_live h2)⟩
      · exact h

theorem extend_tr (ctx : Trace) (c dl upto i : Nat) (p : Trace) (k : Nat) (l : List Hop)
    (hp : Agrees ctx p) (h : ∀ x ∈ l, HopTr ctx x) :
    ∀ x ∈ (extend c dl upto i p k l).1, HopTr ctx x := by
  induction l generalizing i p k with
  | nil => simp [extend]
  | cons hd rest ih =>
    simp only [extend]
    have hrest : ∀ x ∈ rest, HopTr ctx x := fun x hx => h x (by simp [hx])
    split
    · exact h
    · split
      · next hr hs =>
        intro x hx
        rcases List.mem_cons.mp hx with e | hx
        · rw [e]; exact h hd (by simp)
        · exact ih _ _ _ ((h hd (by simp)).seen _ hs) hrest x hx
      · intro x hx
        rcases List.mem_cons.mp hx with e | hx
        · rw [e]
          exact ⟨fun t ht => by simp at ht; rw [← ht]; exact agrees_newChild hp k,
                 fun t ht => by simp at ht; rw [← ht]; exact agrees_newChild (agrees_newChild hp k) (k + 1),
                 by simp⟩
        · exact ih _ _ _ (agrees_newChild (agrees_newChild hp k) (k + 1)) hrest x hx
      · exact h

/-- Spans after `extend`: the old ones, or one of the newly drawn ones. -/
theorem extend_spans_mem (c dl upto i : Nat) (p : Trace) (k : Nat) (l : List Hop) (hl : Live l) :
    ∀ sp ∈ chainSpans (extend c dl upto i p k l).1,
      sp ∈ chainSpans l ∨ ∃ j, k ≤ j ∧ j < (extend c dl upto i p k l).2.2 ∧ sp = .fresh j := by
  induction l generalizing i p k with
  | nil => simp [extend, chainSpans]
  | cons hd rest ih =>
    simp only [extend]
    split
    · intro sp hs; exact Or.inl hs
    · split
      · next hr hs =>
        have hlr : Live rest := by
          rcases hl with ⟨_, _, _, _, h5⟩ | ⟨h1, _⟩
          · exact h5
          · rw [h1] at hr; simp at hr
        intro sp hm
        simp only [chainSpans, List.mem_append] at hm ⊢
        rcases hm with hm | hm
        · exact Or.inl (Or.inl hm)
        · rcases ih _ _ _ hlr sp hm with h1 | h1
          · exact Or.inl (Or.inr h1)
          · exact Or.inr h1
      · next hn =>
        have hb : AllBlank rest := by
          rcases hl with ⟨h1, _⟩ | ⟨_, h2⟩
          · rw [h1] at hn; simp at hn
          · exact h2
        intro sp hm
        have hge := extend_next_ge c dl upto (i + 1) (newChild (newChild p k) (k + 1)) (k + 2) rest
        simp only [chainSpans, hopSpans, List.mem_append, List.mem_cons, List.not_mem_nil, or_false,
          newChild] at hm
        rcases hm with (hm | hm) | hm
        · exact Or.inr ⟨k, by omega, by simp only; omega, hm⟩
        · exact Or.inr ⟨k + 1, by omega, by simp only; omega, hm⟩
        · rcases ih (i + 1) _ (k + 2) (allBlank_live hb) sp hm with h1 | ⟨j, h1, h2, h3⟩
          · rw [chainSpans_blank hb] at h1; simp at h1
          · exact Or.inr ⟨j, by omega, h2, h3⟩
      · intro sp hs; exact Or.inl hs

theorem extend_spans_nodup (c dl upto i : Nat) (p : Trace) (k : Nat) (l : List Hop) (hl : Live l)
    (hb : Below k (chainSpans l)) (hn : (chainSpans l).Nodup) :
    (chainSpans (extend c dl upto i p k l).1).Nodup := by
  induction l generalizing i p k with
  | nil => simp [extend, chainSpans]
  | cons hd rest ih =>
    simp only [extend]
    split
    · exact hn
    · split
      · next hr hs =>
        have hlr : Live rest := by
          rcases hl with ⟨_, _, _, _, h5⟩ | ⟨h1, _⟩
          · exact h5
          · rw [h1] at hr; simp at hr
        simp only [chainSpans] at hn hb ⊢
        rw [List.nodup_append] at hn ⊢
        obtain ⟨n1, n2, n3⟩ := hn
        have hbr : Below k (chainSpans rest) := fun sp hm => hb sp (by simp [hm])
        refine ⟨n1, ih _ _ _ hlr hbr n2, ?_⟩
        intro a ha b hbm
        rcases extend_spans_mem c dl upto (i + 1) _ k rest hlr b hbm with h1 | ⟨j, h1, _, h3⟩
        · exact n3 a ha b h1
        · obtain ⟨j', hj', e⟩ := hb a (by simp [ha])
          rw [e, h3]
          intro he
          injection he with he
          omega
      · next hnn =>
        have hbl : AllBlank rest := by
          rcases hl with ⟨h1, _⟩ | ⟨_, h2⟩
          · rw [h1] at hnn; simp at hnn
          · exact h2
        have hrest := ih (i + 1) (newChild (newChild p k) (k + 1)) (k + 2) (allBlank_live hbl)
          (by rw [chainSpans_blank hbl]; intro sp hm; simp at hm) (by rw [chainSpans_blank hbl]; simp)
        have hmem := extend_spans_mem c dl upto (i + 1) (newChild (newChild p k) (k + 1)) (k + 2) rest
          (allBlank_live hbl)
        simp only [chainSpans, hopSpans, newChild, List.cons_append, List.nil_append,
          List.nodup_cons, List.mem_cons]
        refine ⟨?_, ?_, hrest⟩
        · intro hm
          rcases hm with hm | hm
          · injection hm with hm; omega
          · rcases hmem _ hm with h1 | ⟨j, h1, _, h3⟩
            · rw [chainSpans_blank hbl] at h1; simp at h1
            · injection h3 with h3; omega
        · intro hm
          rcases hmem _ hm with h1 | ⟨j, h1, _, h3⟩
          · rw [chainSpans_blank hbl] at h1; simp at h1
          · injection h3 with h3; omega
      · exact hn

theorem extend_spans_below (c dl upto i : Nat) (p : Trace) (k : Nat) (l : List Hop) (hl : Live l)
    (hb : Below k (chainSpans l)) :
    Below (extend c dl upto i p k l).2.2 (chainSpans (extend c dl upto i p k l).1) := by
  intro sp hm
  rcases extend_spans_mem c dl upto i p k l hl sp hm with h1 | ⟨j, _, h2, h3⟩
  · exact (hb.mono (extend_next_ge ..)) sp h1
  · exact ⟨j, h2, h3⟩

/-! ### `cascade`, `complete`, `refuse` -/

theorem cascade_length (c i : Nat) (l : List Hop) : (cascade c i l).1.length = l.length := by
  induction l generalizing i with
  | nil => simp [cascade]
  | cons hp rest ih =>
    simp only [cascade]
    split <;> simp [ih]

/-- The cascade reaches every running handler (induction over the hops): on a live chain, nothing
is left running, and what was not started stays so. -/
theorem cascade_dead (c i : Nat) (l : List Hop) (h : Live l) :
    ∀ hp ∈ (cascade c i l).1, hp.h = .dropped ∨ hp.h = .notStarted := by
  induction l generalizing i with
  | nil => simp [cascade]
  | cons hd rest ih =>
    simp only [cascade]
    split
    · next hr hq =>
      rcases h with ⟨_, _, _, _, h5⟩ | ⟨h1, _⟩
      · intro hp hm
        rcases List.mem_cons.mp hm with e | hm
        · rw [e]; exact Or.inl rfl
        · exact ih _ h5 hp hm
      · rw [h1] at hr; simp at hr
    · next hne =>
      rcases h with ⟨h1, ⟨rq, h2⟩, _⟩ | ⟨h1, h2⟩
      · exact (hne rq h1 h2).elim
      · intro hp hm
        rcases List.mem_cons.mp hm with e | hm
        · rw [e, h1]; exact Or.inr rfl
        · rw [h2 hp hm]; exact Or.inr rfl

theorem cascade_tr (ctx : Trace) (c i : Nat) (l : List Hop) (h : ∀ x ∈ l, HopTr ctx x) :
    ∀ x ∈ (cascade c i l).1, HopTr ctx x := by
  induction l generalizing i with
  | nil => simp [cascade]
  | cons hd rest ih =>
    simp only [cascade]
    have hrest : ∀ x ∈ rest, HopTr ctx x := fun x hx => h x (by simp [hx])
    split
    · next hr hq =>
      intro x hx
      rcases List.mem_cons.mp hx with e | hx
      · rw [e]
        have := h hd (by simp)
        exact ⟨this.req, this.seen, fun t ht => by simp at ht; rw [← ht]; exact hq⟩
      · exact ih _ hrest x hx
    · exact h

theorem cascade_spans (c i : Nat) (l : List Hop) : chainSpans (cascade c i l).1 = chainSpans l := by
  induction l generalizing i with
  | nil => simp [cascade]
  | cons hd rest ih =>
    simp only [cascade]
    split
    · simp [chainSpans, hopSpans, ih]
    · rfl

theorem complete_length (c i : Nat) (l : List Hop) : (complete c i l).1.length = l.length := by
  induction l generalizing i with
  | nil => simp [complete]
  | cons hp rest ih =>
    simp only [complete]
    split <;> simp [ih]

theorem complete_noRunning (c i : Nat) (l : List Hop) : NoRunning (complete c i l).1 := by
  induction l generalizing i with
  | nil => simp [complete, NoRunning]
  | cons hd rest ih =>
    simp only [complete]
    intro hp hm
    split at hm
    · rcases List.mem_cons.mp hm with e | hm
      · rw [e]; simp
      · exact ih _ hp hm
    · next hne =>
      rcases List.mem_cons.mp hm with e | hm
      · rw [e]; exact hne
      · exact ih _ hp hm

theorem complete_tr (ctx : Trace) (c i : Nat) (l : List Hop) (h : ∀ x ∈ l, HopTr ctx x) :
    ∀ x ∈ (complete c i l).1, HopTr ctx x := by
  induction l generalizing i with
  | nil => simp [complete]
  | cons hd rest ih =>
    simp only [complete]
    have hrest : ∀ x ∈ rest, HopTr ctx x := fun x hx => h x (by simp [hx])
    have hhd := h hd (by simp)
    intro x hx
    split at hx
    · rcases List.mem_cons.mp hx with e | hx
      · rw [e]; exact ⟨hhd.req, hhd.seen, hhd.cancel⟩
      · exact ih _ hrest x hx
    · rcases List.mem_cons.mp hx with e | hx
      · rw [e]; exact hhd
      · exact ih _ hrest x hx

theorem complete_spans (c i : Nat) (l : List Hop) : chainSpans (complete c i l).1 = chainSpans l := by
  induction l generalizing i with
  | nil => simp [complete]
  | cons hd rest ih =>
    simp only [complete]
    split <;> simp [chainSpans, hopSpans, ih]

theorem refuse_length (c dl : Nat) (p : Trace) (k : Nat) (l : List Hop) :
    (refuse c dl p k l).1.length = l.length := by
  cases l <;> simp [refuse]

theorem refuse_next_ge (c dl : Nat) (p : Trace) (k : Nat) (l : List Hop) : k ≤ (refuse c dl p k l).2.2 := by
  cases l <;> simp [refuse]

theorem refuse_notStarted (c dl : Nat) (p : Trace) (k : Nat) (l : List Hop) (h : AllBlank l) :
    ∀ hp ∈ (refuse c dl p k l).1, hp.h = .notStarted := by
  cases l with
  | nil => simp [refuse]
  | cons hd rest =>
    intro hp hm
    simp only [refuse] at hm
    rcases List.mem_cons.mp hm with e | hm
    · rw [e, h hd (by simp)]
    · rw [h hp (by simp [hm])]

theorem refuse_tr (ctx : Trace) (c dl : Nat) (p : Trace) (k : Nat) (l : List Hop) (hp : Agrees ctx p)
    (h : AllBlank l) : ∀ x ∈ (refuse c dl p k l).1, HopTr ctx x := by
  cases l with
  | nil => simp [refuse]
  | cons hd rest =>
    intro x hm
    simp only [refuse] at hm
    rcases List.mem_cons.mp hm with e | hm
    · rw [e, h hd (by simp)]
      exact ⟨fun t ht => by simp at ht; rw [← ht]; exact agrees_newChild hp k, by simp, by simp⟩
    · rw [h x (by simp [hm])]; exact hopTr_blank ctx

theorem refuse_spans (c dl : Nat) (p : Trace) (k : Nat) (l : List Hop) (h : AllBlank l) :
    (chainSpans (refuse c dl p k l).1).Nodup ∧
    Below (refuse c dl p k l).2.2 (chainSpans (refuse c dl p k l).1) := by
  cases l with
  | nil => simp [refuse, chainSpans, Below]
  | cons hd rest =>
    have h1 : hd = {} := h hd (by simp)
    have h2 : AllBlank rest := fun x hx => h x (by simp [hx])
    simp only [refuse, chainSpans, chainSpans_blank h2, h1, hopSpans, newChild]
    refine ⟨by simp, ?_⟩
    intro sp hm
    simp at hm
    exact ⟨k, by omega, hm⟩

/-! ### Per-call and state invariants -/

structure CallOK (depth k : Nat) (cl : Call) : Prop where
  len : cl.hops.length = depth
  given : givenSpan cl.ctx.span = true
  fresh : cl.phase = .fresh → AllBlank cl.hops
  live : (cl.phase = .waiting ∨ cl.phase = .finishing ∨ cl.phase = .abandoning) → Live cl.hops
  dead : cl.phase = .dead → ∀ hp ∈ cl.hops, hp.h = .dropped ∨ hp.h = .notStarted
  done : cl.phase = .done → NoRunning cl.hops
  refused : cl.phase = .refused → ∀ hp ∈ cl.hops, hp.h = .notStarted
  tr : ∀ hp ∈ cl.hops, HopTr cl.ctx hp
  nodup : (chainSpans cl.hops).Nodup
  below : Below k (chainSpans cl.hops)

theorem CallOK.mono {depth k k' : Nat} {cl : Call} (h : CallOK depth k cl) (hk : k ≤ k') :
    CallOK depth k' cl := { h with below := h.below.mono hk }

/-- Whatever its phase, a well-formed call's hop list is live or has nothing running. -/
theorem CallOK.live_of_fresh {depth k : Nat} {cl : Call} (h : CallOK depth k cl) (hf : cl.phase = .fresh) :
    Live cl.hops := allBlank_live (h.fresh hf)

theorem runCall_id (depth : Nat) (limit : Option Nat) (cnt k : Nat) (cl : Call) :
    (runCall depth limit cnt k cl).1.id = cl.id ∧ (runCall depth limit cnt k cl).1.ctx = cl.ctx ∧
    (runCall depth limit cnt k cl).1.deadline = cl.deadline ∧ (runCall depth limit cnt k cl).1.stop = cl.stop := by
  unfold runCall
  split
  · split <;> simp
  all_goals simp

theorem runCall_next_ge (depth : Nat) (limit : Option Nat) (cnt k : Nat) (cl : Call) :
    k ≤ (runCall depth limit cnt k cl).2.2.1 := by
  unfold runCall
  split
  · split
    · exact refuse_next_ge ..
    · exact extend_next_ge ..
  · exact extend_next_ge ..
  · exact Nat.le_refl k
  · exact Nat.le_refl k

theorem runCall_ok (depth : Nat) (limit : Option Nat) (cnt k : Nat) (cl : Call) (h : CallOK depth k cl) :
    CallOK depth (runCall depth limit cnt k cl).2.2.1 (runCall depth limit cnt k cl).1 := by
  unfold runCall
  split
  · next hf =>
    have hb := h.fresh hf
    split
    · have hs := refuse_spans cl.id cl.deadline cl.ctx k cl.hops hb
      exact { len := by simp [refuse_length, h.len], given := h.given
              fresh := by simp, live := by simp, dead := by simp, done := by simp
              refused := fun _ => refuse_notStarted _ _ _ _ _ hb
              tr := refuse_tr cl.ctx _ _ _ _ _ (agrees_refl _) hb
              nodup := hs.1, below := hs.2 }
    · have hl := allBlank_live hb
      exact { len := by simp [extend_length, h.len], given := h.given
              fresh := by simp, live := fun _ => extend_live _ _ _ _ _ _ _ hl
              dead := by simp, done := by simp, refused := by simp
              tr := extend_tr cl.ctx _ _ _ _ _ _ _ (agrees_refl _) h.tr
              nodup := extend_spans_nodup _ _ _ _ _ _ _ hl h.below h.nodup
              below := extend_spans_below _ _ _ _ _ _ _ hl h.below }
  · next hf =>
    have hl := h.live (Or.inr (Or.inl hf))
    exact { len := by simp [complete_length, extend_length, h.len], given := h.given
            fresh := by simp, live := by simp, dead := by simp
            done := fun _ => complete_noRunning _ _ _
            refused := by simp
            tr := complete_tr cl.ctx _ _ _ (extend_tr cl.ctx _ _ _ _ _ _ _ (agrees_refl _) h.tr)
            nodup := by
              simp only [complete_spans]
              exact extend_spans_nodup _ _ _ _ _ _ _ hl h.below h.nodup
            below := by
              simp only [complete_spans]
              exact extend_spans_below _ _ _ _ _ _ _ hl h.below }
  · next hf =>
    have hl := h.live (Or.inr (Or.inr hf))
    exact { len := by simp [cascade_length, h.len], given := h.given
            fresh := by simp, live := by simp
            dead := fun _ => cascade_dead _ _ _ hl
            done := by simp, refused := by simp
            tr := cascade_tr cl.ctx _ _ _ h.tr
            nodup := by simp only [cascade_spans]; exact h.nodup
            below := by simp only [cascade_spans]; exact h.below }
  · exact h

theorem runCalls_next_ge (depth : Nat) (limit : Option Nat) (cnt k : Nat) (calls : List Call) :
    k ≤ (runCalls depth limit cnt k calls).2.2 := by
  induction calls generalizing cnt k with
  | nil => simp [runCalls]
  | cons cl rest ih =>
    simp only [runCalls]
    exact Nat.le_trans (runCall_next_ge depth limit cnt k cl) (ih _ _)

theorem runCalls_ids (depth : Nat) (limit : Option Nat) (cnt k : Nat) (calls : List Call) :
    (runCalls depth limit cnt k calls).1.map (·.id) = calls.map (·.id) := by
  induction calls generalizing cnt k with
  | nil => simp [runCalls]
  | cons cl rest ih =>
    simp only [runCalls, List.map_cons, ih, (runCall_id depth limit cnt k cl).1]

theorem runCalls_ok (depth : Nat) (limit : Option Nat) (cnt k : Nat) (calls : List Call)
    (h : ∀ cl ∈ calls, CallOK depth k cl) :
    ∀ cl ∈ (runCalls depth limit cnt k calls).1, CallOK depth (runCalls depth limit cnt k calls).2.2 cl := by
  induction calls generalizing cnt k with
  | nil => simp [runCalls]
  | cons cl rest ih =>
    simp only [runCalls]
    intro x hx
    rcases List.mem_cons.mp hx with e | hx
    · rw [e]
      exact (runCall_ok depth limit cnt k cl (h cl (by simp))).mono (runCalls_next_ge ..)
    · exact ih _ _ (fun y hy => (h y (by simp [hy])).mono (runCall_next_ge ..)) x hx

/-! ### `updCall` / `findCall` -/

theorem updCall_ids (c : Nat) (f : Call → Call) (hf : ∀ cl, (f cl).id = cl.id) (calls : List Call) :
    (updCall c f calls).map (·.id) = calls.map (·.id) := by
  induction calls with
  | nil => rfl
  | cons cl rest ih =>
    simp only [updCall, List.map_cons, ih]
    split <;> simp [hf]

theorem mem_updCall {c : Nat} {f : Call → Call} {calls : List Call} {x : Call}
    (h : x ∈ updCall c f calls) : x ∈ calls ∨ ∃ y ∈ calls, y.id = c ∧ x = f y := by
  induction calls with
  | nil => simp [updCall] at h
  | cons cl rest ih =>
    simp only [updCall] at h
    rcases List.mem_cons.mp h with e | h
    · split at e
      · next hc => exact Or.inr ⟨cl, by simp, hc, e⟩
      · exact Or.inl (by simp [e])
    · rcases ih h with h1 | ⟨y, hy, h2⟩
      · exact Or.inl (by simp [h1])
      · exact Or.inr ⟨y, by simp [hy], h2⟩

theorem findCall_some {c : Nat} {calls : List Call} {cl : Call} (h : findCall c calls = some cl) :
    cl ∈ calls ∧ cl.id = c := by
  induction calls with
  | nil => simp [findCall] at h
  | cons x rest ih =>
    simp only [findCall] at h
    split at h
    · next hc => injection h with h; subst h; exact ⟨by simp, hc⟩
    · exact ⟨by simp [(ih h).1], (ih h).2⟩

theorem findCall_none {c : Nat} {calls : List Call} (h : findCall c calls = none) :
    ∀ cl ∈ calls, cl.id ≠ c := by
  induction calls with
  | nil => simp
  | cons x rest ih =>
    simp only [findCall] at h
    split at h
    · simp at h
    · next hc =>
      intro cl hm
      rcases List.mem_cons.mp hm with e | hm
      · rw [e]; exact hc
      · exact ih h cl hm

theorem findCall_unique {c : Nat} {calls : List Call} {cl y : Call} (hn : (calls.map (·.id)).Nodup)
    (hfind : findCall c calls = some cl) (hy : y ∈ calls) (hyc : y.id = c) : y = cl := by
  induction calls with
  | nil => simp at hy
  | cons z rest ih =>
    simp only [List.map_cons, List.nodup_cons] at hn
    simp only [findCall] at hfind
    split at hfind
    · next hz =>
      injection hfind with hfind
      rcases List.mem_cons.mp hy with e | hy
      · rw [e, hfind]
      · exfalso
        exact hn.1 (List.mem_map.mpr ⟨y, hy, by rw [hyc, hz]⟩)
    · next hz =>
      rcases List.mem_cons.mp hy with e | hy
      · exact absurd (e ▸ hyc) hz
      · exact ih hn.2 hfind hy

theorem hasCall_false {c : Nat} {calls : List Call} (h : hasCall c calls = false) :
    c ∉ calls.map (·.id) := by
  simp only [hasCall, List.any_eq_false, beq_iff_eq] at h
  intro hm
  obtain ⟨cl, hcl, e⟩ := List.mem_map.mp hm
  exact h cl hcl e

structure Inv (s : St) : Prop where
  calls : ∀ cl ∈ s.calls, CallOK s.depth s.next cl
  ids : (s.calls.map (·.id)).Nodup

theorem init_inv (depth : Nat) (limit : Option Nat) : Inv (init depth limit) :=
  ⟨by simp [init], by simp [init]⟩

theorem step_depth (s : St) (op : Op) : (step s op).1.depth = s.depth ∧ (step s op).1.limit = s.limit := by
  cases op <;> simp only [step]
  · split <;> simp
  · simp
  · split
    · simp
    · split <;> simp
  · split
    · simp
    · split <;> simp
  · split <;> simp

theorem callOK_setPhase {depth k : Nat} {cl : Call} (h : CallOK depth k cl) (ph : Phase)
    (hfresh : ph = .fresh → AllBlank cl.hops)
    (hlive : (ph = .waiting ∨ ph = .finishing ∨ ph = .abandoning) → Live cl.hops)
    (hdead : ph = .dead → ∀ hp ∈ cl.hops, hp.h = .dropped ∨ hp.h = .notStarted)
    (hdone : ph = .done → NoRunning cl.hops)
    (hrefused : ph = .refused → ∀ hp ∈ cl.hops, hp.h = .notStarted) :
    CallOK depth k { cl with phase := ph } :=
  { len := h.len, given := h.given, fresh := hfresh, live := hlive, dead := hdead, done := hdone,
    refused := hrefused, tr := h.tr, nodup := h.nodup, below := h.below }

theorem step_inv (s : St) (op : Op) (h : Inv s) : Inv (step s op).1 := by
  cases op with
  | start c t d stop =>
    simp only [step]
    split
    · next hok =>
      simp only [startOk, Bool.and_eq_true, Bool.not_eq_eq_eq_not, Bool.not_true] at hok
      obtain ⟨⟨⟨⟨⟨⟨h1, _⟩, h3⟩, _⟩, _⟩, _⟩, _⟩ := hok
      refine ⟨?_, ?_⟩
      · intro cl hm
        rcases List.mem_append.mp hm with hm | hm
        · exact h.calls cl hm
        · simp only [List.mem_singleton] at hm
          subst hm
          have hb := allBlank_replicate s.depth
          exact { len := by simp [blank], given := h3, fresh := fun _ => hb, live := by simp
                  dead := by simp, done := by simp, refused := by simp
                  tr := fun hp hm => by rw [hb hp hm]; exact hopTr_blank _
                  nodup := by rw [chainSpans_blank hb]; simp
                  below := by rw [chainSpans_blank hb]; intro sp hm; simp at hm }
      · simp only [List.map_append, List.map_cons, List.map_nil]
        rw [List.nodup_append]
        refine ⟨h.ids, by simp, ?_⟩
        intro a ha b hb
        simp only [List.mem_singleton] at hb
        subst hb
        intro e
        subst e
        exact hasCall_false h1 ha
    · exact h
  | run =>
    simp only [step]
    exact ⟨runCalls_ok _ _ _ _ _ h.calls, by simp only [runCalls_ids]; exact h.ids⟩
  | abandon c =>
    simp only [step]
    split
    · exact h
    · next cl hfind =>
      split
      · next ph hph =>
        refine ⟨?_, ?_⟩
        · intro x hx
          rcases mem_updCall hx with hx | ⟨y, hy, hyc, e⟩
          · exact h.calls x hx
          · subst e
            have hy' := h.calls y hy
            have : y = cl := findCall_unique h.ids hfind hy hyc
            subst this
            simp only [abandonPhase] at hph
            split at hph
            · next hf =>
              injection hph with hph; subst hph
              exact callOK_setPhase hy' _ (by simp) (by simp)
                (fun _ hp hm => by rw [hy'.fresh hf hp hm]; exact Or.inr rfl) (by simp) (by simp)
            · next hw =>
              split at hph
              · simp at hph
              · injection hph with hph; subst hph
                exact callOK_setPhase hy' _ (by simp) (fun _ => hy'.live (Or.inl hw)) (by simp) (by simp) (by simp)
            · simp at hph
        · show (List.map _ (updCall c _ s.calls)).Nodup
          rw [updCall_ids c (fun cl => { cl with phase := ph }) (fun _ => rfl)]; exact h.ids
      · exact h
  | finish c =>
    simp only [step]
    split
    · exact h
    · next cl hfind =>
      split
      · next hok =>
        refine ⟨?_, ?_⟩
        · intro x hx
          rcases mem_updCall hx with hx | ⟨y, hy, hyc, e⟩
          · exact h.calls x hx
          · subst e
            have hy' := h.calls y hy
            have : y = cl := findCall_unique h.ids hfind hy hyc
            subst this
            simp only [finishOk, Bool.and_eq_true, beq_iff_eq] at hok
            exact callOK_setPhase hy' _ (by simp) (fun _ => hy'.live (Or.inl hok.1)) (by simp) (by simp) (by simp)
        · show (List.map _ (updCall c _ s.calls)).Nodup
          rw [updCall_ids c (fun cl => { cl with phase := .finishing }) (fun _ => rfl)]; exact h.ids
      · exact h
  | advance ns =>
    simp only [step]
    split
    · exact ⟨h.calls, h.ids⟩
    · exact h

/-! ### Reachable states -/

theorem runTrace_inv (s : St) (ops : List Op) (h : Inv s) : Inv (runTrace s ops).1 := by
  induction ops generalizing s with
  | nil => exact h
  | cons op ops ih => exact ih _ (step_inv s op h)

theorem runTrace_depth (s : St) (ops : List Op) :
    (runTrace s ops).1.depth = s.depth ∧ (runTrace s ops).1.limit = s.limit := by
  induction ops generalizing s with
  | nil => exact ⟨rfl, rfl⟩
  | cons op ops ih =>
    simp only [runTrace]
    rw [(ih _).1, (ih _).2]
    exact step_depth s op

theorem run_inv (depth : Nat) (limit : Option Nat) (ops : List Op) : Inv (run (init depth limit) ops).1 :=
  runTrace_inv _ ops (init_inv depth limit)

/-! ### Following one call through `updCall` and `runCalls` -/

theorem findCall_updCall (c : Nat) (f : Call → Call) (hf : ∀ cl, (f cl).id = cl.id) (c' : Nat)
    (calls : List Call) :
    findCall c' (updCall c f calls) = if c' = c then (findCall c' calls).map f else findCall c' calls := by
  induction calls with
  | nil => simp [updCall, findCall]
  | cons cl rest ih =>
    simp only [updCall, findCall]
    by_cases h1 : cl.id = c
    · by_cases h2 : c' = c
      · subst h2; simp [h1, hf]
      · have : ¬ c = c' := fun e => h2 e.symm
        simp [h1, h2, hf, this, ih]
    · by_cases h2 : cl.id = c'
      · have : c' ≠ c := fun e => h1 (h2.trans e)
        simp [h2, this]
      · simp [h1, h2, ih]

theorem findCall_updPhase (c c' : Nat) (ph : Phase) (calls : List Call) :
    findCall c' (updCall c (fun cl => { cl with phase := ph }) calls) =
      if c' = c then (findCall c' calls).map (fun cl => { cl with phase := ph }) else findCall c' calls :=
  findCall_updCall c (fun cl => { cl with phase := ph }) (fun _ => rfl) c' calls

theorem findCall_runCalls (depth : Nat) (limit : Option Nat) (cnt k c : Nat) (calls : List Call) (cl : Call)
    (h : findCall c calls = some cl) :
    ∃ cnt' k', findCall c (runCalls depth limit cnt k calls).1 = some (runCall depth limit cnt' k' cl).1 := by
  induction calls generalizing cnt k with
  | nil => simp [findCall] at h
  | cons x rest ih =>
    simp only [findCall] at h
    simp only [runCalls, findCall, (runCall_id depth limit cnt k x).1]
    split at h
    · next hx =>
      injection h with h
      subst h
      exact ⟨cnt, k, by simp [hx]⟩
    · next hx =>
      simp only [hx, ↓reduceIte]
      exact ih _ _ h

/-- What the cascade does to a live chain, hop by hop. -/
def dropRunning (hp : Hop) : Hop :=
  if hp.h = .running then { hp with cancel := hp.req, h := .dropped } else hp

theorem cascade_live_eq (c i : Nat) (l : List Hop) (h : Live l) : (cascade c i l).1 = l.map dropRunning := by
  induction l generalizing i with
  | nil => simp [cascade]
  | cons hd rest ih =>
    simp only [cascade]
    split
    · next hr hq =>
      rcases h with ⟨_, _, _, _, h5⟩ | ⟨h1, _⟩
      · simp [dropRunning, hr, hq, ih _ h5]
      · rw [h1] at hr; simp at hr
    · next hne =>
      rcases h with ⟨h1, ⟨rq, h2⟩, _⟩ | ⟨h1, h2⟩
      · exact (hne rq h1 h2).elim
      · have : rest.map dropRunning = rest := by
          clear ih
          induction rest with
          | nil => rfl
          | cons y ys ih2 =>
            have hy : y = {} := h2 y (by simp)
            simp only [List.map_cons]
            rw [ih2 (fun x hx => h2 x (by simp [hx]))]
            subst hy
            simp [dropRunning]
        subst h1
        simp [dropRunning, this]

theorem map_dropRunning_blank {l : List Hop} (h : AllBlank l) : l.map dropRunning = l := by
  induction l with
  | nil => rfl
  | cons y ys ih =>
    have hy : y = {} := h y (by simp)
    simp only [List.map_cons]
    rw [ih (fun x hx => h x (by simp [hx]))]
    subst hy
    simp [dropRunning]

theorem step_abandon_other (s : St) {c c' : Nat} (hne : c' ≠ c) :
    findCall c' (step s (.abandon c)).1.calls = findCall c' s.calls := by
  simp only [step]
  split
  · rfl
  · split
    · simp only []
      rw [findCall_updPhase]
      simp [hne]
    · rfl

/-! ### A call's context is the one its `start` op supplied -/

/-- What `start` fixes for a call. -/
def Call.sig (cl : Call) : Nat × Trace × Nat × Nat := (cl.id, cl.ctx, cl.deadline, cl.stop)

theorem mem_runCalls {depth : Nat} {limit : Option Nat} {cnt k : Nat} {calls : List Call} {x : Call}
    (h : x ∈ (runCalls depth limit cnt k calls).1) :
    ∃ cl ∈ calls, ∃ cnt' k', x = (runCall depth limit cnt' k' cl).1 := by
  induction calls generalizing cnt k with
  | nil => simp [runCalls] at h
  | cons y rest ih =>
    simp only [runCalls] at h
    rcases List.mem_cons.mp h with e | h
    · exact ⟨y, by simp, cnt, k, e⟩
    · obtain ⟨cl, hcl, r⟩ := ih h
      exact ⟨cl, by simp [hcl], r⟩

theorem step_sig (s : St) (op : Op) :
    ∀ cl ∈ (step s op).1.calls, (∃ cl0 ∈ s.calls, cl0.sig = cl.sig) ∨
      op = .start cl.id cl.ctx cl.deadline cl.stop := by
  intro cl hm
  cases op with
  | start c t d stop =>
    simp only [step] at hm
    split at hm
    · rcases List.mem_append.mp hm with hm | hm
      · exact Or.inl ⟨cl, hm, rfl⟩
      · simp only [List.mem_singleton] at hm
        subst hm
        exact Or.inr rfl
    · exact Or.inl ⟨cl, hm, rfl⟩
  | run =>
    simp only [step] at hm
    obtain ⟨cl0, h0, cnt', k', e⟩ := mem_runCalls hm
    have := runCall_id s.depth s.limit cnt' k' cl0
    exact Or.inl ⟨cl0, h0, by simp [Call.sig, e, this.1, this.2.1, this.2.2.1, this.2.2.2]⟩
  | abandon c =>
    simp only [step] at hm
    split at hm
    · exact Or.inl ⟨cl, hm, rfl⟩
    · split at hm
      · rcases mem_updCall hm with hm | ⟨y, hy, _, e⟩
        · exact Or.inl ⟨cl, hm, rfl⟩
        · exact Or.inl ⟨y, hy, by simp [Call.sig, e]⟩
      · exact Or.inl ⟨cl, hm, rfl⟩
  | finish c =>
    simp only [step] at hm
    split at hm
    · exact Or.inl ⟨cl, hm, rfl⟩
    · split at hm
      · rcases mem_updCall hm with hm | ⟨y, hy, _, e⟩
        · exact Or.inl ⟨cl, hm, rfl⟩
        · exact Or.inl ⟨y, hy, by simp [Call.sig, e]⟩
      · exact Or.inl ⟨cl, hm, rfl⟩
  | advance ns =>
    simp only [step] at hm
    split at hm <;> exact Or.inl ⟨cl, hm, rfl⟩

theorem runTrace_sig (s : St) (ops : List Op) :
    ∀ cl ∈ (runTrace s ops).1.calls, (∃ cl0 ∈ s.calls, cl0.sig = cl.sig) ∨
      Op.start cl.id cl.ctx cl.deadline cl.stop ∈ ops := by
  induction ops generalizing s with
  | nil => intro cl hm; exact Or.inl ⟨cl, hm, rfl⟩
  | cons op ops ih =>
    intro cl hm
    simp only [runTrace] at hm
    rcases ih _ cl hm with ⟨cl1, h1, e1⟩ | h
    · rcases step_sig s op cl1 h1 with ⟨cl0, h0, e0⟩ | h
      · exact Or.inl ⟨cl0, h0, e0.trans e1⟩
      · right
        simp only [Call.sig, Prod.mk.injEq] at e1
        rw [← e1.1, ← e1.2.1, ← e1.2.2.1, ← e1.2.2.2, ← h]
        simp
    · exact Or.inr (by simp [h])

end TarpcModel.Chain

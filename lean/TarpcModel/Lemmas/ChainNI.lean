import TarpcModel.Lemmas.ChainMon
/-
Non-interference for the service-chain model: replacing the trace id and sampling decision that
every call other than `c` is started with changes nothing about call `c` — neither its record in
the state nor a single one of its observation lines — and changes the other calls' records and
lines only by that replacement (the model run commutes with the relabelling).
-/
namespace TarpcModel.Chain

def retagT (a : Nat) (b : Bool) (t : Trace) : Trace := { t with traceId := a, sampled := b }

def retagHop (a : Nat) (b : Bool) (hp : Hop) : Hop :=
  { hp with req := hp.req.map (retagT a b), seen := hp.seen.map (retagT a b), cancel := hp.cancel.map (retagT a b) }

def retagObsT (a : Nat) (b : Bool) : Obs → Obs
  | .wireReq i c t d => .wireReq i c (retagT a b t) d
  | .wireCancel i c t => .wireCancel i c (retagT a b t)
  | .handler i c t d => .handler i c (retagT a b t) d
  | o => o

theorem newChild_retagT (a : Nat) (b : Bool) (p : Trace) (k : Nat) :
    newChild (retagT a b p) k = retagT a b (newChild p k) := rfl

theorem extend_retag (a : Nat) (b : Bool) (c dl upto i : Nat) (p : Trace) (k : Nat) (l : List Hop) :
    extend c dl upto i (retagT a b p) k (l.map (retagHop a b)) =
      ((extend c dl upto i p k l).1.map (retagHop a b), (extend c dl upto i p k l).2.1.map (retagObsT a b),
       (extend c dl upto i p k l).2.2) := by
  induction l generalizing i p k with
  | nil => simp [extend]
  | cons hp rest ih =>
    simp only [List.map_cons, extend]
    by_cases hu : upto < i
    · simp [hu]
    · simp only [hu, ↓reduceIte]
      cases hh : hp.h <;> cases hs : hp.seen <;>
        simp [retagHop, hh, hs, newChild_retagT, ih, retagObsT]

theorem cascade_retag (a : Nat) (b : Bool) (c i : Nat) (l : List Hop) :
    cascade c i (l.map (retagHop a b)) =
      ((cascade c i l).1.map (retagHop a b), (cascade c i l).2.map (retagObsT a b)) := by
  induction l generalizing i with
  | nil => simp [cascade]
  | cons hp rest ih =>
    simp only [List.map_cons, cascade]
    cases hh : hp.h <;> cases hs : hp.req <;> simp [retagHop, hh, hs, ih, retagObsT]

theorem complete_retag (a : Nat) (b : Bool) (c i : Nat) (l : List Hop) :
    complete c i (l.map (retagHop a b)) =
      ((complete c i l).1.map (retagHop a b), (complete c i l).2.map (retagObsT a b)) := by
  induction l generalizing i with
  | nil => simp [complete]
  | cons hp rest ih =>
    simp only [List.map_cons, complete, ih]
    by_cases hh : hp.h = .running <;> simp [retagHop, hh, retagObsT]

theorem refuse_retag (a : Nat) (b : Bool) (c dl : Nat) (p : Trace) (k : Nat) (l : List Hop) :
    refuse c dl (retagT a b p) k (l.map (retagHop a b)) =
      ((refuse c dl p k l).1.map (retagHop a b), (refuse c dl p k l).2.1.map (retagObsT a b),
       (refuse c dl p k l).2.2) := by
  cases l <;> simp [refuse, retagHop, retagObsT, newChild_retagT]

/-! ### Whole calls, ops, observations and states -/

def retagCall (c : Nat) (A : Nat → Nat) (B : Nat → Bool) (cl : Call) : Call :=
  if cl.id = c then cl
  else { cl with ctx := retagT (A cl.id) (B cl.id) cl.ctx, hops := cl.hops.map (retagHop (A cl.id) (B cl.id)) }

def retagObs (c : Nat) (A : Nat → Nat) (B : Nat → Bool) (o : Obs) : Obs :=
  match o.call with
  | some c' => if c' = c then o else retagObsT (A c') (B c') o
  | none => o

def retagOp (c : Nat) (A : Nat → Nat) (B : Nat → Bool) : Op → Op
  | .start c' t d st => if c' = c then .start c' t d st else .start c' (retagT (A c') (B c') t) d st
  | op => op

def retagSt (c : Nat) (A : Nat → Nat) (B : Nat → Bool) (s : St) : St :=
  { s with calls := s.calls.map (retagCall c A B) }

theorem retagCall_id (c : Nat) (A : Nat → Nat) (B : Nat → Bool) (cl : Call) :
    (retagCall c A B cl).id = cl.id ∧ (retagCall c A B cl).phase = cl.phase ∧
    (retagCall c A B cl).deadline = cl.deadline ∧ (retagCall c A B cl).stop = cl.stop := by
  unfold retagCall
  split <;> simp

theorem map_retagObs_same {c : Nat} {A : Nat → Nat} {B : Nat → Bool} {l : List Obs}
    (h : ∀ o ∈ l, o.call = some c) : l.map (retagObs c A B) = l := by
  induction l with
  | nil => rfl
  | cons o os ih =>
    simp only [List.map_cons]
    rw [ih (fun x hx => h x (by simp [hx]))]
    simp [retagObs, h o (by simp)]

theorem map_retagObs_other {c c' : Nat} {A : Nat → Nat} {B : Nat → Bool} {l : List Obs}
    (h : ∀ o ∈ l, o.call = some c') (hne : c' ≠ c) :
    l.map (retagObs c A B) = l.map (retagObsT (A c') (B c')) := by
  induction l with
  | nil => rfl
  | cons o os ih =>
    simp only [List.map_cons]
    rw [ih (fun x hx => h x (by simp [hx]))]
    simp [retagObs, h o (by simp), hne]

theorem runCall_retag (c : Nat) (A : Nat → Nat) (B : Nat → Bool) (depth : Nat) (limit : Option Nat)
    (cnt k : Nat) (cl : Call) :
    runCall depth limit cnt k (retagCall c A B cl) =
      (retagCall c A B (runCall depth limit cnt k cl).1, (runCall depth limit cnt k cl).2.1.map (retagObs c A B),
       (runCall depth limit cnt k cl).2.2.1, (runCall depth limit cnt k cl).2.2.2) := by
  by_cases hc : cl.id = c
  · have h1 : retagCall c A B cl = cl := by simp [retagCall, hc]
    have h2 : retagCall c A B (runCall depth limit cnt k cl).1 = (runCall depth limit cnt k cl).1 := by
      simp [retagCall, (runCall_id depth limit cnt k cl).1, hc]
    rw [h1, h2, map_retagObs_same (fun o ho => hc ▸ runCall_obs_call depth limit cnt k cl o ho)]
  · rw [map_retagObs_other (runCall_obs_call depth limit cnt k cl) hc]
    have h1 : retagCall c A B cl =
        { cl with ctx := retagT (A cl.id) (B cl.id) cl.ctx, hops := cl.hops.map (retagHop (A cl.id) (B cl.id)) } := by
      simp [retagCall, hc]
    rw [h1]
    unfold runCall
    cases hph : cl.phase <;> simp only []
    · split
      · simp [refuse_retag, retagCall, hc]
      · simp [extend_retag, retagCall, hc]
    · simp [retagCall, hc, hph]
    · simp [extend_retag, complete_retag, retagCall, hc, retagObsT]
    · simp [cascade_retag, retagCall, hc]
    · simp [retagCall, hc, hph]
    · simp [retagCall, hc, hph]
    · simp [retagCall, hc, hph]

theorem runCalls_retag (c : Nat) (A : Nat → Nat) (B : Nat → Bool) (depth : Nat) (limit : Option Nat)
    (cnt k : Nat) (calls : List Call) :
    runCalls depth limit cnt k (calls.map (retagCall c A B)) =
      ((runCalls depth limit cnt k calls).1.map (retagCall c A B),
       (runCalls depth limit cnt k calls).2.1.map (retagObs c A B), (runCalls depth limit cnt k calls).2.2) := by
  induction calls generalizing cnt k with
  | nil => simp [runCalls]
  | cons cl rest ih =>
    simp only [List.map_cons, runCalls, runCall_retag, ih, List.map_append]

/-! ### The state-level predicates do not look at trace ids -/

section
variable (c : Nat) (A : Nat → Nat) (B : Nat → Bool)

theorem hasCall_retag (c' : Nat) (calls : List Call) :
    hasCall c' (calls.map (retagCall c A B)) = hasCall c' calls := by
  simp [hasCall, List.any_map, Function.comp_def, (retagCall_id c A B _).1]

theorem pendingStart_retag (calls : List Call) :
    pendingStart (calls.map (retagCall c A B)) = pendingStart calls := by
  simp [pendingStart, List.any_map, Function.comp_def, (retagCall_id c A B _).2.1]

theorem pendingFree_retag (calls : List Call) :
    pendingFree (calls.map (retagCall c A B)) = pendingFree calls := by
  simp [pendingFree, List.any_map, Function.comp_def, (retagCall_id c A B _).2.1]

theorem inFlight1_retag (cl : Call) : inFlight1 (retagCall c A B cl) = inFlight1 cl := by
  unfold retagCall
  split
  · rfl
  · cases h : cl.hops <;> simp [inFlight1, h, retagHop]

theorem countInFlight1_retag (calls : List Call) :
    countInFlight1 (calls.map (retagCall c A B)) = countInFlight1 calls := by
  induction calls with
  | nil => rfl
  | cons cl rest ih =>
    simp only [countInFlight1, List.map_cons, List.filter_cons, inFlight1_retag] at ih ⊢
    split <;> simp [ih]

theorem findCall_retag (c' : Nat) (calls : List Call) :
    findCall c' (calls.map (retagCall c A B)) = (findCall c' calls).map (retagCall c A B) := by
  induction calls with
  | nil => rfl
  | cons cl rest ih =>
    simp only [List.map_cons, findCall, (retagCall_id c A B cl).1, ih]
    split <;> simp

theorem updPhase_retag (c' : Nat) (ph : Phase) (calls : List Call) :
    updCall c' (fun cl => { cl with phase := ph }) (calls.map (retagCall c A B)) =
      (updCall c' (fun cl => { cl with phase := ph }) calls).map (retagCall c A B) := by
  induction calls with
  | nil => rfl
  | cons cl rest ih =>
    simp only [List.map_cons, updCall, (retagCall_id c A B cl).1, ih]
    split
    · simp only [List.cons.injEq, and_true]
      unfold retagCall
      split <;> simp_all
    · rfl

theorem advanceAll_retag (p : Nat → Bool) (calls : List Call) :
    (calls.map (retagCall c A B)).all (fun cl => p cl.deadline) = calls.all (fun cl => p cl.deadline) := by
  simp [List.all_map, Function.comp_def, (retagCall_id c A B _).2.2.1]

theorem blank_retag (a : Nat) (b : Bool) (n : Nat) : (blank n).map (retagHop a b) = blank n := by
  simp [blank, retagHop]

theorem startOk_congr {s s' : St} {c' : Nat} {t t' : Trace} {d stop : Nat} (hd : s'.depth = s.depth)
    (hn : s'.now = s.now) (hl : s'.limit = s.limit) (hh : hasCall c' s'.calls = hasCall c' s.calls)
    (hp : pendingFree s'.calls = pendingFree s.calls) (ht : t'.span = t.span) :
    startOk s' c' t' d stop = startOk s c' t d stop := by
  unfold startOk
  rw [hd, hn, hl, hh, hp, ht]

theorem advanceOk_congr {s s' : St} {ns : Nat} (hn : s'.now = s.now)
    (hs : pendingStart s'.calls = pendingStart s.calls) (hp : pendingFree s'.calls = pendingFree s.calls)
    (ha : ∀ p : Nat → Bool, s'.calls.all (fun cl => p cl.deadline) = s.calls.all (fun cl => p cl.deadline)) :
    advanceOk s' ns = advanceOk s ns := by
  unfold advanceOk
  rw [hn, hs, hp, ha (fun d => decide (s.now + ns + margin ≤ d))]

/-- **The model run commutes with relabelling the other calls' trace ids / sampling decisions.** -/
theorem step_retag (s : St) (op : Op) :
    step (retagSt c A B s) (retagOp c A B op) =
      (retagSt c A B (step s op).1, (step s op).2.map (retagObs c A B)) := by
  cases op with
  | start c' t d stop =>
    have hok : ∀ t', t'.span = t.span → startOk (retagSt c A B s) c' t' d stop = startOk s c' t d stop := by
      intro t' ht
      exact startOk_congr rfl rfl rfl (hasCall_retag c A B c' s.calls) (pendingFree_retag c A B s.calls) ht
    by_cases hc : c' = c
    · subst hc
      simp only [retagOp, ↓reduceIte, step]
      rw [hok t rfl]
      split
      · simp [retagSt, retagCall]
      · simp [retagObs, Obs.call]
    · simp only [retagOp, hc, ↓reduceIte, step]
      rw [hok (retagT (A c') (B c') t) rfl]
      split
      · simp [retagSt, retagCall, hc, blank_retag]
      · simp [retagObs, Obs.call]
  | run =>
    simp only [retagOp, step, retagSt, runCalls_retag, countInFlight1_retag]
  | abandon c' =>
    simp only [retagOp, step, retagSt, findCall_retag]
    cases hf : findCall c' s.calls with
    | none => simp [retagObs, Obs.call]
    | some cl =>
      have hap : abandonPhase { s with calls := s.calls.map (retagCall c A B) } (retagCall c A B cl) =
          abandonPhase s cl := by
        simp [abandonPhase, (retagCall_id c A B cl).2.1, pendingStart_retag]
      simp only [Option.map_some, hap]
      cases abandonPhase s cl with
      | none => simp [retagObs, Obs.call]
      | some ph => simp [updPhase_retag]
  | finish c' =>
    simp only [retagOp, step, retagSt, findCall_retag]
    cases hf : findCall c' s.calls with
    | none => simp [retagObs, Obs.call]
    | some cl =>
      have hfo : finishOk { s with calls := s.calls.map (retagCall c A B) } (retagCall c A B cl) =
          finishOk s cl := by
        simp [finishOk, (retagCall_id c A B cl).2.1, pendingStart_retag]
      simp only [Option.map_some, hfo]
      split
      · simp [updPhase_retag]
      · simp [retagObs, Obs.call]
  | advance ns =>
    have hao : advanceOk (retagSt c A B s) ns = advanceOk s ns :=
      advanceOk_congr rfl (pendingStart_retag c A B s.calls) (pendingFree_retag c A B s.calls)
        (fun p => advanceAll_retag c A B p s.calls)
    simp only [retagOp, step, hao]
    split
    · simp [retagSt, retagObs, Obs.call]
    · simp [retagObs, Obs.call]

theorem runTrace_retag (s : St) (ops : List Op) :
    runTrace (retagSt c A B s) (ops.map (retagOp c A B)) =
      (retagSt c A B (runTrace s ops).1,
       (runTrace s ops).2.map (fun p => (retagOp c A B p.1, p.2.map (retagObs c A B)))) := by
  induction ops generalizing s with
  | nil => rfl
  | cons op ops ih =>
    simp only [List.map_cons, runTrace, step_retag, ih]

theorem retagSt_init (depth : Nat) (limit : Option Nat) : retagSt c A B (init depth limit) = init depth limit := rfl

theorem findCall_retag_self (calls : List Call) :
    findCall c (calls.map (retagCall c A B)) = findCall c calls := by
  rw [findCall_retag]
  cases h : findCall c calls with
  | none => rfl
  | some cl => simp [retagCall, (findCall_some h).2]

theorem filter_retagObs_self (l : List Obs) :
    (l.map (retagObs c A B)).filter (fun o => o.call == some c) = l.filter (fun o => o.call == some c) := by
  induction l with
  | nil => rfl
  | cons o os ih =>
    have hcall : (retagObs c A B o).call = o.call := by
      unfold retagObs
      cases h : o.call with
      | none => simp [h]
      | some c' =>
        simp only
        split
        · exact h
        · cases o <;> simp_all [retagObsT, Obs.call]
    simp only [List.map_cons, List.filter_cons, hcall, ih]
    split
    · next h =>
      simp only [beq_iff_eq] at h
      simp [retagObs, h]
    · rfl

end

end TarpcModel.Chain

import TarpcModel.Lemmas.ServerTab5
import TarpcModel.Lemmas.DelayQOrder
/-!
The last clause of the C11 monitor (`checkC11Bound`: no more requests in flight than the monitor's table lists), part 1:

* the timer queue of every reachable state keeps `DelayQ.StackEq` (`SQ`, `sq_closed`), so the channel's `poll_expired`
  yields the tracked request whose timer has the earliest tick (`expireStep_min`, `pollExpired_min`);
* the book's `sweepOne`, exactly (`sweepOne_min`, `sweepOne_ao`);
* a fourth coupling `Z` between the book and the model — every tracked request that has been handed out is in the
  book's table, and the book's abandonment order is the model's queue of guard cancellations — and how the steps of
  the model and of the book keep it.
-/
namespace TarpcModel.Server.Tab
open TarpcModel TarpcModel.Server TarpcModel.Server.Flow TarpcModel.Server.ObsMon TarpcModel.Server.Mon06
open TarpcModel.Server.Mon11
set_option linter.unusedSimpArgs false
set_option linter.unusedVariables false

/-! ## the `expired` stack of the timer queue -/

/-- the entries on the `expired` stack of the channel's timer queue carry the wheel clock as their tick -/
def SQ (s : St) : Prop := DelayQ.StackEq s.timers

theorem SQ.of_timers {s s' : St} (h : SQ s) (ht : s'.timers = s.timers) : SQ s' := by
  unfold SQ; rw [ht]; exact h

theorem SQ.removeTimer {s : St} (h : SQ s) (k : Nat) : SQ (removeTimer s k) := by
  unfold Server.removeTimer
  cases hr : s.timers.remove k with
  | none => exact h
  | some p =>
    obtain ⟨q, w⟩ := p
    have hq : DelayQ.StackEq q := DelayQ.remove_stackEq hr h
    simp only
    split
    · show DelayQ.StackEq _; rw [wakeServer_timers]; exact hq
    · exact hq

theorem SQ.removeRequest {s : St} (h : SQ s) (id : Nat) : SQ (removeRequest s id).1 := by
  unfold Server.removeRequest
  split
  · exact h
  · exact SQ.removeTimer (show SQ { s with inflight := s.inflight.filter (·.id != id) } from h.of_timers rfl) _

theorem SQ.cancelRequest {s : St} (h : SQ s) (id : Nat) : SQ (cancelRequest s id).1 := by
  unfold Server.cancelRequest
  split
  · exact h
  · next e _ =>
    exact SQ.removeTimer (show SQ (abortExec { s with inflight := s.inflight.filter (·.id != id) } e.rid) from
      h.of_timers (by rw [abortExec_timers])) _

theorem SQ.expireStep {now : Nat} {s : St} (h : SQ s) : SQ (Server.expireStep s now).1 := by
  have hq : DelayQ.StackEq (s.timers.pollExpired now).1 := DelayQ.pollExpired_stackEq now h
  have hs := expireStep_shape s now
  revert hs
  generalize Server.expireStep s now = p
  intro hs
  obtain ⟨s', r⟩ := p
  dsimp only at hs ⊢
  cases hs with
  | idleNone q hp => rw [hp] at hq; exact hq
  | idlePending q hp => rw [hp] at hq; exact hq
  | orphan q e hp hf' => rw [hp] at hq; exact hq
  | abort q e en hp hf' h0 => rw [hp] at hq; show DelayQ.StackEq _; rw [abortExec_timers]; exact hq
  | rearmed q e en s2 hp hf' h0 hr =>
    rw [hp] at hq
    obtain ⟨q2, key, w, hi, rfl⟩ := rearm_some hr
    exact DelayQ.insert_stackEq hi hq
  | panicked q e en hp hf' h0 hr => exact h

theorem SQ.expire {now : Nat} {s : St} (h : SQ s) : SQ (pollExpired s now).1 :=
  pollExpired_ind (P := SQ) now (fun _ h1 => h1.of_timers (emit_timers _ _)) (fun _ h1 => h1.expireStep) s h

theorem SQ.start {now : Nat} {s : St} (h : SQ s) (id d : Nat) (tr : Trace) (b : Nat) :
    SQ (startRequest s now id d tr b).1 := by
  unfold Server.startRequest
  split
  · exact h
  · rcases hi : s.timers.insert now (clampTimeout (d - now)) id with ⟨q, r, w⟩
    have hq : DelayQ.StackEq q := DelayQ.insert_stackEq hi h
    cases r with
    | panic => exact h
    | ok key => exact hq

theorem SQ.drop {s : St} (h : SQ s) : SQ (dropServer s) := by
  unfold Server.dropServer
  split
  · exact h
  · exact DelayQ.StackEq_empty

theorem sq_closed (now : Nat) : PrimClosed now SQ where
  inert := fun _ _ hi h => h.of_timers hi.timers
  emit := fun _ _ _ h => h.of_timers (emit_timers _ _)
  upd := fun _ _ _ _ h => h.of_timers (updExec_timers _ _ _)
  setT := fun _ _ h => h.of_timers rfl
  setFused := fun _ h => h.of_timers rfl
  removeReq := fun _ id h => h.removeRequest id
  cancel := fun s id _ h _ => (h.of_timers (tNext_timers s)).cancelRequest id
  expire := fun _ h => h.expire
  start := fun _ id d tr b h => h.start id d tr b
  timerWaker := fun _ b h => DelayQ.StackEq.of_eq h rfl rfl
  spin := fun _ h => h.of_timers (emit_timers _ _)
  spunReset := fun _ _ _ h => h.of_timers rfl
  setDone := fun _ _ h => h.of_timers rfl
  drop := fun _ h => h.drop


/-! ## `poll_expired` yields the tracked request with the earliest tick -/

theorem cores_key_inj {q : DelayQ} (h : DelayQ.KeysOk q) {c c' : Nat × Nat × Nat} (hc : c ∈ q.cores) (hc' : c' ∈ q.cores)
    (hk : c.1 = c'.1) : c = c' := by
  obtain ⟨y, hy, rfl⟩ := List.mem_map.mp hc
  obtain ⟨y', hy', rfl⟩ := List.mem_map.mp hc'
  have : y = y' := eq_of_map_nodup (·.key) h.nodup hy hy' hk
  rw [this]

/-- the iteration of `poll_expired`'s loop that reports an expiration removes a tracked request whose timer was due, with
a tick not after that of any tracked request -/
theorem expireStep_min {now : Nat} {s : St} (ht : TInv now s) (hc : DelayQ.Complete s.timers) (hq : SQ s)
    (hr : (expireStep s now).2 = some .ready) :
    ∃ en0 ∈ s.inflight, (∀ en ∈ (expireStep s now).1.inflight, en ∈ s.inflight ∧ en.id ≠ en0.id) ∧
      ceilMs en0.dueAt * nsPerMs ≤ now ∧ ∀ en ∈ s.inflight, ceilMs en0.dueAt ≤ ceilMs en.dueAt := by
  have hs := expireStep_shape s now
  revert hs hr; generalize expireStep s now = p; intro hr hs
  obtain ⟨s', r⟩ := p
  dsimp only at hs hr ⊢
  cases hs with
  | idleNone q hp => cases hr
  | idlePending q hp => cases hr
  | orphan q e hp hf =>
    exfalso
    obtain ⟨_, _, _, _, _, hne⟩ := ht.popped hp
    exact hne hf
  | abort q e en' hp hf h0 =>
    obtain ⟨en0, hen0, hk, hv, huniq, _⟩ := ht.popped hp
    obtain ⟨hcore, hcs⟩ := DelayQ.pollExpired_expired hp ht.wf
    have hne := DelayQ.pollExpired_not_early hp ht.sound
    have htk0 := ht.tk en0 hen0 _ hcore hk.symm
    have hw : (DelayQ.core e).2.2 = e.whenMs := rfl
    rw [hw] at htk0
    have hmin := DelayQ.pollExpired_min now hc hq (e := e) (by rw [hp])
    rw [hp] at hmin
    refine ⟨en0, hen0, ?_, by rw [← htk0]; exact hne, ?_⟩
    · intro en hen
      have : (abortExec { s with timers := q, inflight := s.inflight.filter (·.id != e.val) } en'.rid).inflight =
          s.inflight.filter (·.id != e.val) := by simp
      rw [this] at hen
      obtain ⟨h1, h2⟩ := List.mem_filter.mp hen
      exact ⟨h1, by rw [hv]; simpa using h2⟩
    · intro en hen
      by_cases hee : en = en0
      · rw [hee]; exact Nat.le_refl _
      · obtain ⟨c, hcm, hck, hci⟩ := ht.fwd en hen
        have hkne : c.1 ≠ e.key := by
          intro hke
          have : c = DelayQ.core e := cores_key_inj ht.wf hcm hcore hke
          have hid : en.id = en0.id := by
            rw [← hci, this, hv]; rfl
          exact hee (eq_of_map_nodup (·.id) ht.ids hen hen0 hid)
        have hcq : c ∈ q.cores := (hcs c).mpr ⟨hcm, hkne⟩
        obtain ⟨y, hy, rfl⟩ := List.mem_map.mp hcq
        have htk := ht.tk en hen _ hcm hck
        have hwy : (DelayQ.core y).2.2 = y.whenMs := rfl
        rw [hwy] at htk
        rw [← htk0, ← htk]
        exact hmin y hy
  | rearmed q e en s2 hp hf h0 hr' => cases hr
  | panicked q e en hp hf h0 hr' => cases hr

theorem pollExpiredLoop_min (hf : ClampFits) {now : Nat} (hn : now < panicFreeNs) : ∀ (fuel : Nat) (s : St), TInv now s →
    DelayQ.Complete s.timers → SQ s → (∀ en ∈ s.inflight, en.remainder = 0) → (pollExpiredLoop fuel s now).2 = .ready →
    ∃ en0 ∈ s.inflight, (∀ en ∈ (pollExpiredLoop fuel s now).1.inflight, en ∈ s.inflight ∧ en.id ≠ en0.id) ∧
      ceilMs en0.dueAt * nsPerMs ≤ now ∧
      ∀ en ∈ (pollExpiredLoop fuel s now).1.inflight, ceilMs en0.dueAt ≤ ceilMs en.dueAt := by
  intro fuel
  induction fuel with
  | zero => intro s _ _ _ _ hr; cases hr
  | succ n ih =>
    intro s ht hc hq hrem
    rw [pollExpiredLoop_succ]
    have h1 := expireStep_min ht hc hq
    have h2 : TInv now (expireStep s now).1 := ht.expireStep
    have h3 : QC now (expireStep s now).1 := QC.expireStep hf (fun _ => hc)
    have h4 : SQ (expireStep s now).1 := hq.expireStep
    have h5 := (my_expireStep (now := now) hrem).1.ents
    have h6 := (my_expireStep (now := now) hrem).2
    revert h1 h2 h3 h4 h5 h6
    generalize expireStep s now = p
    intro h1 h2 h3 h4 h5 h6
    rcases p with ⟨s', r⟩
    cases r with
    | some r =>
      intro hr
      dsimp only at hr h1 ⊢
      subst hr
      obtain ⟨en0, hen0, ha, hb, hcc⟩ := h1 rfl
      exact ⟨en0, hen0, ha, hb, fun en hen => hcc en (ha en hen).1⟩
    | none =>
      intro hr
      dsimp only at hr h2 h3 h4 h5 h6 ⊢
      obtain ⟨en0, hen0, ha, hb, hcc⟩ := ih s' h2 (h3 hn) h4 h6 hr
      exact ⟨en0, h5 en0 hen0, fun en hen => ⟨h5 en (ha en hen).1, (ha en hen).2⟩, hb, hcc⟩


/-- **The channel's `poll_expired` expires the tracked request with the earliest tick**: if it reports an expiration, a
tracked request is gone whose timer was due and whose tick is not after that of any request still tracked. -/
theorem pollExpired_minS (hf : ClampFits) {now : Nat} (hn : now < panicFreeNs) {s : St} (ht : TInv now s)
    (hc : DelayQ.Complete s.timers) (hq : SQ s) (hrem : ∀ en ∈ s.inflight, en.remainder = 0)
    (hr : (pollExpired s now).2 = .ready) :
    ∃ en0 ∈ s.inflight, (∀ en ∈ (pollExpired s now).1.inflight, en ∈ s.inflight ∧ en.id ≠ en0.id) ∧
      ceilMs en0.dueAt * nsPerMs ≤ now ∧
      ∀ en ∈ (pollExpired s now).1.inflight, ceilMs en0.dueAt ≤ ceilMs en.dueAt := by
  unfold Server.pollExpired at hr ⊢
  split
  · next he => rw [if_pos he] at hr; cases hr
  · next he =>
    rw [if_neg he] at hr
    exact pollExpiredLoop_min hf hn _ s ht hc hq hrem hr


/-! ## the book's `sweepOne`, exactly -/

theorem minOf_le (d : Nat × Nat) (ds : List (Nat × Nat)) : ∀ x ∈ d :: ds, (minOf d ds).1 ≤ x.1 := by
  unfold minOf
  induction ds generalizing d with
  | nil => intro x hx; simp only [List.mem_singleton] at hx; rw [hx]; exact Nat.le_refl _
  | cons y ds ih =>
    intro x hx
    simp only [List.foldl_cons]
    split
    · next hlt =>
      have h0 := ih y y (List.mem_cons_self ..)
      simp only [List.mem_cons] at hx
      rcases hx with rfl | rfl | hx
      · omega
      · exact h0
      · exact ih y x (List.mem_cons_of_mem _ hx)
    · next hlt =>
      have h0 := ih d d (List.mem_cons_self ..)
      simp only [List.mem_cons] at hx
      rcases hx with rfl | rfl | hx
      · exact h0
      · omega
      · exact ih d x (List.mem_cons_of_mem _ hx)

theorem dueOf_mem' (b : Book) (q : Nat × Nat) (h : q ∈ dueOf b) :
    ∃ e, b.exec q.2 = some e ∧ e.tick ≤ b.now ∧ q.1 = e.tick := by
  unfold dueOf at h
  obtain ⟨p, hp, hq⟩ := List.mem_filterMap.mp h
  obtain ⟨i, r⟩ := p
  simp only at hq
  split at hq
  · next e he =>
    split at hq
    · next hle => cases hq; exact ⟨e, he, hle, rfl⟩
    · cases hq
  · cases hq

theorem dueOf_intro (b : Book) {p : Nat × Nat} (hp : p ∈ b.table) {e : BExec} (he : b.exec p.2 = some e)
    (hle : e.tick ≤ b.now) : (e.tick, p.2) ∈ dueOf b := by
  unfold dueOf
  refine List.mem_filterMap.mpr ⟨p, hp, ?_⟩
  obtain ⟨i, r⟩ := p
  simp only at he ⊢
  rw [he]
  exact if_pos hle

theorem eq_of_length_one {α : Type} {l : List α} (h : l.length = 1) {a b : α} (ha : a ∈ l) (hb : b ∈ l) : a = b := by
  match l, h with
  | [x], _ =>
    simp only [List.mem_singleton] at ha hb
    rw [ha, hb]

theorem so1_table_mem (b : Book) (p : Nat × Nat) :
    p ∈ (so1 b).table ↔ p ∈ b.table ∧ ∀ r rest, b.abandonOrder = r :: rest → p.2 ≠ r := by
  unfold so1
  split
  · next r rest heq =>
    simp only [List.mem_filter, bne_iff_ne, ne_eq]
    constructor
    · rintro ⟨h1, h2⟩
      refine ⟨h1, fun r' rest' h => ?_⟩
      rw [heq] at h
      have : r = r' := (List.cons.inj h).1
      rw [← this]; exact h2
    · rintro ⟨h1, h2⟩
      exact ⟨h1, h2 r rest heq⟩
  · next heq => exact ⟨fun h => ⟨h, fun r rest h' => by rw [heq] at h'; cases h'⟩, fun h => h.1⟩

theorem so1_ao (b : Book) : (so1 b).abandonOrder = b.abandonOrder.tail := by
  unfold so1; split
  · next r rest heq => rw [heq]; rfl
  · next heq => rw [heq]; rfl

theorem sweepOne_ao (b : Book) : b.sweepOne.abandonOrder = b.abandonOrder.tail := by
  rw [sweepOne_eq]
  split
  · exact so1_ao b
  · split
    · exact so1_ao b
    · exact so1_ao b

/-- what `sweepOne` removes from the table: the entries of the execution at the head of the abandonment order, and those
of the due execution whose tick is earlier than that of every other due execution still listed -/
theorem sweepOne_min (b : Book) : ∀ p ∈ b.table, p ∈ b.sweepOne.table ∨
    (∃ r rest, b.abandonOrder = r :: rest ∧ p.2 = r) ∨
    ∃ e, b.exec p.2 = some e ∧ e.tick ≤ b.now ∧
      ∀ p' ∈ (so1 b).table, p'.2 ≠ p.2 → ∀ e', b.exec p'.2 = some e' → e'.tick ≤ b.now → e.tick < e'.tick := by
  obtain ⟨h1, h2, _, _, _, h6, _⟩ := so1_spec b
  have hex : ∀ r, (so1 b).exec r = b.exec r := by intro r; unfold Book.exec; rw [h2]
  intro p hp
  rw [sweepOne_eq]
  split
  · exact (h6 p hp).imp (fun h => h) Or.inl
  · next d ds hdue =>
    split
    · next hlen =>
      have hlen' : ((dueOf (so1 b)).filter (·.1 == (minOf d ds).1)).length = 1 := by simpa using hlen
      rcases h6 p hp with h | h
      · by_cases hm : p.2 = (minOf d ds).2
        · right; right
          have hmem : minOf d ds ∈ dueOf (so1 b) := by rw [hdue]; exact minOf_mem d ds
          obtain ⟨e, he, hle, htk⟩ := dueOf_mem' (so1 b) _ hmem
          rw [hex] at he
          rw [h1] at hle
          refine ⟨e, by rw [hm]; exact he, hle, ?_⟩
          intro p' hp' hne e' he' hle'
          have hx' : (e'.tick, p'.2) ∈ dueOf (so1 b) :=
            dueOf_intro (so1 b) hp' (by rw [hex]; exact he') (by rw [h1]; exact hle')
          have hge : (minOf d ds).1 ≤ e'.tick := by
            have := minOf_le d ds (e'.tick, p'.2) (by rw [← hdue]; exact hx')
            exact this
          rcases Nat.lt_or_ge (minOf d ds).1 e'.tick with hlt | hge'
          · rw [← htk]; exact hlt
          · exfalso
            have heq : e'.tick = (minOf d ds).1 := Nat.le_antisymm hge' hge
            have ha : (e'.tick, p'.2) ∈ (dueOf (so1 b)).filter (·.1 == (minOf d ds).1) :=
              List.mem_filter.mpr ⟨hx', by simp [heq]⟩
            have hb : minOf d ds ∈ (dueOf (so1 b)).filter (·.1 == (minOf d ds).1) :=
              List.mem_filter.mpr ⟨hmem, by simp⟩
            have := eq_of_length_one hlen' ha hb
            have h2' : p'.2 = (minOf d ds).2 := by rw [← this]
            exact hne (h2'.trans hm.symm)
        · exact Or.inl (List.mem_filter.mpr ⟨h, by simpa using hm⟩)
      · exact Or.inr (Or.inl h)
    · exact (h6 p hp).imp (fun h => h) Or.inl

/-! ## the book never leaves a channel poll by an observation -/

theorem sweepOne_topPoll (b : Book) : b.sweepOne.topPoll = b.topPoll := by
  rw [sweepOne_eq]
  have h1 : (so1 b).topPoll = b.topPoll := by unfold so1; split <;> rfl
  split
  · exact h1
  · split
    · exact h1
    · exact h1

theorem step_obs_topPoll (b : Book) (o : Obs) : (b.step (.obs o)).topPoll = b.topPoll := by
  cases o with
  | tNext ep r =>
    rw [step_tNext_eq]
    have hp : (preRead b).topPoll = b.topPoll := by
      unfold preRead
      split
      · exact sweepOne_topPoll _
      · rfl
    cases r with
    | item m =>
      cases m with
      | request id d tr body => exact hp
      | cancel id tr =>
        simp only
        generalize (preRead b).table.reverse.find? (fun p : Nat × Nat => p.1 == id) = o
        cases o with
        | none => exact hp
        | some p => obtain ⟨i, r⟩ := p; exact hp
      | response id res => exact hp
    | pending => exact hp
    | err => exact hp
    | eof => exact hp
  | tReady ep r =>
    simp only [Book.step]
    (repeat' split) <;> rfl
  | tFlush ep r =>
    simp only [Book.step]
    (repeat' split) <;> rfl
  | tSend ep m ok =>
    cases m with
    | response id res => cases ok <;> rfl
    | _ => rfl
  | ret t r =>
    cases t with
    | server k =>
      rw [step_ret_eq]
      cases r <;> (simp only; split <;> rfl)
    | exec v => cases r <;> rfl
    | _ => rfl
  | handler r ev t => cases ev <;> rfl
  | counts ep a c => cases ep <;> rfl
  | _ => rfl

theorem bo_topPoll (b : Book) (l : List Obs) : (bo b l).topPoll = b.topPoll := by
  induction l with
  | nil => rfl
  | cons o l ih => rw [bo_cons, step_obs_topPoll]; exact ih


/-! ## the fourth coupling: the table lists every tracked request handed out; the abandonment order is the queue of
guard cancellations -/

/-- two lists related position by position -/
inductive All2 {α β : Type} (R : α → β → Prop) : List α → List β → Prop
  | nil : All2 R [] []
  | cons {a : α} {b : β} {l1 : List α} {l2 : List β} : R a b → All2 R l1 l2 → All2 R (a :: l1) (b :: l2)

theorem forall2_imp {α β : Type} {R R' : α → β → Prop} (hi : ∀ a b, R a b → R' a b) :
    ∀ {l1 : List α} {l2 : List β}, All2 R l1 l2 → All2 R' l1 l2
  | _, _, .nil => .nil
  | _, _, .cons h t => .cons (hi _ _ h) (forall2_imp hi t)

theorem forall2_snoc {α β : Type} {R : α → β → Prop} {a : α} {b : β} (hab : R a b) :
    ∀ {l1 : List α} {l2 : List β}, All2 R l1 l2 → All2 R (l1 ++ [a]) (l2 ++ [b])
  | _, _, .nil => .cons hab .nil
  | _, _, .cons h t => .cons h (forall2_snoc hab t)

theorem forall2_nil_right {α β : Type} {R : α → β → Prop} {l1 : List α} (h : All2 R l1 []) : l1 = [] := by
  cases h; rfl

/-- the book knows the execution `r`, of request id `i` -/
def RI (B : BW) (r i : Nat) : Prop := ∃ eb ∈ B.execs, eb.rid = r ∧ eb.id = i

/-- no tracked request's execution was handed out as number `r` -/
def UT (S : MV) (r : Nat) : Prop := ∀ en ∈ S.ents, ∀ x ∈ S.execs, x.rid = en.rid → x.vis ≠ some r

/-- the book's abandonment order and the model's queue of guard cancellations, position by position; `pop`: this
iteration of the channel's loop has taken the head of the queue already, the book has not yet -/
def AL (B : BW) (S : MV) (ao : List Nat) : Bool → Prop
  | false => All2 (RI B) ao S.cq
  | true => (ao = [] ∧ S.cq = []) ∨ ∃ r l, ao = r :: l ∧ UT S r ∧ All2 (RI B) l S.cq

/-- (`m`: `some pop` — the abandonment order is aligned with the queue, see `AL`; `none` — no claim: the read side of
the transport is at its end, the book sees no more reads) -/
structure Z (pend : Option (Nat × Nat)) (m : Option Bool) (B : BW) (ao : List Nat) (S : MV) : Prop where
  sub : ∀ en ∈ S.ents, ∀ x ∈ S.execs, x.rid = en.rid →
    (∃ i, pend = some (x.rid, i)) ∨ ∃ v, x.vis = some v ∧ (en.id, v) ∈ B.table
  al : ∀ pop, m = some pop → AL B S ao pop

variable {pend : Option (Nat × Nat)} {m : Option Bool}

theorem UT.model {S S' : MV} {r : Nat} (h : UT S r) {α : Type} (l : List α) (p q : α → YE)
    (hS : S.execs = l.map p) (hS' : S'.execs = l.map q) (hg : ∀ a ∈ l, (q a).rid = (p a).rid ∧ (q a).vis = (p a).vis)
    (hents : ∀ en' ∈ S'.ents, en' ∈ S.ents) : UT S' r := by
  intro en hen x hx hr
  rw [hS'] at hx
  obtain ⟨a, ha, rfl⟩ := List.mem_map.mp hx
  rw [(hg a ha).2]
  exact h en (hents en hen) (p a) (by rw [hS]; exact List.mem_map_of_mem ha) ((hg a ha).1.symm.trans hr)

theorem Z.forget {B : BW} {ao : List Nat} {S : MV} (h : Z pend m B ao S) : Z pend none B ao S :=
  ⟨h.sub, fun _ hm => by cases hm⟩

/-- a step of the model and of the book: the executions keep their numbers, the model's table shrinks, the book keeps
the entries of the requests still tracked -/
theorem Z.model {B B' : BW} {ao : List Nat} {S S' : MV} (h : Z pend m B ao S)
    (hRI : ∀ r i, RI B r i → RI B' r i)
    (hBt : ∀ p ∈ B.table, (∃ en' ∈ S'.ents, en'.id = p.1) → p ∈ B'.table)
    {α : Type} (l : List α) (p q : α → YE) (hS : S.execs = l.map p) (hS' : S'.execs = l.map q)
    (hg : ∀ a ∈ l, (q a).rid = (p a).rid ∧ (q a).vis = (p a).vis)
    (hents : ∀ en' ∈ S'.ents, en' ∈ S.ents) (hcq : m ≠ none → S'.cq = S.cq) : Z pend m B' ao S' := by
  refine ⟨?_, ?_⟩
  · intro en hen x hx hr
    rw [hS'] at hx
    obtain ⟨a, ha, rfl⟩ := List.mem_map.mp hx
    have hpa : p a ∈ S.execs := by rw [hS]; exact List.mem_map_of_mem ha
    rcases h.sub en (hents en hen) (p a) hpa ((hg a ha).1.symm.trans hr) with ⟨i, hp⟩ | ⟨v, hv, ht⟩
    · exact Or.inl ⟨i, by rw [(hg a ha).1]; exact hp⟩
    · exact Or.inr ⟨v, by rw [(hg a ha).2]; exact hv, hBt _ ht ⟨en, hen, rfl⟩⟩
  · intro pop hm
    have hal := h.al pop hm
    have hcq' : S'.cq = S.cq := hcq (by rw [hm]; exact fun hc => by cases hc)
    cases pop with
    | false =>
      show All2 (RI B') ao S'.cq
      rw [hcq']; exact forall2_imp hRI hal
    | true =>
      show (ao = [] ∧ S'.cq = []) ∨ _
      rcases hal with ⟨h1, h2⟩ | ⟨r, l', h1, h2, h3⟩
      · exact Or.inl ⟨h1, by rw [hcq']; exact h2⟩
      · exact Or.inr ⟨r, l', h1, h2.model l p q hS hS' hg hents, by rw [hcq']; exact forall2_imp hRI h3⟩

theorem Z.congr {B : BW} {ao : List Nat} {S S' : MV} (h : Z pend m B ao S) (hex : S'.execs = S.execs)
    (hen : S'.ents = S.ents) (hcq : S'.cq = S.cq) : Z pend m B ao S' :=
  h.model (fun _ _ h => h) (fun _ hp _ => hp) S.execs id id (by simp) (by simp [hex]) (fun _ _ => ⟨rfl, rfl⟩)
    (fun en' h' => by rw [← hen]; exact h') (fun _ => hcq)

/-- the book's view changes in what the coupling does not read -/
theorem Z.book {B B' : BW} {ao : List Nat} {S : MV} (h : Z pend m B ao S) (hBe : B'.execs = B.execs)
    (hBt : B'.table = B.table) : Z pend m B' ao S :=
  h.model (fun r i ⟨eb, h1, h2⟩ => ⟨eb, by rw [hBe]; exact h1, h2⟩) (fun p hp _ => by rw [hBt]; exact hp)
    S.execs id id (by simp) (by simp) (fun _ _ => ⟨rfl, rfl⟩) (fun _ h' => h') (fun _ => rfl)

/-- from an exact step of the model to the views -/
theorem Z_my {B : BW} {ao : List Nat} {s s' : St} (hm : MY s s') (h : Z pend m B ao (mv s)) : Z pend m B ao (mv s') := by
  obtain ⟨g, hg, hid⟩ := hm.ex
  refine h.model (fun _ _ h => h) (fun _ hp _ => hp) s.execs ye (ye ∘ g) rfl
    (by show s'.execs.map ye = _; rw [hg, List.map_map]) (fun a _ => ⟨(hid a).1, (hid a).2.2.1⟩) ?_ (fun _ => hm.cq)
  intro en' hen'
  obtain ⟨e0, he0, rfl⟩ := List.mem_map.mp hen'
  exact List.mem_map_of_mem (hm.ents e0 he0)

/-- the channel takes the head of the queue of guard cancellations -/
theorem Z.pop1 {rest : List Nat} {B : BW} {ao : List Nat} {S S' : MV} (h : Z none (some false) B ao S) (hX : X rest B S)
    (heid : ∀ en ∈ S.ents, ∀ x ∈ S.execs, x.rid = en.rid → x.id = en.id)
    (i : Nat) (l : List Nat) (hq : S.cq = i :: l) (hex : S'.execs = S.execs) (hcq : S'.cq = l)
    (hents : ∀ en' ∈ S'.ents, en' ∈ S.ents ∧ en'.id ≠ i) : Z none (some true) B ao S' := by
  refine ⟨?_, ?_⟩
  · intro en hen x hx hr
    rw [hex] at hx
    exact h.sub en (hents en hen).1 x hx hr
  · intro pop hm
    cases hm
    have hal : All2 (RI B) ao S.cq := h.al false rfl
    rw [hq] at hal
    cases hal with
    | cons hri htl =>
      next r ao' =>
      refine Or.inr ⟨r, ao', rfl, ?_, by rw [hcq]; exact htl⟩
      obtain ⟨eb, heb, hr, hi⟩ := hri
      intro en hen x hx hxr hv
      rw [hex] at hx
      have h1 := hX.bid eb heb x hx (by rw [hv, hr])
      have h2 := heid en (hents en hen).1 x hx hxr
      exact (hents en hen).2 (by rw [← h2, h1, hi])

theorem Z.pop0 {B : BW} {ao : List Nat} {S S' : MV} (h : Z none (some false) B ao S) (hq : S.cq = [])
    (hex : S'.execs = S.execs) (hen : S'.ents = S.ents) (hcq : S'.cq = S.cq) : Z none (some true) B ao S' := by
  refine ⟨(h.congr hex hen hcq).sub, ?_⟩
  intro pop hm
  cases hm
  have hal : All2 (RI B) ao S.cq := h.al false rfl
  rw [hq] at hal
  exact Or.inl ⟨forall2_nil_right hal, by rw [hcq]; exact hq⟩

/-- a tracked request that has been handed out: the book's tick is the model's -/
theorem tick_eq {rest : List Nat} {now : Nat} {B : BW} {S : MV} (hX : X rest B S) (hY : Y now none B S)
    {en : ZE} (hen : en ∈ S.ents) {x : YE} (hx : x ∈ S.execs) (hr : x.rid = en.rid) {eb : WB} (heb : eb ∈ B.execs)
    (hv : x.vis = some eb.rid) : eb.tick = ceilMs en.due * nsPerMs := by
  have h1 := hX.hi en hen x hx hr eb heb hv
  have h2 := hY.lo en hen x hx hr eb heb hv
  have h3 := hY.rem0 en hen
  have h6 : eb.tick = ceilMs (max eb.deadline eb.yieldedAt) * nsPerMs := rfl
  rw [h6]
  have : max eb.deadline eb.yieldedAt = en.due := by omega
  rw [this]

/-- after the expiry step of an iteration of the channel's loop: no tracked request is due — or a request whose timer
fired in this iteration is still in the book's table (and not at the head of the abandonment order), with a tick not
after that of any request still tracked -/
def ME (now : Nat) (B : BW) (ao : List Nat) (S : MV) : Prop :=
  (∀ en ∈ S.ents, now < ceilMs en.due * nsPerMs) ∨
  ∃ eb ∈ B.execs, (eb.id, eb.rid) ∈ B.table ∧ (∀ r l, ao = r :: l → eb.rid ≠ r) ∧ (∀ en ∈ S.ents, en.id ≠ eb.id) ∧
    eb.tick ≤ now ∧ ∀ en ∈ S.ents, eb.tick ≤ ceilMs en.due * nsPerMs

theorem ME.of_min {rest : List Nat} {now : Nat} {B : BW} {ao : List Nat} {S S' : MV} (hZ : Z none (some true) B ao S)
    (hX : X rest B S) (hY : Y now none B S) (hdr : S.dropped = false) {en0 : ZE} (hen0 : en0 ∈ S.ents)
    (hgone : ∀ en ∈ S'.ents, en ∈ S.ents ∧ en.id ≠ en0.id) (hdue : ceilMs en0.due * nsPerMs ≤ now)
    (hmin : ∀ en ∈ S'.ents, ceilMs en0.due ≤ ceilMs en.due) : ME now B ao S' := by
  right
  obtain ⟨x, hx, hxr⟩ := hX.esrc en0 hen0
  rcases hZ.sub en0 hen0 x hx hxr with ⟨i, hp⟩ | ⟨v, hv, ht⟩
  · cases hp
  · obtain ⟨eb, heb, hbr, hbi, _⟩ := hY.i2 hdr _ ht
    have hbr' : eb.rid = v := hbr
    have hbi' : eb.id = en0.id := hbi
    have htk := tick_eq hX hY hen0 hx hxr heb (by rw [hbr']; exact hv)
    refine ⟨eb, heb, by rw [hbr', hbi']; exact ht, ?_, fun en hen => by rw [hbi']; exact (hgone en hen).2,
      by rw [htk]; exact hdue, fun en hen => by rw [htk]; exact Nat.mul_le_mul_right _ (hmin en hen)⟩
    intro r l hao
    rcases hZ.al true rfl with ⟨h1, _⟩ | ⟨r', l', h1, hut, _⟩
    · rw [h1] at hao; cases hao
    · rw [h1] at hao
      have : r' = r := (List.cons.inj hao).1
      rw [← this, hbr']
      intro hc
      exact hut en0 hen0 x hx hxr (by rw [hv, hc])

/-- the book's `sweepOne` at a read: the head of the abandonment order was processed by the channel in this iteration;
the due execution with the earliest tick, if the book removes one, is not tracked any more -/
theorem Z.sweep1 {rest : List Nat} {now : Nat} {B B' : BW} {ao : List Nat} {S : MV} (h : Z none (some true) B ao S)
    (hme : ME now B ao S) (hX : X rest B S) (hY : Y now none B S)
    (heid : ∀ en ∈ S.ents, ∀ x ∈ S.execs, x.rid = en.rid → x.id = en.id)
    (hBe : B'.execs = B.execs) (hnow : B.now = now)
    (hkeep : ∀ p ∈ B.table, p ∈ B'.table ∨ (∃ r l, ao = r :: l ∧ p.2 = r) ∨
      ∃ eb ∈ B.execs, eb.rid = p.2 ∧ eb.tick ≤ B.now ∧
        ∀ p' ∈ B.table, (∀ r l, ao = r :: l → p'.2 ≠ r) → p'.2 ≠ p.2 →
          ∀ eb' ∈ B.execs, eb'.rid = p'.2 → eb'.tick ≤ B.now → eb.tick < eb'.tick) :
    Z none (some false) B' ao.tail S := by
  refine ⟨?_, ?_⟩
  · intro en hen x hx hr
    rcases h.sub en hen x hx hr with ⟨i, hp⟩ | ⟨v, hv, ht⟩
    · cases hp
    · right
      refine ⟨v, hv, ?_⟩
      rcases hkeep _ ht with hk | ⟨r, l, hao, hr2⟩ | ⟨eb, heb, hbr, hdue, hlt⟩
      · exact hk
      · exfalso
        rcases h.al true rfl with ⟨h1, _⟩ | ⟨r', l', h1, hut, _⟩
        · rw [h1] at hao; cases hao
        · rw [h1] at hao
          have : r' = r := (List.cons.inj hao).1
          exact hut en hen x hx hr (by rw [hv, this]; exact congrArg some hr2)
      · exfalso
        have hbr' : eb.rid = v := hbr
        have htk := tick_eq hX hY hen hx hr heb (by rw [hbr']; exact hv)
        rw [hnow] at hdue
        rcases hme with hnd | ⟨eb0, heb0, ht0, hnh, hunt, hd0, hmin0⟩
        · have := hnd en hen
          omega
        · have hne : eb0.rid ≠ v := by
            intro hc
            have h1 := hX.bid eb0 heb0 x hx (by rw [hv, hc])
            have h2 := heid en hen x hx hr
            exact hunt en hen (by rw [← h2, h1])
          have := hlt _ ht0 hnh hne eb0 heb0 rfl (by rw [hnow]; exact hd0)
          have h3 := hmin0 en hen
          omega
  · intro pop hm
    cases hm
    show All2 (RI B') ao.tail S.cq
    have hRI : ∀ r i, RI B r i → RI B' r i := fun r i ⟨eb, h1, h2⟩ => ⟨eb, by rw [hBe]; exact h1, h2⟩
    rcases h.al true rfl with ⟨h1, h2⟩ | ⟨r, l, h1, _, h3⟩
    · rw [h1, h2]; exact .nil
    · rw [h1]; exact forall2_imp hRI h3

/-- the read pump accepts a request: its entry and its execution are new, nothing has been handed out yet -/
theorem Z.start {B : BW} {ao : List Nat} {S S' : MV} (h : Z none m B ao S) (hm : m ≠ some true) (n i : Nat) (y : YE) (z : ZE)
    (hy : y.rid = n) (hz : z.rid = n) (hex : S'.execs = S.execs ++ [y]) (hzs : S'.ents = S.ents ++ [z])
    (hcq : S'.cq = S.cq) (hfx : ∀ x ∈ S.execs, x.rid ≠ n) (hfe : ∀ en ∈ S.ents, en.rid ≠ n) :
    Z (some (n, i)) m B ao S' := by
  refine ⟨?_, ?_⟩
  · intro en hen x hx hr
    rw [hzs] at hen
    rw [hex] at hx
    rcases List.mem_append.mp hen with hen | hen
    · rcases List.mem_append.mp hx with hx | hx
      · rcases h.sub en hen x hx hr with ⟨j, hp⟩ | hv
        · cases hp
        · exact Or.inr hv
      · exfalso
        rw [List.mem_singleton] at hx
        exact hfe en hen (by rw [← hr, hx, hy])
    · rw [List.mem_singleton] at hen
      rcases List.mem_append.mp hx with hx | hx
      · exfalso
        exact hfx x hx (by rw [hr, hen, hz])
      · rw [List.mem_singleton] at hx
        exact Or.inl ⟨i, by rw [hx, hy]⟩
  · intro pop hp
    cases pop with
    | true => exact absurd hp hm
    | false =>
      show All2 (RI B) ao S'.cq
      rw [hcq]; exact h.al false hp

/-- the request is handed out -/
theorem Z.yield {B B' : BW} {ao : List Nat} {S S' : MV} {r i : Nat} (h : Z (some (r, i)) m B ao S) (hm : m ≠ some true)
    (v : Nat)
    (hex : S'.execs = S.execs.map (fun x => if x.rid == r then { x with vis := some v } else x))
    (hen : S'.ents = S.ents) (hcq : S'.cq = S.cq) (hRI : ∀ r i, RI B r i → RI B' r i)
    (hbt : B'.table = B.table.filter (·.1 != i) ++ [(i, v)])
    (hid : ∀ en ∈ S.ents, en.rid = r → en.id = i) (hother : ∀ en ∈ S.ents, en.rid ≠ r → en.id ≠ i) :
    Z none m B' ao S' := by
  refine ⟨?_, ?_⟩
  · intro en hen' x' hx' hr
    rw [hen] at hen'
    rw [hex] at hx'
    obtain ⟨x, hx, rfl⟩ := List.mem_map.mp hx'
    right
    by_cases hc : (x.rid == r) = true
    · rw [if_pos hc] at hr ⊢
      have hxr : x.rid = r := by simpa using hc
      have : en.id = i := hid en hen' (by rw [← hr]; exact hxr)
      exact ⟨v, rfl, by rw [hbt, this]; exact List.mem_append_right _ (List.mem_singleton.mpr rfl)⟩
    · rw [if_neg hc] at hr ⊢
      have hxr : x.rid ≠ r := by simpa using hc
      rcases h.sub en hen' x hx hr with ⟨j, hp⟩ | ⟨v0, hv0, ht0⟩
      · exfalso
        have : x.rid = r := by
          have := Option.some.inj hp
          exact (congrArg Prod.fst this).symm
        exact hxr this
      · refine ⟨v0, hv0, ?_⟩
        rw [hbt]
        refine List.mem_append_left _ (List.mem_filter.mpr ⟨ht0, ?_⟩)
        have := hother en hen' (by rw [← hr]; exact hxr)
        simpa using this
  · intro pop hp
    cases pop with
    | true => exact absurd hp hm
    | false =>
      show All2 (RI B') ao S'.cq
      rw [hcq]; exact forall2_imp hRI (h.al false hp)

/-- the application drops an execution that was live: its guard queues a cancellation, the book notes the abandonment -/
theorem Z.push {B B' : BW} {ao : List Nat} {S S' : MV} (h : Z none m B ao S) (hm : m ≠ some true) (r i : Nat)
    (hRI : ∀ r i, RI B r i → RI B' r i) (hri : RI B' r i) (hbt : B'.table = B.table)
    {α : Type} (l : List α) (p q : α → YE) (hS : S.execs = l.map p) (hS' : S'.execs = l.map q)
    (hg : ∀ a ∈ l, (q a).rid = (p a).rid ∧ (q a).vis = (p a).vis)
    (hen : S'.ents = S.ents) (hcq : S'.cq = S.cq ++ [i]) : Z none m B' (ao ++ [r]) S' := by
  have h0 : Z none m B' ao { S' with cq := S.cq } :=
    h.model hRI (fun p hp _ => by rw [hbt]; exact hp) l p q hS hS' hg (fun en' h' => by rw [← hen]; exact h') (fun _ => rfl)
  refine ⟨h0.sub, ?_⟩
  intro pop hp
  cases pop with
  | true => exact absurd hp hm
  | false =>
    show All2 (RI B') (ao ++ [r]) S'.cq
    rw [hcq]
    exact forall2_snoc hri (h0.al false hp)

/-- as many entries in the book's table as requests tracked -/
theorem Z.count {rest : List Nat} {B : BW} {ao : List Nat} {S : MV} (h : Z none m B ao S) (hX : X rest B S)
    (hnd : (S.ents.map (·.id)).Nodup) : S.ents.length ≤ B.table.length := by
  have h1 : ∀ a ∈ S.ents.map (·.id), a ∈ B.table.map (·.1) := by
    intro a ha
    obtain ⟨en, hen, rfl⟩ := List.mem_map.mp ha
    obtain ⟨x, hx, hr⟩ := hX.esrc en hen
    rcases h.sub en hen x hx hr with ⟨i, hp⟩ | ⟨v, _, ht⟩
    · cases hp
    · exact List.mem_map.mpr ⟨_, ht, rfl⟩
  have := nodup_sub_length hnd h1
  simpa using this

end TarpcModel.Server.Tab

import TarpcModel.Monitors.C17
/-
Helper lemmas for C17: ASCII case mapping, `snakeToCamel`, first-match lookup, and the glue tables.
-/
namespace TarpcModel.Macro

/-! ## `Char.toUpper` / `Char.toLower` -/

theorem toUpper_toNat (c : Char) :
    c.toUpper.toNat = if 97 ≤ c.toNat ∧ c.toNat ≤ 122 then c.toNat - 32 else c.toNat := by
  have e : ∀ d : Char, d.toNat = d.val.toNat := fun _ => rfl
  rw [e c, e c.toUpper]
  unfold Char.toUpper
  split
  · rename_i h
    have h1 := h.1
    have h2 := h.2
    simp [UInt32.le_iff_toNat_le] at h1 h2
    simp [UInt32.toNat_add, h1, h2]
    have := e c
    omega
  · rename_i h
    simp [UInt32.le_iff_toNat_le] at h
    have := e c
    split
    · rename_i h'
      omega
    · rfl

theorem toLower_toNat (c : Char) :
    c.toLower.toNat = if 65 ≤ c.toNat ∧ c.toNat ≤ 90 then c.toNat + 32 else c.toNat := by
  have e : ∀ d : Char, d.toNat = d.val.toNat := fun _ => rfl
  rw [e c, e c.toLower]
  unfold Char.toLower
  split
  · rename_i h
    have h1 := h.1
    have h2 := h.2
    simp [UInt32.le_iff_toNat_le] at h1 h2
    simp [UInt32.toNat_add, h1, h2]
    have := e c
    omega
  · rename_i h
    simp [UInt32.le_iff_toNat_le] at h
    have := e c
    split
    · rename_i h'
      omega
    · rfl

theorem us_toNat : '_'.toNat = 95 := by decide

theorem toUpper_eq_us {c : Char} : c.toUpper = '_' ↔ c = '_' := by
  rw [← Char.toNat_inj, ← Char.toNat_inj (c := c), toUpper_toNat, us_toNat]
  split <;> omega

theorem toLower_eq_us {c : Char} : c.toLower = '_' ↔ c = '_' := by
  rw [← Char.toNat_inj, ← Char.toNat_inj (c := c), toLower_toNat, us_toNat]
  split <;> omega

theorem toUpper_toUpper (c : Char) : c.toUpper.toUpper = c.toUpper := by
  rw [← Char.toNat_inj, toUpper_toNat c.toUpper, toUpper_toNat c]
  repeat' split
  all_goals omega

theorem toLower_toLower (c : Char) : c.toLower.toLower = c.toLower := by
  rw [← Char.toNat_inj, toLower_toNat c.toLower, toLower_toNat c]
  repeat' split
  all_goals omega

theorem toUpper_toLower (c : Char) : c.toLower.toUpper = c.toUpper := by
  rw [← Char.toNat_inj, toUpper_toNat c.toLower, toLower_toNat c, toUpper_toNat c]
  repeat' split
  all_goals omega

theorem toLower_toUpper (c : Char) : c.toUpper.toLower = c.toLower := by
  rw [← Char.toNat_inj, toLower_toNat c.toUpper, toUpper_toNat c, toLower_toNat c]
  repeat' split
  all_goals omega

/-! ## `snakeToCamel` -/

theorem camelAux_nil (b : Bool) : camelAux b [] = [] := by cases b <;> rfl

theorem camelAux_cons (b : Bool) (c : Char) (cs : Name) :
    camelAux b (c :: cs) =
      if c = '_' then camelAux true cs
      else if b then c.toUpper :: camelAux false cs
      else c.toLower :: camelAux false cs := by
  cases b <;> rfl

theorem camelAux_no_underscore (b : Bool) (s : Name) : '_' ∉ camelAux b s := by
  induction s generalizing b with
  | nil => simp [camelAux]
  | cons c cs ih =>
    simp only [camelAux_cons]
    split
    · exact ih true
    · rename_i hc
      split
      · simp only [List.mem_cons, not_or]
        exact ⟨fun h => hc (toUpper_eq_us.mp h.symm), ih false⟩
      · simp only [List.mem_cons, not_or]
        exact ⟨fun h => hc (toLower_eq_us.mp h.symm), ih false⟩

theorem camelAux_length_le (b : Bool) (s : Name) : (camelAux b s).length ≤ s.length := by
  induction s generalizing b with
  | nil => simp [camelAux]
  | cons c cs ih =>
    simp only [camelAux_cons]
    split
    · have := ih true
      simp only [List.length_cons]
      omega
    · split <;> simp only [List.length_cons] <;> have := ih false <;> omega

/-- The output is exactly as long as the input minus its underscores. -/
theorem camelAux_length (b : Bool) (s : Name) :
    (camelAux b s).length = (s.filter (· ≠ '_')).length := by
  induction s generalizing b with
  | nil => simp [camelAux]
  | cons c cs ih =>
    simp only [camelAux_cons]
    split
    · rename_i h
      simp [h, ih true]
    · rename_i h
      split <;> simp [h, ih false]

/-- On underscore-free input the flag is only consulted for the first character. -/
theorem camelAux_false_clean (s : Name) (h : '_' ∉ s) : camelAux false s = s.map Char.toLower := by
  induction s with
  | nil => simp [camelAux]
  | cons c cs ih =>
    simp only [List.mem_cons, not_or] at h
    simp only [camelAux_cons]
    have hc : c ≠ '_' := fun e => h.1 e.symm
    simp [hc, ih h.2]

theorem camelAux_true_clean (c : Char) (cs : Name) (h : '_' ∉ c :: cs) :
    camelAux true (c :: cs) = c.toUpper :: cs.map Char.toLower := by
  simp only [List.mem_cons, not_or] at h
  simp only [camelAux_cons]
  have hc : c ≠ '_' := fun e => h.1 e.symm
  simp [hc, camelAux_false_clean cs h.2]

/-- Splitting at an underscore: what follows starts a new word. -/
theorem camelAux_append_us (b : Bool) (a rest : Name) :
    camelAux b (a ++ '_' :: rest) = camelAux b a ++ camelAux true rest := by
  induction a generalizing b with
  | nil => simp [camelAux]
  | cons c cs ih =>
    simp only [List.cons_append]
    simp only [camelAux_cons]
    split
    · exact ih true
    · split <;> simp [ih false]

/-- Case of the input only matters through `toUpper`/`toLower`: lower-casing the input first changes nothing. -/
theorem camelAux_map_toLower (b : Bool) (s : Name) : camelAux b (s.map Char.toLower) = camelAux b s := by
  induction s generalizing b with
  | nil => rfl
  | cons c cs ih =>
    simp only [List.map_cons]
    simp only [camelAux_cons]
    by_cases hc : c = '_'
    · subst hc
      simp [ih true]
    · have : c.toLower ≠ '_' := fun e => hc (toLower_eq_us.mp e)
      simp [hc, this, ih false, toUpper_toLower, toLower_toLower]

theorem camelAux_map_toUpper (b : Bool) (s : Name) : camelAux b (s.map Char.toUpper) = camelAux b s := by
  induction s generalizing b with
  | nil => rfl
  | cons c cs ih =>
    simp only [List.map_cons]
    simp only [camelAux_cons]
    by_cases hc : c = '_'
    · subst hc
      simp [ih true]
    · have : c.toUpper ≠ '_' := fun e => hc (toUpper_eq_us.mp e)
      simp [hc, this, ih false, toUpper_toUpper, toLower_toUpper]

/-! ### Word decomposition -/

/-- Capitalise one word. -/
def cap : Name → Name
  | [] => []
  | c :: cs => c.toUpper :: cs.map Char.toLower

/-- Split at underscores, dropping empty pieces (`cur` is the word being read). -/
def wordsAux : Name → Name → List Name
  | cur, [] => if cur = [] then [] else [cur]
  | cur, c :: cs =>
    if c = '_' then (if cur = [] then wordsAux [] cs else cur :: wordsAux [] cs)
    else wordsAux (cur ++ [c]) cs

def words (s : Name) : List Name := wordsAux [] s

theorem cap_snoc (cur : Name) (c : Char) (h : cur ≠ []) : cap (cur ++ [c]) = cap cur ++ [c.toLower] := by
  cases cur with
  | nil => exact absurd rfl h
  | cons d ds => simp [cap]

theorem wordsAux_flatMap_cap (cur s : Name) :
    (wordsAux cur s).flatMap cap =
      if cur = [] then camelAux true s else cap cur ++ camelAux false s := by
  induction s generalizing cur with
  | nil =>
    unfold wordsAux
    by_cases h : cur = [] <;> simp [h, camelAux]
  | cons c cs ih =>
    unfold wordsAux
    simp only [camelAux_cons]
    by_cases hc : c = '_'
    · by_cases h : cur = []
      · simp [hc, h, ih []]
      · simp [hc, h, ih []]
    · by_cases h : cur = []
      · subst h
        simp [hc, ih [c], cap]
      · simp [hc, h, ih (cur ++ [c]), cap_snoc cur c h]

/-! ## First-match lookup -/

theorem firstIdx_eq {α : Type} (p : α → Bool) (l : List α) (i : Nat) (a : α)
    (hi : l[i]? = some a) (hp : p a = true)
    (hbefore : ∀ j b, j < i → l[j]? = some b → p b = false) : firstIdx p l = some i := by
  induction l generalizing i with
  | nil => simp at hi
  | cons x xs ih =>
    cases i with
    | zero =>
      simp at hi
      subst hi
      simp [firstIdx, hp]
    | succ k =>
      have hx : p x = false := hbefore 0 x (by omega) (by simp)
      simp only [List.getElem?_cons_succ] at hi
      have := ih k hi (fun j b hj hb => hbefore (j + 1) b (by omega) (by simpa using hb))
      simp [firstIdx, hx, this]

/-- Distinct keys: equal keys at two positions means the same position. -/
theorem idx_eq_of_nodup_map {α β : Type} (f : α → β) (l : List α) (h : (l.map f).Nodup)
    (i j : Nat) (a b : α) (hi : l[i]? = some a) (hj : l[j]? = some b) (e : f a = f b) : i = j := by
  induction l generalizing i j with
  | nil => simp at hi
  | cons x xs ih =>
    simp only [List.map_cons, List.nodup_cons, List.mem_map, not_exists, not_and] at h
    cases i with
    | zero =>
      cases j with
      | zero => rfl
      | succ j' =>
        simp at hi
        subst hi
        simp only [List.getElem?_cons_succ] at hj
        exact absurd e.symm (h.1 b (List.mem_of_getElem? hj))
    | succ i' =>
      cases j with
      | zero =>
        simp at hj
        subst hj
        simp only [List.getElem?_cons_succ] at hi
        exact absurd e (h.1 a (List.mem_of_getElem? hi))
      | succ j' =>
        simp only [List.getElem?_cons_succ] at hi hj
        rw [ih h.2 i' j' hi hj]

theorem lookup_append_hit {V : Type} (n : Name) (v : V) (pre rest : List (Name × V))
    (h : n ∉ pre.map (·.1)) : lookup n (pre ++ (n, v) :: rest) = some v := by
  induction pre with
  | nil => simp [lookup]
  | cons x xs ih =>
    obtain ⟨k, w⟩ := x
    simp only [List.map_cons, List.mem_cons, not_or] at h
    have hk : ¬ k = n := fun e => h.1 e.symm
    simp [lookup, hk, ih h.2]

theorem lookupAll_zip_aux {V : Type} (names : List Name) (vals : List V) (pre : List (Name × V))
    (hlen : names.length = vals.length) (hnd : names.Nodup)
    (hpre : ∀ n ∈ names, n ∉ pre.map (·.1)) :
    lookupAll (pre ++ names.zip vals) names = some vals := by
  induction names generalizing vals pre with
  | nil =>
    cases vals with
    | nil => simp [lookupAll]
    | cons _ _ => simp at hlen
  | cons n ns ih =>
    cases vals with
    | nil => simp at hlen
    | cons v vs =>
      simp only [List.length_cons, Nat.add_right_cancel_iff] at hlen
      simp only [List.nodup_cons] at hnd
      have h1 : lookup n (pre ++ (n, v) :: ns.zip vs) = some v :=
        lookup_append_hit n v pre _ (hpre n (by simp))
      have h2 : lookupAll ((pre ++ [(n, v)]) ++ ns.zip vs) ns = some vs := by
        apply ih vs (pre ++ [(n, v)]) hlen hnd.2
        intro m hm
        simp only [List.map_append, List.map_cons, List.map_nil, List.mem_append, List.mem_cons,
          List.not_mem_nil, or_false, not_or]
        exact ⟨hpre m (by simp [hm]), fun e => hnd.1 (e ▸ hm)⟩
      simp only [List.append_assoc, List.cons_append, List.nil_append] at h2
      simp [lookupAll, List.zip_cons_cons, h1, h2]

/-- Distinct names bound positionally and read back by name give the same values in the same order. -/
theorem lookupAll_zip {V : Type} (names : List Name) (vals : List V)
    (hlen : names.length = vals.length) (hnd : names.Nodup) :
    lookupAll (names.zip vals) names = some vals := by
  simpa using lookupAll_zip_aux names vals [] hlen hnd (by simp)

theorem map_snd_zip {V : Type} (names : List Name) (vals : List V) (hlen : names.length = vals.length) :
    (names.zip vals).map (·.2) = vals := by
  induction names generalizing vals with
  | nil => cases vals <;> simp_all
  | cons n ns ih =>
    cases vals with
    | nil => simp at hlen
    | cons v vs =>
      simp only [List.length_cons, Nat.add_right_cancel_iff] at hlen
      simp [ih vs hlen]

/-! ## The generated tables -/

theorem variant_ne_of_ne (s : Service) (h : (s.methods.map (·.variant)).Nodup) (i j : Nat) (a b : Method)
    (hi : s.methods[i]? = some a) (hj : s.methods[j]? = some b) (hne : j ≠ i) : b.variant ≠ a.variant :=
  fun e => hne (idx_eq_of_nodup_map (·.variant) s.methods h j i b a hj hi e)

theorem name_ne_of_ne (s : Service) (h : (s.methods.map (·.variant)).Nodup) (i j : Nat) (a b : Method)
    (hi : s.methods[i]? = some a) (hj : s.methods[j]? = some b) (hne : j ≠ i) :
    b.ident.name ≠ a.ident.name :=
  fun e => variant_ne_of_ne s h i j a b hi hj hne (by simp [Method.variant, e])

theorem argNames_length (m : Method) : m.argNames.length = m.args.length := by simp [Method.argNames]

theorem accepted_argNames_nodup {s : Service} (h : accepted s) {m : Method} (hm : m ∈ s.methods)
    (ha : m.active = true) : m.argNames.Nodup := (h.2.2.2.2.2.2 m hm ha).2.1

theorem accepted_variants_nodup {s : Service} (h : accepted s) : (s.methods.map (·.variant)).Nodup :=
  h.2.2.2.1

section Tables
variable {V : Type} {s : Service} {i : Nat} {m : Method}

theorem clientBuild_generate (hacc : accepted s) (hm : s.methods[i]? = some m) (hact : m.active = true)
    (args : List V) (hlen : args.length = m.args.length) :
    clientBuild (generate s) i args = some ⟨m.variant, m.argNames.zip args⟩ := by
  have hnd := accepted_argNames_nodup hacc (List.mem_of_getElem? hm) hact
  have hl : m.argNames.length = args.length := by rw [argNames_length, hlen]
  simp only [clientBuild, generate, List.getElem?_map, hm, Option.map_some, hact, hl, and_self,
    if_true, lookupAll_zip m.argNames args hl hnd]

theorem firstArm_generate (hacc : accepted s) (hm : s.methods[i]? = some m) (hact : m.active = true) :
    firstIdx (fun a : ServerArm => a.active && decide (a.variant = m.variant)) (generate s).serverArms
      = some i := by
  apply firstIdx_eq _ _ i ⟨m.variant, m.argNames, m.ident.name, m.argNames, m.variant, m.active⟩
  · simp [generate, hm]
  · simp [hact]
  · intro j b hj hb
    simp only [generate, List.getElem?_map, Option.map_eq_some_iff] at hb
    obtain ⟨mb, hmb, rfl⟩ := hb
    have := variant_ne_of_ne s (accepted_variants_nodup hacc) i j m mb hm hmb (by omega)
    simp [this]

theorem firstName_generate (hacc : accepted s) (hm : s.methods[i]? = some m) (hact : m.active = true) :
    firstIdx (fun a : NameArm => a.active && decide (a.variant = m.variant)) (generate s).nameArms
      = some i := by
  apply firstIdx_eq _ _ i ⟨m.variant, requestNameStr s m, m.active⟩
  · simp [generate, hm]
  · simp [hact]
  · intro j b hj hb
    simp only [generate, List.getElem?_map, Option.map_eq_some_iff] at hb
    obtain ⟨mb, hmb, rfl⟩ := hb
    have := variant_ne_of_ne s (accepted_variants_nodup hacc) i j m mb hm hmb (by omega)
    simp [this]

theorem firstTrait_generate (hacc : accepted s) (hm : s.methods[i]? = some m) (hact : m.active = true) :
    firstIdx (fun t : Name × Bool => t.2 && decide (t.1 = m.ident.name)) (generate s).traitMethods
      = some i := by
  apply firstIdx_eq _ _ i (m.ident.name, m.active)
  · simp [generate, hm]
  · simp [hact]
  · intro j b hj hb
    simp only [generate, List.getElem?_map, Option.map_eq_some_iff] at hb
    obtain ⟨mb, hmb, rfl⟩ := hb
    have := name_ne_of_ne s (accepted_variants_nodup hacc) i j m mb hm hmb (by omega)
    simp [this]

theorem serverDispatch_generate (hacc : accepted s) (hm : s.methods[i]? = some m) (hact : m.active = true)
    (args : List V) (hlen : args.length = m.args.length) :
    serverDispatch (generate s) ⟨m.variant, m.argNames.zip args⟩ = some (i, args, m.variant) := by
  have hnd := accepted_argNames_nodup hacc (List.mem_of_getElem? hm) hact
  have hl : m.argNames.length = args.length := by rw [argNames_length, hlen]
  have harm : (generate s).serverArms[i]? =
      some ⟨m.variant, m.argNames, m.ident.name, m.argNames, m.variant, m.active⟩ := by
    simp [generate, hm]
  simp only [serverDispatch, firstArm_generate hacc hm hact, harm, lookupAll_zip m.argNames args hl hnd,
    firstTrait_generate hacc hm hact]

theorem requestName_generate (hacc : accepted s) (hm : s.methods[i]? = some m) (hact : m.active = true)
    (fields : List (Name × V)) :
    requestName (generate s) ⟨m.variant, fields⟩ = some (requestNameStr s m) := by
  have harm : (generate s).nameArms[i]? = some ⟨m.variant, requestNameStr s m, m.active⟩ := by
    simp [generate, hm]
  simp only [requestName, firstName_generate hacc hm hact, harm, Option.map_some]

theorem clientUnwrap_generate (hm : s.methods[i]? = some m) (v : V) :
    clientUnwrap (generate s) i ⟨m.variant, v⟩ = some v := by
  have hmem : m.variant ∈ (generate s).responseVariants := by
    simp only [generate, List.mem_map]
    exact ⟨m, List.mem_of_getElem? hm, rfl⟩
  simp [clientUnwrap, generate, hm]
  simpa [generate] using hmem

theorem call_generate {C : Type} (hacc : accepted s) (hm : s.methods[i]? = some m)
    (hact : m.active = true) (impl : Impl V C) (ctx : C) (args : List V)
    (hlen : args.length = m.args.length) :
    call (generate s) impl i ctx args =
      some ⟨⟨m.variant, m.argNames.zip args⟩, requestNameStr s m, i, ctx, args,
            impl i ctx args, impl i ctx args⟩ := by
  simp only [call, clientBuild_generate hacc hm hact args hlen, requestName_generate hacc hm hact,
    serverDispatch_generate hacc hm hact args hlen, clientUnwrap_generate hm]

end Tables

end TarpcModel.Macro

import TarpcModel.Lemmas.ServerTab8
/-!
The limiter's early exit is taken at the limit only: on every trace of the model the book's flag `belowLimitStall`
(`Monitors/Server.lean`: a top-level poll of the request stream in which `poll_ready → Pending` is followed at once by
the write pump's `poll_ready`, although the poll began below the limit) is never set at a `ret` of the request stream.

An observation-precise walk through one poll (`limitedPollNextLegacy`, `pumpWrite`, `ensureOnce`, `requestsPollNext`):
`LG` — the flag is clear and, if the last transport call was `poll_ready → Pending`, the limit is at most the count the
poll began with — holds between the calls of the pumps; the limiter calls `poll_ready` at its limit only, and the count
does not grow while no request is accepted.
-/
namespace TarpcModel.Server.Tab
open TarpcModel TarpcModel.Server TarpcModel.Server.Flow TarpcModel.Server.ObsMon TarpcModel.Server.Mon06
open TarpcModel.Server.Mon11
set_option linter.unusedSimpArgs false
set_option linter.unusedVariables false

/-! ## the book -/

/-- the flag is clear; a pending `poll_ready` as last transport call only with the limit at most the starting count -/
def LG (l start : Nat) (b : Book) : Prop :=
  b.spun = true ∨ (b.belowLimitStall = false ∧ b.lastCounts = start ∧ b.limit = some l ∧ (b.prevReadyP = true → l ≤ start))

/-- … without the claim about the last transport call -/
def LW (l start : Nat) (b : Book) : Prop :=
  b.spun = true ∨ (b.belowLimitStall = false ∧ b.lastCounts = start ∧ b.limit = some l)

theorem LG.toWB {l start : Nat} {b : Book} (h : LG l start b) : LW l start b :=
  h.imp (fun h => h) (fun ⟨a, b, c, _⟩ => ⟨a, b, c⟩)

/-- observations other than `poll_ready` calls and the counts of the request stream -/
def noTR : Obs → Bool
  | .tReady _ _ => false
  | .counts (.server _) _ _ => false
  | _ => true

theorem sweepOne_frameL (b : Book) :
    b.sweepOne.belowLimitStall = b.belowLimitStall ∧ b.sweepOne.lastCounts = b.lastCounts ∧
    b.sweepOne.prevReadyP = b.prevReadyP := by
  rw [sweepOne_eq]
  have h1 : (so1 b).belowLimitStall = b.belowLimitStall ∧ (so1 b).lastCounts = b.lastCounts ∧
      (so1 b).prevReadyP = b.prevReadyP := by unfold so1; split <;> exact ⟨rfl, rfl, rfl⟩
  split
  · exact h1
  · split
    · exact h1
    · exact h1

theorem preRead_frameL (b : Book) :
    (preRead b).belowLimitStall = b.belowLimitStall ∧ (preRead b).lastCounts = b.lastCounts ∧
    (preRead b).prevReadyP = false ∧ (preRead b).limit = b.limit ∧ (preRead b).spun = b.spun := by
  unfold preRead
  split
  · obtain ⟨a1, a2, a3⟩ := sweepOne_frameL ({ b with justRead := none, sawT := true, prevReadyP := false } : Book)
    exact ⟨a1, a2, a3, (sweepOne_flags _).1, (sweepOne_spec _).2.2.2.1⟩
  · exact ⟨rfl, rfl, rfl, rfl, rfl⟩

/-- what a step of the book on such an observation keeps -/
theorem step_frameL (b : Book) (o : Obs) (h : noTR o = true) :
    (b.step (.obs o)).spun = true ∨
    ((b.step (.obs o)).belowLimitStall = b.belowLimitStall ∧ (b.step (.obs o)).lastCounts = b.lastCounts ∧
      (b.step (.obs o)).limit = b.limit ∧ ((b.step (.obs o)).prevReadyP = true → b.prevReadyP = true) ∧
      (b.step (.obs o)).spun = b.spun) := by
  cases o with
  | tReady ep r => cases h
  | tNext ep r =>
    right
    rw [step_tNext_eq]
    obtain ⟨a1, a2, a3, a4, a5⟩ := preRead_frameL b
    have hp : (preRead b).belowLimitStall = b.belowLimitStall ∧ (preRead b).lastCounts = b.lastCounts ∧
        (preRead b).limit = b.limit ∧ ((preRead b).prevReadyP = true → b.prevReadyP = true) ∧
        (preRead b).spun = b.spun := ⟨a1, a2, a4, fun hc => (by rw [a3] at hc; cases hc), a5⟩
    cases r with
    | item m =>
      cases m with
      | request id d tr body => exact hp
      | cancel id tr =>
        simp only
        generalize (preRead b).table.reverse.find? (fun p : Nat × Nat => p.1 == id) = o
        cases o with
        | none => exact hp
        | some p => obtain ⟨i, r⟩ := p; exact hp
      | response id res => exact hp
    | pending => exact hp
    | err => exact hp
    | eof => exact hp
  | tFlush ep r =>
    right
    simp only [Book.step]
    (repeat' split) <;> exact ⟨rfl, rfl, rfl, fun hc => (by cases hc), rfl⟩
  | tSend ep m ok =>
    right
    cases m with
    | response id res => cases ok <;> exact ⟨rfl, rfl, rfl, fun hc => (by cases hc), rfl⟩
    | _ => exact ⟨rfl, rfl, rfl, fun hc => hc, rfl⟩
  | ret t r =>
    cases t with
    | server k =>
      right
      rw [step_ret_eq]
      cases r <;> (simp only; split <;> exact ⟨rfl, rfl, rfl, fun hc => hc, rfl⟩)
    | exec v => right; cases r <;> exact ⟨rfl, rfl, rfl, fun hc => hc, rfl⟩
    | _ => right; exact ⟨rfl, rfl, rfl, fun hc => hc, rfl⟩
  | handler r ev t => right; cases ev <;> exact ⟨rfl, rfl, rfl, fun hc => hc, rfl⟩
  | counts ep a c =>
    cases ep with
    | server k => cases h
    | _ => right; exact ⟨rfl, rfl, rfl, fun hc => hc, rfl⟩
  | spin t => left; rfl
  | panic t w => left; rfl
  | _ => right; exact ⟨rfl, rfl, rfl, fun hc => hc, rfl⟩

variable {l start : Nat}

theorem LG.step {b : Book} (h : LG l start b) (o : Obs) (ho : noTR o = true) : LG l start (b.step (.obs o)) := by
  rcases step_frameL b o ho with hs | ⟨a1, a2, a3, a4, a5⟩
  · exact Or.inl hs
  · rcases h with hs | ⟨b1, b2, b3, b4⟩
    · exact Or.inl (a5.trans hs)
    · exact Or.inr ⟨a1.trans b1, a2.trans b2, a3.trans b3, fun hc => b4 (a4 hc)⟩

theorem LW.step {b : Book} (h : LW l start b) (o : Obs) (ho : noTR o = true) : LW l start (b.step (.obs o)) := by
  rcases step_frameL b o ho with hs | ⟨a1, a2, a3, a4, a5⟩
  · exact Or.inl hs
  · rcases h with hs | ⟨b1, b2, b3⟩
    · exact Or.inl (a5.trans hs)
    · exact Or.inr ⟨a1.trans b1, a2.trans b2, a3.trans b3⟩

/-- a `poll_flush` clears the memory of a pending `poll_ready` -/
theorem LW.flush {b : Book} (h : LW l start b) (ep : TaskId) (r : PollRes) : LG l start (b.step (.obs (.tFlush ep r))) := by
  have hp : (b.step (.obs (.tFlush ep r))).prevReadyP = false := by
    simp only [Book.step] <;> ((repeat' split) <;> rfl)
  rcases LW.step h (.tFlush ep r) rfl with hs | ⟨a1, a2, a3⟩
  · exact Or.inl hs
  · exact Or.inr ⟨a1, a2, a3, fun hc => by rw [hp] at hc; cases hc⟩

/-- a `poll_ready` call: the flag stays clear -/
theorem LG.ready {b : Book} (h : LG l start b) (ep : TaskId) (r : PollRes) :
    LW l start (b.step (.obs (.tReady ep r))) ∧
    ((r ≠ .pending ∨ l ≤ start) → LG l start (b.step (.obs (.tReady ep r)))) := by
  rcases h with hs | ⟨b1, b2, b3, b4⟩
  · exact ⟨Or.inl (step_spun_mono _ _ hs), fun _ => Or.inl (step_spun_mono _ _ hs)⟩
  · have hproj : (b.step (.obs (.tReady ep r))).belowLimitStall = false ∧
        (b.step (.obs (.tReady ep r))).lastCounts = start ∧ (b.step (.obs (.tReady ep r))).limit = some l ∧
        (b.step (.obs (.tReady ep r))).prevReadyP = (r == .pending) := by
      simp only [Book.step]
      (repeat' split) <;> (dsimp only at *) <;> first
        | exact ⟨b1, b2, b3, rfl⟩
        | exact ⟨b1, b2, b3, trivial⟩
        | (exfalso
           rename_i hc hge
           simp only [Bool.and_eq_true] at hc
           have := b4 hc.1.2
           rw [b2, b3] at hge
           exact hge this)
    obtain ⟨c1, c2, c3, c4⟩ := hproj
    refine ⟨Or.inr ⟨c1, c2, c3⟩, fun hr => Or.inr ⟨c1, c2, c3, fun hp => ?_⟩⟩
    rcases hr with hr | hr
    · rw [c4] at hp
      cases r <;> first | exact absurd rfl hr | cases hp
    · exact hr


/-! ## relations on states that every part of a poll emitting no `poll_ready` call respects -/

structure ObsRel (R : St → St → Prop) : Prop where
  refl : ∀ s, R s s
  trans : ∀ {a b c}, R a b → R b c → R a c
  of_eq : ∀ {s s'}, s'.obs = s.obs → R s s'
  emit : ∀ s o, noTR o = true → R s (Server.emit s o)

section
variable {R : St → St → Prop} (hR : ObsRel R)
include hR

theorem ObsRel.pre {s s0 s' : St} (h : R s0 s') (h1 : s0.obs = s.obs) : R s s' := hR.trans (hR.of_eq h1) h

theorem or_emitViolations (s : St) (n : Nat) : R s (emitViolations s n) := by
  unfold emitViolations
  generalize ((s.t.violations.take (s.t.violations.length - n)).reverse) = l
  induction l generalizing s with
  | nil => exact hR.refl s
  | cons a l ih => simp only [List.foldl_cons]; exact hR.trans (hR.emit s _ rfl) (ih _)

theorem or_wakeServer (s : St) : R s (wakeServer s) := by
  unfold wakeServer; split
  · exact hR.refl s
  · exact hR.pre (hR.emit _ _ rfl) rfl

theorem or_wakeExec (s : St) (r : Nat) : R s (wakeExec s r) := by
  unfold wakeExec; repeat' split
  all_goals first | exact hR.refl s | exact hR.trans (hR.of_eq (s' := updExec s r _) rfl) (hR.emit _ _ rfl)

theorem or_abortExec (s : St) (r : Nat) : R s (abortExec s r) := by
  unfold abortExec; split
  · exact hR.refl s
  · simp only; split
    · exact hR.trans (hR.of_eq (s' := updExec s r _) rfl) (or_wakeExec hR _ _)
    · exact hR.of_eq rfl

theorem or_removeTimer (s : St) (k : Nat) : R s (removeTimer s k) := by
  unfold removeTimer; split
  · simp only; split
    · exact hR.pre (or_wakeServer hR _) rfl
    · exact hR.of_eq rfl
  · exact hR.pre (hR.emit _ _ rfl) rfl

theorem or_removeRequest (s : St) (id : Nat) : R s (removeRequest s id).1 := by
  unfold removeRequest; split
  · exact hR.refl s
  · exact hR.pre (or_removeTimer hR _ _) rfl

theorem or_cancelRequest (s : St) (id : Nat) : R s (cancelRequest s id).1 := by
  unfold cancelRequest; split
  · exact hR.refl s
  · exact hR.pre (hR.trans (or_abortExec hR _ _) (or_removeTimer hR _ _)) rfl

theorem or_rearm {s s2 : St} {now : Nat} {en : SEntry} (hr : rearm s now en = some s2) : R s s2 := by
  rcases rearm_cases s now en with ⟨_, he⟩ | ⟨q, key, w, _, he⟩ <;> rw [he] at hr <;> cases hr
  cases w
  · exact hR.of_eq rfl
  · exact hR.trans (or_wakeServer hR s) (hR.of_eq rfl)

theorem or_expireStep (s : St) (now : Nat) : R s (expireStep s now).1 := by
  have hs := expireStep_shape s now
  revert hs; generalize expireStep s now = q; intro hs
  obtain ⟨s', r⟩ := q
  dsimp only at hs ⊢
  cases hs with
  | idleNone q hp' => exact hR.of_eq rfl
  | idlePending q hp' => exact hR.of_eq rfl
  | orphan q e hp' hf => exact hR.of_eq rfl
  | abort q e en hp' hf h0 => exact hR.pre (or_abortExec hR _ _) rfl
  | rearmed q e en s2 hp' hf h0 hr => exact hR.pre (or_rearm hR hr) rfl
  | panicked q e en hp' hf h0 hr => exact hR.pre (hR.emit _ _ rfl) rfl

theorem or_pollExpired (s : St) (now : Nat) : R s (pollExpired s now).1 :=
  pollExpired_rel (R := R) now hR.refl (fun _ _ _ h1 h2 => hR.trans h1 h2) (fun s => hR.emit s _ rfl)
    (fun s => or_expireStep hR s now) s

theorem or_startRequest (s : St) (now id d : Nat) (tr : Trace) (b : Nat) : R s (startRequest s now id d tr b).1 := by
  unfold startRequest; split
  · exact hR.refl s
  · split
    · exact hR.pre (hR.emit _ _ rfl) rfl
    · simp only; split
      · exact hR.trans (or_wakeServer hR s) (hR.of_eq rfl)
      · exact hR.of_eq rfl

theorem or_rqRelease (s : St) : R s (rqRelease s) := by
  unfold rqRelease; split
  · exact hR.pre (or_wakeExec hR _ _) rfl
  · exact hR.of_eq rfl

theorem or_dropOffered (s : St) (rid id : Nat) : R s (dropOffered s rid id) := by
  unfold dropOffered; simp only; split
  · exact hR.pre (or_wakeServer hR _) rfl
  · exact hR.of_eq rfl

theorem or_tFlush (s : St) : R s (tFlush s).1 := by
  unfold tFlush
  simp only
  have h0 : R s (emitViolations { s with t := s.t.pollFlush.1 } s.t.violations.length) :=
    hR.pre (or_emitViolations hR _ _) rfl
  have h : R s (Server.emit (emitViolations { s with t := s.t.pollFlush.1 } s.t.violations.length)
      (.tFlush (tid s) s.t.pollFlush.2.1)) := hR.trans h0 (hR.emit _ _ rfl)
  split
  · exact hR.trans h (or_wakeServer hR _)
  · exact h

theorem or_tSend (s : St) (m : Msg) : R s (tSend s m).1 := by
  unfold tSend
  simp only
  have h0 : R s (emitViolations { s with t := (s.t.startSend m).1 } s.t.violations.length) :=
    hR.pre (or_emitViolations hR _ _) rfl
  exact hR.trans h0 (hR.emit _ _ rfl)

theorem or_tNext (s : St) : R s (tNext s).1 := by
  unfold tNext
  split
  · exact hR.refl s
  · simp only
    have h : R s (Server.emit { s with t := s.t.pollNext.1 } (.tNext (tid s) s.t.pollNext.2)) :=
      hR.pre (hR.emit _ _ rfl) rfl
    split
    · exact hR.trans h (hR.of_eq rfl)
    · exact h

theorem or_bpCancel (s : St) : R s (bpCancel s).1 := by
  unfold bpCancel; split
  · exact hR.pre (or_removeRequest hR _ _) rfl
  · exact hR.of_eq rfl

theorem or_bpOther (s : St) (nx : NextRes) : R s (bpOther s nx).1 := by
  unfold bpOther; split
  · exact or_cancelRequest hR _ _
  all_goals exact hR.refl s

theorem or_bpStep (s : St) (now : Nat) : R s (bpStep s now).1 := by
  have h2 : R s (bp2 s now) := hR.trans (or_bpCancel hR s) (or_pollExpired hR _ now)
  have h3 : R s (bp3 s now) := hR.trans h2 (or_tNext hR _)
  have ho := bpStep_out s now
  generalize bpStep s now = out at ho ⊢
  cases ho with
  | poisoned2 => exact h2
  | readErr => exact h3
  | started => exact hR.trans h3 (or_startRequest hR _ _ _ _ _ _)
  | startPanic => exact hR.trans h3 (or_startRequest hR _ _ _ _ _ _)
  | duplicate => exact hR.trans h3 (or_startRequest hR _ _ _ _ _ _)
  | otherPoisoned => exact hR.trans h3 (or_bpOther hR _ _)
  | again => exact hR.trans h3 (or_bpOther hR _ _)
  | closed => exact hR.trans h3 (or_bpOther hR _ _)
  | pending => exact hR.trans h3 (or_bpOther hR _ _)

theorem or_basePollNext (fuel : Nat) (s : St) (now : Nat) : R s (basePollNext fuel s now).1 :=
  basePollNext_loop (R s) now (fun s1 h => hR.trans h (or_bpStep hR s1 now))
    (fun s1 h => hR.trans h (hR.emit _ _ rfl)) fuel s (hR.refl s)

theorem or_baseStartSend (s : St) (id : Nat) (res : Res) : R s (baseStartSend s id res).1 := by
  unfold baseStartSend
  have h1 := or_removeRequest hR s id
  split
  · next s1 heq => rw [heq] at h1; exact hR.trans h1 (or_tSend hR _ _)
  · next s1 heq => rw [heq] at h1; exact h1

theorem or_flushArm (s : St) (rc : Bool) : R s (flushArm s rc).1 := by
  unfold flushArm
  have h1 := or_tFlush hR s
  split
  · next s1 heq => rw [heq] at h1; exact h1
  · next s1 heq => rw [heq] at h1; exact h1
  · next s1 heq => rw [heq] at h1; split <;> exact h1

end

/-! ## the two instances: the book folded over the observations -/

variable {b0 : Book}

theorem rg_rel (b0 : Book) (l start : Nat) : ObsRel (fun s s' => LG l start (bo b0 s.obs) → LG l start (bo b0 s'.obs)) where
  refl := fun _ h => h
  trans := fun h1 h2 h => h2 (h1 h)
  of_eq := fun he h => by rw [he]; exact h
  emit := fun s o ho h => by
    show LG l start ((bo b0 s.obs).step (.obs o))
    exact h.step o ho

theorem rw_rel (b0 : Book) (l start : Nat) : ObsRel (fun s s' => LW l start (bo b0 s.obs) → LW l start (bo b0 s'.obs)) where
  refl := fun _ h => h
  trans := fun h1 h2 h => h2 (h1 h)
  of_eq := fun he h => by rw [he]; exact h
  emit := fun s o ho h => by
    show LW l start ((bo b0 s.obs).step (.obs o))
    exact h.step o ho

/-! ## the transport calls of the write pump -/

theorem LW_tFlush {s : St} (h : LW l start (bo b0 s.obs)) : LG l start (bo b0 (tFlush s).1.obs) := by
  unfold tFlush
  simp only
  have h0 : LW l start (bo b0 (emitViolations { s with t := s.t.pollFlush.1 } s.t.violations.length).obs) :=
    or_emitViolations (rw_rel b0 l start) { s with t := s.t.pollFlush.1 } _ h
  have h1 : LG l start (bo b0 (Server.emit (emitViolations { s with t := s.t.pollFlush.1 } s.t.violations.length)
      (.tFlush (tid s) s.t.pollFlush.2.1)).obs) := h0.flush (tid s) s.t.pollFlush.2.1
  split
  · exact or_wakeServer (rg_rel b0 l start) _ h1
  · exact h1

theorem LG_tReady {s : St} (h : LG l start (bo b0 s.obs)) :
    LW l start (bo b0 (tReady s).1.obs) ∧
    (((tReady s).2 ≠ .pending ∨ l ≤ start) → LG l start (bo b0 (tReady s).1.obs)) := by
  have hres := tReady_res s
  unfold tReady at hres ⊢
  simp only at hres ⊢
  have h0 : LG l start (bo b0 (emitViolations { s with t := s.t.pollReady.1 } s.t.violations.length).obs) :=
    or_emitViolations (rg_rel b0 l start) { s with t := s.t.pollReady.1 } _ h
  obtain ⟨h1, h2⟩ := h0.ready (tid s) s.t.pollReady.2.1
  split
  · exact ⟨or_wakeServer (rw_rel b0 l start) _ h1, fun hc => or_wakeServer (rg_rel b0 l start) _ (h2 hc)⟩
  · exact ⟨h1, h2⟩


theorem LG_ensureOnce {s : St} (h : LG l start (bo b0 s.obs)) :
    LW l start (bo b0 (ensureOnce s).1.obs) ∧
    (((ensureOnce s).2 ≠ .pending ∨ l ≤ start) → LG l start (bo b0 (ensureOnce s).1.obs)) := by
  unfold ensureOnce
  have h1 := LG_tReady (b0 := b0) h
  split
  · next s1 heq => rw [heq] at h1; exact ⟨h1.1, fun _ => h1.2 (Or.inl (by simp))⟩
  · next s1 heq => rw [heq] at h1; exact ⟨h1.1, fun _ => h1.2 (Or.inl (by simp))⟩
  · next s1 heq =>
    rw [heq] at h1
    have h2 := LW_tFlush (b0 := b0) h1.1
    split
    · next s2 heq2 => rw [heq2] at h2; exact ⟨LG.toWB h2, fun _ => h2⟩
    · next s2 heq2 => rw [heq2] at h2; exact ⟨LG.toWB h2, fun _ => h2⟩
    · next s2 heq2 =>
      rw [heq2] at h2
      have h3 := LG_tReady (b0 := b0) h2
      split
      · next s3 heq3 => rw [heq3] at h3; exact ⟨h3.1, fun _ => h3.2 (Or.inl (by simp))⟩
      · next s3 heq3 => rw [heq3] at h3; exact ⟨h3.1, fun _ => h3.2 (Or.inl (by simp))⟩
      · next s3 heq3 =>
        rw [heq3] at h3
        exact ⟨h3.1, fun hc => h3.2 (hc.elim (fun hne => absurd rfl hne) Or.inr)⟩

theorem LW_flushArm {s : St} (rc : Bool) (h : LW l start (bo b0 s.obs)) : LG l start (bo b0 (flushArm s rc).1.obs) := by
  unfold flushArm
  have h1 := LW_tFlush (b0 := b0) h
  split
  · next s1 heq => rw [heq] at h1; exact h1
  · next s1 heq => rw [heq] at h1; exact h1
  · next s1 heq => rw [heq] at h1; split <;> exact h1

/-- the write pump: between its calls `LG` holds again -/
theorem LG_pumpWrite {s : St} (hel : s.ensureLoop = false) (rc : Bool) (h : LG l start (bo b0 s.obs)) :
    LG l start (bo b0 (pumpWrite s rc).1.obs) := by
  have hew : ensureWriteable s = ensureOnce s := by unfold ensureWriteable; rw [hel]; rfl
  unfold pumpWrite
  rw [hew]
  have h1 := LG_ensureOnce (b0 := b0) h
  split
  · next s1 heq => rw [heq] at h1; exact LW_flushArm rc h1.1
  · next s1 a heq => rw [heq] at h1; exact h1.2 (Or.inl (by simp))
  · next s1 heq => rw [heq] at h1; exact h1.2 (Or.inl (by simp))
  · next s1 heq =>
    rw [heq] at h1
    have hg : LG l start (bo b0 s1.obs) := h1.2 (Or.inl (by simp))
    split
    · next id res rest hq =>
      have h2 : LG l start (bo b0 (baseStartSend (rqRelease { s1 with respQ := rest }) id res).1.obs) :=
        or_baseStartSend (rg_rel b0 l start) _ id res
          (or_rqRelease (rg_rel b0 l start) { s1 with respQ := rest } hg)
      simp only
      split
      · next s3 heq3 => rw [heq3] at h2; exact h2
      · next s3 r hne heq3 => rw [heq3] at h2; exact h2
    · exact LW_flushArm (s := { s1 with rqRxWaker := true }) rc (LG.toWB hg)

/-! ## the table does not grow while no request is accepted -/

theorem bpCancel_len (s : St) : (bpCancel s).1.inflight.length ≤ s.inflight.length := by
  unfold bpCancel; split
  · exact removeRequest_length_le { s with cancelQ := _ } _
  · exact Nat.le_refl _

theorem bpStep_len (s : St) (now : Nat) :
    (bpStep s now).1.inflight.length ≤ s.inflight.length ∨ ∃ ex, (bpStep s now).2 = some (.some ex) := by
  have h2 : (bp2 s now).inflight.length ≤ s.inflight.length :=
    Nat.le_trans (pollExpired_length_le (bpCancel s).1 now) (bpCancel_len s)
  have h3 : (bp3 s now).inflight.length ≤ s.inflight.length := by
    have : (bp3 s now).inflight = (bp2 s now).inflight := tNext_inflight _
    rw [this]; exact h2
  have hother : (bpOther (bp3 s now) (bpNx s now)).1.inflight.length ≤ s.inflight.length := by
    refine Nat.le_trans ?_ h3
    unfold bpOther; split
    · exact cancelRequest_length_le _ _
    all_goals exact Nat.le_refl _
  have ho := bpStep_out s now
  generalize bpStep s now = out at ho ⊢
  cases ho with
  | poisoned2 => exact Or.inl h2
  | readErr => exact Or.inl h3
  | started id d tr b ex => exact Or.inr ⟨ex, rfl⟩
  | startPanic id d tr b hp hn hs' hpo => exact Or.inl (Nat.le_trans (startRequest_none_shrink _ _ _ _ _ _ hs').1 h3)
  | duplicate id d tr b hp hn hs' hpo => exact Or.inl (Nat.le_trans (startRequest_none_shrink _ _ _ _ _ _ hs').1 h3)
  | otherPoisoned => exact Or.inl hother
  | again => exact Or.inl hother
  | closed => exact Or.inl hother
  | pending => exact Or.inl hother

theorem basePollNext_len (now : Nat) : ∀ (fuel : Nat) (s : St),
    (basePollNext fuel s now).1.inflight.length ≤ s.inflight.length ∨ ∃ ex, (basePollNext fuel s now).2 = .some ex := by
  intro fuel
  induction fuel with
  | zero => intro s; exact Or.inl (Nat.le_refl _)
  | succ n ih =>
    intro s
    rw [Flow.basePollNext_succ]
    have hb := bpStep_len s now
    revert hb
    generalize bpStep s now = p
    obtain ⟨s', r⟩ := p
    intro hb
    cases r with
    | none =>
      simp only
      rcases hb with hb | ⟨ex, hb⟩
      · rcases ih s' with h | h
        · exact Or.inl (Nat.le_trans h hb)
        · exact Or.inr h
      · cases hb
    | some r =>
      simp only
      rcases hb with hb | ⟨ex, hb⟩
      · exact Or.inl hb
      · exact Or.inr ⟨ex, by cases hb; rfl⟩

/-! ## the limiter -/

/-- with the limit at most the starting count, every `poll_ready` of the limiter is fine -/
theorem LG_legacy_at (L now : Nat) (hl : l ≤ start) : ∀ (fuel : Nat) (s : St), LG l start (bo b0 s.obs) →
    LG l start (bo b0 (limitedPollNextLegacy L fuel s now).1.obs) := by
  intro fuel
  induction fuel with
  | zero => intro s h; exact (rg_rel b0 l start).emit s _ rfl h
  | succ n ih =>
    intro s h
    unfold limitedPollNextLegacy
    split
    · have h1 := (LG_tReady (b0 := b0) h).2 (Or.inr hl)
      split
      · next s1 heq => rw [heq] at h1; exact h1
      · next s1 heq => rw [heq] at h1; exact h1
      · next s1 heq =>
        rw [heq] at h1
        have h2 := or_basePollNext (rg_rel b0 l start) (baseFuel s1) s1 now h1
        split
        · next s2 ex heq2 =>
          rw [heq2] at h2
          have h3 := or_baseStartSend (rg_rel b0 l start) s2 ex.id (.err throttleKindIdx) h2
          split
          · next s3 heq3 => rw [heq3] at h3; exact h3
          · next s3 r hne heq3 =>
            rw [heq3] at h3
            exact ih _ h3
        · next r hne => exact h2
    · exact or_basePollNext (rg_rel b0 l start) _ s now h

/-- one call of the limiter, from a state whose table is not larger than when the poll began -/
theorem LG_legacy (now : Nat) (fuel : Nat) (s : St) (hc : l ≤ start ∨ s.inflight.length ≤ start)
    (h : LG l start (bo b0 s.obs)) :
    LG l start (bo b0 (limitedPollNextLegacy l fuel s now).1.obs) ∧
    (l ≤ start ∨ (limitedPollNextLegacy l fuel s now).1.inflight.length ≤ start ∨
      ∃ ex, (limitedPollNextLegacy l fuel s now).2 = .some ex) := by
  by_cases hl : l ≤ start
  · exact ⟨LG_legacy_at l now hl fuel s h, Or.inl hl⟩
  · have hlen : s.inflight.length ≤ start := hc.resolve_left hl
    cases fuel with
    | zero => exact ⟨(rg_rel b0 l start).emit s _ rfl h, Or.inr (Or.inl hlen)⟩
    | succ n =>
      have hlt : ¬ s.inflight.length ≥ l := by omega
      unfold limitedPollNextLegacy
      rw [if_neg hlt]
      refine ⟨or_basePollNext (rg_rel b0 l start) _ s now h, Or.inr ?_⟩
      rcases basePollNext_len now (baseFuel s) s with h1 | h1
      · exact Or.inl (Nat.le_trans h1 hlen)
      · exact Or.inr h1


/-! ## `Requests::poll_next` -/

theorem channelPollNext_legacy {s : St} (hl : s.limit = some l) (ht : s.throttleAfterRead = false) (now : Nat) :
    channelPollNext s now = limitedPollNextLegacy l (s.t.inbound.length + 2) s now := by
  unfold channelPollNext
  rw [hl]
  simp only [ht, Bool.false_eq_true, if_false]

theorem LG_requestsPollNext (now : Nat) : ∀ (fuel : Nat) (s : St), s.limit = some l → s.throttleAfterRead = false →
    s.ensureLoop = false → (l ≤ start ∨ s.inflight.length ≤ start) → LG l start (bo b0 s.obs) →
    LG l start (bo b0 (requestsPollNext fuel s now).1.obs) := by
  intro fuel
  induction fuel with
  | zero => intro s _ _ _ _ h; exact (rg_rel b0 l start).emit s _ rfl h
  | succ n ih =>
    intro s hl ht hel hc h
    rw [Flow.requestsPollNext_succ]
    have hch : LG l start (bo b0 (channelPollNext s now).1.obs) ∧
        (l ≤ start ∨ (channelPollNext s now).1.inflight.length ≤ start ∨ ∃ ex, (channelPollNext s now).2 = .some ex) := by
      rw [channelPollNext_legacy hl ht]; exact LG_legacy now _ s hc h
    have hc1 := (cfg_closed s now).toLoopClosed.channelPollNext s ⟨rfl, rfl, rfl, rfl⟩
    revert hch hc1
    generalize channelPollNext s now = p
    obtain ⟨s1, read⟩ := p
    intro hch hc1
    obtain ⟨h1, hlen1⟩ := hch
    simp only at h1 hlen1 hc1
    split
    · next s1' a heq => cases heq; exact h1
    · next s1' heq => cases heq; exact h1
    · next s1' read' hne1 hne2 heq =>
      cases heq
      have hel2 : (armRead s1 read).ensureLoop = false := by
        rw [(FlowMon.armRead_cfg s1 read).1, hc1.2.2.1]; exact hel
      have hl2 : (armRead s1 read).limit = some l := by
        have : (armRead s1 read).limit = s1.limit := by unfold armRead; split <;> rfl
        rw [this, hc1.2.1]; exact hl
      have ht2 : (armRead s1 read).throttleAfterRead = false := by
        rw [(FlowMon.armRead_cfg s1 read).2, hc1.2.2.2]; exact ht
      have h2 : LG l start (bo b0 (armRead s1 read).obs) := by
        have : (armRead s1 read).obs = s1.obs := by unfold armRead; split <;> rfl
        rw [this]; exact h1
      have h3 := LG_pumpWrite (b0 := b0) hel2 (Flow.readClosedOf read) h2
      have hc3 := (cfg_closed (armRead s1 read) now).pumpWrite (armRead s1 read) (Flow.readClosedOf read) ⟨rfl, rfl, rfl, rfl⟩
      have hlen3 : (pumpWrite (armRead s1 read) (Flow.readClosedOf read)).1.inflight.length ≤ s1.inflight.length := by
        have := (shrink_pumpWrite (armRead s1 read) (Flow.readClosedOf read)).1
        rw [armRead_inflight] at this
        exact this
      revert h3 hc3 hlen3
      generalize pumpWrite (armRead s1 read) (Flow.readClosedOf read) = q
      obtain ⟨s3, write⟩ := q
      intro h3 hc3 hlen3
      simp only at h3 hc3 hlen3
      have hrec : (∀ ex, read ≠ .some ex) → LG l start (bo b0 (requestsPollNext n s3 now).1.obs) := by
        intro hns
        refine ih s3 (hc3.2.1.trans hl2) (hc3.2.2.2.trans ht2) (hc3.2.2.1.trans hel2) ?_ h3
        rcases hlen1 with h4 | h4 | ⟨ex, h4⟩
        · exact Or.inl h4
        · exact Or.inr (Nat.le_trans hlen3 h4)
        · exact absurd h4 (hns ex)
      split
      · next s3' a heq3 =>
        cases heq3
        unfold dropRead; split
        · exact or_dropOffered (rg_rel b0 l start) _ _ _ h3
        · exact h3
      · next s3' heq3 => cases heq3; exact h3
      · next s3' write' hne3 hne4 heq3 =>
        cases heq3
        cases read with
        | some ex =>
          split
          case h_2 exq heq' => exact h3
          all_goals first | exact h3 | (rename_i hx; exact (hx ex rfl).elim) | (rename_i hx _; exact (hx ex rfl).elim)
        | err a => exact absurd rfl (hne1 a)
        | spin => exact absurd rfl hne2
        | pending =>
          split
          · exact h3
          · next hh => cases hh
          · exact hrec (fun ex hc => by cases hc)
          · exact h3
        | none =>
          split
          · exact h3
          · next hh => cases hh
          · exact hrec (fun ex hc => by cases hc)
          · exact h3


/-! ## the checker; one poll by the application -/

/-- the new clause of `checkC06Stall`, alone -/
def checkLimiterExit (b : Book) (_ : Unit) : SEv → Unit × Option String
  | .obs (.ret (.server _) _) =>
      if b.topPoll && b.belowLimitStall then
        ((), some s!"limiter returned on poll_ready → Pending without polling the inner channel although only {b.lastCounts} of {b.limit.getD 0} requests were in flight")
      else ((), none)
  | _ => ((), none)

def chkLE (b : Book) (o : Obs) : Option String := (checkLimiterExit b () (.obs o)).2

theorem chkLE_eq : chkLE = chkOf checkLimiterExit := rfl

/-- the flag is clear (or the monitor is past a spin) -/
def LB (b : Book) : Prop := b.spun = true ∨ b.belowLimitStall = false

theorem chkLE_other (b : Book) (o : Obs) (h : isRS o = false) : chkLE b o = none := by
  unfold chkLE
  cases o with
  | ret t r =>
    cases t with
    | server k => cases h
    | _ => rfl
  | _ => rfl

theorem chkLE_LB (b : Book) (o : Obs) (h : LB b) : b.spun = true ∨ chkLE b o = none := by
  rcases h with h | h
  · exact Or.inl h
  · right
    unfold chkLE
    cases o with
    | ret t r =>
      cases t with
      | server k => simp only [checkLimiterExit, h, Bool.and_false, Bool.false_eq_true, if_false]
      | _ => rfl
    | _ => rfl

theorem LB.step {b : Book} (h : LB b) (o : Obs) (ho : noTR o = true) : LB (b.step (.obs o)) := by
  rcases step_frameL b o ho with hs | ⟨a1, _, _, _, a5⟩
  · exact Or.inl hs
  · rcases h with h | h
    · exact Or.inl (a5.trans h)
    · exact Or.inr (a1.trans h)

theorem LB.counts {b : Book} (h : LB b) (ep : TaskId) (a t : Nat) : LB (b.step (.obs (.counts ep a t))) := by
  cases ep with
  | server k => exact h
  | _ => exact h.step _ rfl

/-- observations that are no `poll_ready` calls, appended: the checks pass, the flag stays clear -/
theorem CK_ext {b0 : Book} {l : List Obs} : ∀ (l' : List Obs), (∀ o ∈ l', noTR o = true) → LB (bo b0 l) →
    CK chkLE b0 l → CK chkLE b0 (l' ++ l) ∧ LB (bo b0 (l' ++ l)) := by
  intro l'
  induction l' with
  | nil => intro _ h1 h2; exact ⟨h2, h1⟩
  | cons o l' ih =>
    intro hn h1 h2
    obtain ⟨h3, h4⟩ := ih (fun o' ho' => hn o' (List.mem_cons_of_mem _ ho')) h1 h2
    exact ⟨⟨h3, chkLE_LB _ o h4⟩, h4.step o (hn o (List.mem_cons_self ..))⟩

/-- without a limiter the flag is never set -/
def LN (b : Book) : Prop := b.spun = true ∨ (b.belowLimitStall = false ∧ b.limit = none)

theorem LN.step {b : Book} (h : LN b) (o : Obs) : LN (b.step (.obs o)) := by
  rcases h with h | ⟨h1, h2⟩
  · exact Or.inl (step_spun_mono _ _ h)
  · by_cases ho : noTR o = true
    · rcases step_frameL b o ho with hs | ⟨a1, _, a3, _, _⟩
      · exact Or.inl hs
      · exact Or.inr ⟨a1.trans h1, a3.trans h2⟩
    · right
      cases o with
      | tReady ep r =>
        have hc : (b.topPoll && b.prevReadyP && b.limit.isSome) = false := by rw [h2]; simp
        simp only [Book.step]
        (repeat' split) <;> (dsimp only at *) <;> first
          | exact ⟨h1, h2⟩
          | (rename_i hx; rw [hc] at hx; cases hx)
          | (rename_i hx _; rw [hc] at hx; cases hx)
      | counts ep a t =>
        cases ep with
        | server k => exact ⟨h1, h2⟩
        | _ => exact absurd rfl ho
      | _ => exact absurd rfl ho

theorem LN.bo {b0 : Book} (h : LN b0) (l : List Obs) : LN (bo b0 l) := by
  induction l with
  | nil => exact h
  | cons o l ih => exact ih.step o

theorem LN.toLB {b : Book} (h : LN b) : LB b := h.imp (fun h => h) (fun h => h.1)

theorem LG.toLB {b : Book} (h : LG l start b) : LB b := h.imp (fun h => h) (fun h => h.1)

/-- the class of the `poll_ready` calls and of the request stream's counts -/
def isTRC (o : Obs) : Bool := !noTR o

theorem isTRC_wakeQuiet : WakeQuiet isTRC := ⟨fun _ => rfl, rfl, fun _ _ => rfl⟩
theorem isTRC_execQuiet : ExecQuiet isTRC := ⟨⟨isTRC_wakeQuiet, fun _ _ => rfl⟩, fun _ _ _ => rfl⟩

theorem noTR_of_filter {l : List Obs} (h : l.filter isTRC = []) : ∀ o ∈ l, noTR o = true := by
  intro o ho
  have := List.filter_eq_nil_iff.mp h o ho
  unfold isTRC at this
  simpa using this


theorem CK_noRS {b0 : Book} (l : List Obs) (h : ∀ o ∈ l, isRS o = false) : CK chkLE b0 l := by
  have : CK chkLE b0 (l ++ []) := CK.append (l := []) trivial l (fun o ho b => chkLE_other b o (h o ho))
  simpa using this

theorem step_counts_lastCounts (b : Book) (k n t : Nat) : (b.step (.obs (.counts (.server k) n t))).lastCounts = n := rfl

/-- one `poll_next` of the request stream by the application (before it drops an ended stream) -/
theorem LE_pollServerKeep {b0 : Book} {s : St} (now : Nat) (h0 : s.obs = []) (hlim : b0.limit = s.limit)
    (htar : s.throttleAfterRead = false) (hel : s.ensureLoop = false) (hb : LB b0) (hp : b0.prevReadyP = false)
    (hfl : b0.spun = true ∨ s.dropped = true ∨ s.poisoned = true ∨ b0.lastCounts = s.inflight.length) :
    CK chkLE b0 (pollServerKeep s now).obs ∧ LB (bo b0 (pollServerKeep s now).obs) ∧
    ((bo b0 (pollServerKeep s now).obs).spun = true ∨ (pollServerKeep s now).dropped = true ∨
      (pollServerKeep s now).poisoned = true ∨
      (bo b0 (pollServerKeep s now).obs).lastCounts = (pollServerKeep s now).inflight.length) := by
  rw [pollServerKeep_eq]
  split
  · next hdead =>
    -- a dead stream: nothing happens
    have hck : CK chkLE b0 (emit s .noop).obs ∧ LB (bo b0 (emit s .noop).obs) := by
      have := CK_ext (b0 := b0) (l := s.obs) [.noop] (fun o ho => by rw [List.mem_singleton.mp ho]; rfl)
        (by rw [h0]; exact hb) (by rw [h0]; trivial)
      exact this
    refine ⟨hck.1, hck.2, ?_⟩
    rcases hfl with h | h | h | h
    · left
      rw [emit_obs, h0]
      show (b0.step (.obs .noop)).spun = true
      exact step_spun_mono b0 _ h
    · exact Or.inr (Or.inl h)
    · exact Or.inr (Or.inr (Or.inl h))
    · right; right; right
      rw [emit_obs, h0]
      exact h
  · next hlive =>
    simp only [Bool.or_eq_true, not_or, Bool.not_eq_true] at hlive
    have hG : LB (bo b0 (requestsPollNext (pollFuel { s with woken := false }) { s with woken := false } now).1.obs) := by
      have hcase : s.limit = none ∨ ∃ l, s.limit = some l := by
        cases s.limit with
        | none => exact Or.inl rfl
        | some l => exact Or.inr ⟨l, rfl⟩
      rcases hcase with hl | ⟨l, hl⟩
      · have : LN b0 := by
          rcases hb with h | h
          · exact Or.inl h
          · exact Or.inr ⟨h, hlim.trans hl⟩
        exact (this.bo _).toLB
      · have hlg : LG l s.inflight.length (bo b0 ({ s with woken := false } : St).obs) := by
          show LG l s.inflight.length (bo b0 s.obs)
          rw [h0]
          rcases hb with h | h
          · exact Or.inl h
          · rcases hfl with h1 | h1 | h1 | h1
            · exact Or.inl h1
            · rw [hlive.1.1] at h1; cases h1
            · rw [hlive.2] at h1; cases h1
            · refine Or.inr ⟨h, h1, hlim.trans hl, fun hc => ?_⟩
              have hc' : b0.prevReadyP = true := hc
              rw [hp] at hc'; cases hc'
        have hx := LG_requestsPollNext (b0 := b0) (l := l) (start := s.inflight.length) now
            (pollFuel { s with woken := false }) { s with woken := false } hl htar hel (Or.inr (Nat.le_refl _)) hlg
        rcases hx with hx | hx
        · exact Or.inl hx
        · exact Or.inr hx.1
    have hflt := flt_requestsPollNext isRS_pollQuiet now (pollFuel { s with woken := false }) { s with woken := false }
    revert hG hflt
    generalize requestsPollNext (pollFuel { s with woken := false }) { s with woken := false } now = p
    obtain ⟨s1, r⟩ := p
    intro hG hflt
    simp only at hG hflt ⊢
    have hnr : ∀ o ∈ s1.obs, isRS o = false := by
      intro o ho
      unfold Flt at hflt
      simp only at hflt
      cases hc : isRS o with
      | false => rfl
      | true =>
        have : o ∈ s1.obs.filter isRS := List.mem_filter.mpr ⟨ho, hc⟩
        rw [hflt, h0] at this
        cases this
    have hck1 : CK chkLE b0 s1.obs := CK_noRS s1.obs hnr
    split
    · -- a spin: the buffer is reset, the channel poisoned
      refine ⟨?_, ?_, Or.inr (Or.inr (Or.inl rfl))⟩
      · show CK chkLE b0 (.spin (tid s1) :: s.obs)
        rw [h0]
        exact ⟨trivial, Or.inr rfl⟩
      · show LB (bo b0 (.spin (tid s1) :: s.obs))
        exact Or.inl rfl
    · split
      · next hpo => exact ⟨hck1, hG, Or.inr (Or.inr (Or.inl hpo))⟩
      · -- the poll ends: `yielded`?, `ret`, `counts`
        have hret : ∃ lr, (pskRet s1 r).1.obs = lr ++ s1.obs ∧ (∀ o ∈ lr, noTR o = true) ∧
            (pskRet s1 r).1.inflight = s1.inflight := by
          unfold Flow.pskRet
          split
          · exact ⟨[], rfl, fun o ho => (by cases ho), rfl⟩
          · exact ⟨[], rfl, fun o ho => (by cases ho), rfl⟩
          · exact ⟨[], rfl, fun o ho => (by cases ho), rfl⟩
          · exact ⟨[], rfl, fun o ho => (by cases ho), rfl⟩
          · split
            · exact ⟨[_], rfl, fun o ho => (by rw [List.mem_singleton.mp ho]; rfl), rfl⟩
            · exact ⟨[], rfl, fun o ho => (by cases ho), rfl⟩
        obtain ⟨lr, hlr, hlrn, hinf⟩ := hret
        unfold Flow.pskFinish
        generalize hsr : (pskRet s1 r).1 = sr at hlr hinf
        generalize (pskRet s1 r).2 = rt
        have h2 := CK_ext (b0 := b0) (l := s1.obs) (.ret (tid sr) rt :: lr)
          (fun o ho => by
            rcases List.mem_cons.mp ho with rfl | ho'
            · rfl
            · exact hlrn o ho') hG hck1
        have hobs : (emit (emit sr (.ret (tid sr) rt)) (.counts (tid sr) sr.inflight.length sr.timers.len)).obs =
            .counts (tid sr) sr.inflight.length sr.timers.len :: (.ret (tid sr) rt :: lr ++ s1.obs) := by
          simp only [emit_obs, hlr, List.cons_append]
        rw [hobs]
        refine ⟨⟨h2.1, Or.inr (chkLE_other _ _ rfl)⟩, ?_, Or.inr (Or.inr (Or.inr ?_))⟩
        · show LB ((bo b0 (.ret (tid sr) rt :: lr ++ s1.obs)).step
            (.obs (.counts (tid sr) sr.inflight.length sr.timers.len)))
          exact h2.2.counts _ _ _
        · rfl


theorem isRS_of_noncore {o : Obs} (h : isCore o = false) : isRS o = false := by
  cases o with
  | ret t r =>
    cases t with
    | server k => cases h
    | _ => rfl
  | _ => rfl

theorem LE_pollServer {b0 : Book} {s : St} (now : Nat) (h0 : s.obs = []) (hlim : b0.limit = s.limit)
    (htar : s.throttleAfterRead = false) (hel : s.ensureLoop = false) (hb : LB b0) (hp : b0.prevReadyP = false)
    (hfl : b0.spun = true ∨ s.dropped = true ∨ s.poisoned = true ∨ b0.lastCounts = s.inflight.length) :
    CK chkLE b0 (pollServer s now).obs ∧
    ((bo b0 (pollServer s now).obs).spun = true ∨ (pollServer s now).dropped = true ∨
      (pollServer s now).poisoned = true ∨ (bo b0 (pollServer s now).obs).lastCounts = (pollServer s now).inflight.length) := by
  obtain ⟨h1, _, h3⟩ := LE_pollServerKeep (b0 := b0) now h0 hlim htar hel hb hp hfl
  unfold pollServer
  simp only
  split
  · next hc =>
    simp only [Bool.and_eq_true, Bool.not_eq_true'] at hc
    obtain ⟨lx, hlx, hpx⟩ := extW_dropServer (pollServerKeep s now)
    refine ⟨?_, Or.inr ?_⟩
    · rw [hlx]
      exact h1.append lx (fun o ho b => chkLE_other b o (isRS_of_noncore (hpx o ho).1))
    · cases hpo : (pollServerKeep s now).poisoned with
      | false =>
        exact Or.inl (dropServer_dropped _ (by rw [hc.2, hpo]; rfl))
      | true =>
        right; left
        have he : dropServer (pollServerKeep s now) = emit (pollServerKeep s now) .noop := by
          unfold dropServer; rw [if_pos (by rw [hpo]; simp)]
        rw [he]; exact hpo
  · split
    · exact ⟨h1, h3⟩
    · exact ⟨h1, h3⟩

/-! ## the invariant between ops; every trace -/

theorem endOp_lastCounts (b : Book) : b.endOp.lastCounts = b.lastCounts := by
  unfold Book.endOp; simp only []; (repeat' split) <;> rfl

theorem opBook_lastCounts (b : Book) (op : SOp) : (opBook b op).lastCounts = b.lastCounts := by
  unfold opBook Book.noteFinish
  have h0 : (b.step (.op op)).lastCounts = b.lastCounts := by
    have := endOp_lastCounts b
    cases op <;> exact this
  split
  · exact h0
  · exact h0

theorem opBook_poll_flags (b : Book) :
    (opBook b .pollServer).belowLimitStall = false ∧ (opBook b .pollServer).prevReadyP = false := by
  unfold opBook Book.noteFinish Book.step Book.endOp
  exact ⟨rfl, rfl⟩

theorem opBook_topPoll_other (b : Book) (op : SOp) (h : op ≠ .pollServer) : (opBook b op).topPoll = false := by
  unfold opBook Book.noteFinish
  have h0 : (b.step (.op op)).topPoll = false := by
    have : b.endOp.topPoll = false := by unfold Book.endOp; rfl
    cases op <;> first | exact absurd rfl h | exact this
  split
  · exact h0
  · exact h0

theorem chkLE_notTop (b : Book) (o : Obs) (h : b.topPoll = false) : chkLE b o = none := by
  unfold chkLE
  cases o with
  | ret t r =>
    cases t with
    | server k => simp only [checkLimiterExit, h, Bool.false_and, Bool.false_eq_true, if_false]
    | _ => rfl
  | _ => rfl

theorem CK_notTop (b0 : Book) (h : b0.topPoll = false) (l : List Obs) : CK chkLE b0 l := by
  induction l with
  | nil => trivial
  | cons o l ih => exact ⟨ih, Or.inr (chkLE_notTop _ o (by rw [bo_topPoll]; exact h))⟩

theorem bo_frameL (b : Book) : ∀ (l : List Obs), (∀ o ∈ l, noTR o = true) →
    (bo b l).spun = true ∨ (bo b l).lastCounts = b.lastCounts := by
  intro l
  induction l with
  | nil => intro _; exact Or.inr rfl
  | cons o l ih =>
    intro h
    rw [bo_cons]
    rcases ih (fun o' ho' => h o' (List.mem_cons_of_mem _ ho')) with h1 | h1
    · exact Or.inl (step_spun_mono _ _ h1)
    · rcases step_frameL (bo b l) o (h o (List.mem_cons_self ..)) with h2 | ⟨_, h2, _⟩
      · exact Or.inl h2
      · exact Or.inr (h2.trans h1)

theorem applyOp_inflight_len (c : Sys) (op : SOp) (h1 : op ≠ .pollServer) (h2 : op ≠ .dropServer) :
    (applyOp c op).s.inflight.length = c.s.inflight.length := by
  cases op with
  | pollServer => exact absurd rfl h1
  | dropServer => exact absurd rfl h2
  | pollExec v => show (pollExec c.s v c.now).inflight.length = _; rw [pollExec_inflight]
  | dropExec v => show (dropExec c.s v c.now).inflight.length = _; rw [dropExec_inflight]
  | finish v res => show (finishHandler c.s v res).inflight.length = _; rw [finishHandler_inflight]
  | injectReq id d tr b => show (liftT c.s _).inflight.length = _; rw [liftT_inflight]
  | injectCancel id tr => show (liftT c.s _).inflight.length = _; rw [liftT_inflight]
  | injectErr => show (liftT c.s _).inflight.length = _; rw [liftT_inflight]
  | eof => show (liftT c.s _).inflight.length = _; rw [liftT_inflight]
  | setReady b => show (liftT c.s _).inflight.length = _; rw [liftT_inflight]
  | setFlush b => show (liftT c.s _).inflight.length = _; rw [liftT_inflight]
  | fault k => rfl
  | faultSkip n => rfl
  | selfWake b => rfl
  | take n =>
    show ((c.s.t.take n).2.foldl (fun s m => emit s (.took (tid s) m)) { c.s with t := (c.s.t.take n).1 }).inflight.length = _
    have := congrArg (fun m => m.ents.length) (mv_took (c.s.t.take n).2 { c.s with t := (c.s.t.take n).1 })
    simpa [mv] using this
  | advance n => show (onAdvance c.s (c.now + n)).inflight.length = _; rw [onAdvance_inflight]

/-- between ops: the configuration, the limit, and the count the next channel poll begins with -/
structure OIL (b : Book) (c : Sys) : Prop where
  base : OInv b c
  lim : b.limit = c.s.limit
  cnt : b.spun = true ∨ c.s.dropped = true ∨ c.s.poisoned = true ∨ b.lastCounts = c.s.inflight.length

theorem op_stepL {b : Book} {c : Sys} (op : SOp) (h : OIL b c) :
    OIL (bo (opBook b op) (applyOp { c with s := { c.s with obs := [] } } op).s.obs) (stepOp c op).1 ∧
    CK chkLE (opBook b op) (applyOp { c with s := { c.s with obs := [] } } op).s.obs := by
  have hbase' := (op_step op h.base).1
  generalize hc0 : ({ c with s := { c.s with obs := [] } } : Sys) = c0 at hbase' ⊢
  have hobs0 : c0.s.obs = [] := by rw [← hc0]
  have hpo0 : c0.s.poisoned = c.s.poisoned := by rw [← hc0]
  have hdr0 : c0.s.dropped = c.s.dropped := by rw [← hc0]
  have hin0 : c0.s.inflight = c.s.inflight := by rw [← hc0]
  have hlim0 : c0.s.limit = c.s.limit := by rw [← hc0]
  have hcfg0 : c0.s.throttleAfterRead = false ∧ c0.s.ensureLoop = false := by
    rw [← hc0]; exact ⟨h.base.cfg1, h.base.cfg2⟩
  have hstep : (stepOp c op).1 = { applyOp c0 op with s := { (applyOp c0 op).s with obs := [] } } := by
    rw [← hc0]; rfl
  have hlim' : (bo (opBook b op) (applyOp c0 op).s.obs).limit = (stepOp c op).1.s.limit := by
    rw [bo_limit, opBook_limit, h.lim, hstep]
    show c.s.limit = (applyOp c0 op).s.limit
    have := (applyOp_mono (Cfg c0.s) (cfg_closed c0.s) c0 op ⟨rfl, rfl, rfl, rfl⟩).2.1
    rw [this, hlim0]
  have hfin : ((bo (opBook b op) (applyOp c0 op).s.obs).spun = true ∨ (applyOp c0 op).s.dropped = true ∨
      (applyOp c0 op).s.poisoned = true ∨
      (bo (opBook b op) (applyOp c0 op).s.obs).lastCounts = (applyOp c0 op).s.inflight.length) →
      OIL (bo (opBook b op) (applyOp c0 op).s.obs) (stepOp c op).1 := by
    intro hz
    refine ⟨hbase', hlim', ?_⟩
    rw [hstep]; exact hz
  have hstart : (opBook b op).spun = true ∨ c0.s.dropped = true ∨ c0.s.poisoned = true ∨
      (opBook b op).lastCounts = c0.s.inflight.length := by
    rcases h.cnt with h1 | h1 | h1 | h1
    · exact Or.inl (by rw [opBook_spun]; exact h1)
    · exact Or.inr (Or.inl (by rw [hdr0]; exact h1))
    · exact Or.inr (Or.inr (Or.inl (by rw [hpo0]; exact h1)))
    · exact Or.inr (Or.inr (Or.inr (by rw [opBook_lastCounts, hin0]; exact h1)))
  by_cases hps : op = .pollServer
  · subst hps
    obtain ⟨f1, f2⟩ := opBook_poll_flags b
    obtain ⟨hck, hfl⟩ := LE_pollServer (b0 := opBook b .pollServer) (s := c0.s) c0.now hobs0
      (by rw [opBook_limit, h.lim, hlim0]) hcfg0.1 hcfg0.2 (Or.inr f1) f2 hstart
    exact ⟨hfin hfl, hck⟩
  · refine ⟨hfin ?_, CK_notTop _ (opBook_topPoll_other b op hps) _⟩
    have hnt : ∀ o ∈ (applyOp c0 op).s.obs, noTR o = true := by
      apply noTR_of_filter
      rw [fx_applyOp isTRC_execQuiet c0 op hps, hobs0]; rfl
    rcases hstart with h1 | h1 | h1 | h1
    · left
      have : (bo (opBook b op) []).spun = true := h1
      have := bo_spun_mono (opBook b op) [] (applyOp c0 op).s.obs this
      simpa using this
    · exact Or.inr (Or.inl (applyOp_mono (fun s => s.dropped = true) dropped_closed c0 op h1))
    · exact Or.inr (Or.inr (Or.inl (by rw [applyOp_poisoned c0 op hps]; exact h1)))
    · by_cases hds : op = .dropServer
      · subst hds
        cases hlive : (c0.s.dropped || c0.s.poisoned) with
        | false => exact Or.inr (Or.inl (dropServer_dropped c0.s hlive))
        | true =>
          simp only [Bool.or_eq_true] at hlive
          rcases hlive with hd | hp
          · exact Or.inr (Or.inl (dropServer_dropped_mono c0.s hd))
          · exact Or.inr (Or.inr (Or.inl (by rw [applyOp_poisoned c0 .dropServer hps]; exact hp)))
      · rcases bo_frameL (opBook b op) _ hnt with h2 | h2
        · exact Or.inl h2
        · right; right; right
          rw [h2, h1, applyOp_inflight_len c0 op hps hds]

/-- **The limiter-exit clause never fires**: on every trace of the model. -/
theorem le_trace (ops : List SOp) : ∀ (c : Sys) (m : Mon Unit), m.bad = none → OIL m.book c →
    ((trace c ops).foldl (Mon.step checkLimiterExit) m).bad = none := by
  induction ops with
  | nil => intro c m hb _; exact hb
  | cons op ops ih =>
    intro c m hb hI
    obtain ⟨hI', hck⟩ := op_stepL op hI
    have htr : trace c (op :: ops) = SEv.op op :: ((stepOp c op).2.map SEv.obs ++ trace (stepOp c op).1 ops) := rfl
    rw [htr, List.foldl_cons, List.foldl_append, List.foldl_map]
    have hb1 : (Mon.step checkLimiterExit m (.op op)).bad = none := monG_step_bad _ m _ hb (Or.inr rfl)
    have hbk1 : (Mon.step checkLimiterExit m (.op op)).book = opBook m.book op := monG_step_book _ m _
    have hos : (stepOp c op).2 = (applyOp { c with s := { c.s with obs := [] } } op).s.obs.reverse := rfl
    rw [hos]
    have hm2 : (mobsG checkLimiterExit (Mon.step checkLimiterExit m (.op op))
        (applyOp { c with s := { c.s with obs := [] } } op).s.obs.reverse).bad = none :=
      mobsG_ok _ _ _ hb1 (by rw [hbk1]; exact hck)
    have hbk2 : (mobsG checkLimiterExit (Mon.step checkLimiterExit m (.op op))
        (applyOp { c with s := { c.s with obs := [] } } op).s.obs.reverse).book =
        bo (opBook m.book op) (applyOp { c with s := { c.s with obs := [] } } op).s.obs := by
      rw [mobsG_book, hbk1, bo_eq_foldl]
    have hI2 : OIL (mobsG checkLimiterExit (Mon.step checkLimiterExit m (.op op))
        (applyOp { c with s := { c.s with obs := [] } } op).s.obs.reverse).book (stepOp c op).1 := by
      rw [hbk2]; exact hI'
    exact ih (stepOp c op).1 _ hm2 hI2

theorem limiter_exit_accepts (limit : Option Nat) (respCap tcap : Nat) (coupled : Bool) (ops : List SOp) :
    (Mon.run limit checkLimiterExit () (trace (initSys limit respCap tcap coupled) ops)).bad = none :=
  le_trace ops _ _ rfl ⟨oinv_init limit respCap tcap coupled, rfl, Or.inr (Or.inr (Or.inr rfl))⟩

end TarpcModel.Server.Tab

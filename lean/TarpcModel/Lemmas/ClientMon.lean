import TarpcModel.Monitors.Client
import TarpcModel.Lemmas.ClientInv
/-
Coupling between the client model's state and the monitors' bookkeeping (`Book`), and a generic
acceptance lemma: a checker that never objects to an op, and never objects to an observation that is
`ObsGood` for a state coupled with its book, accepts every trace of the model.
-/
set_option linter.unusedSimpArgs false
set_option linter.unusedVariables false
namespace TarpcModel.Client

/-- the `(cid, deadline)` pairs of the book's calls -/
def bsig (l : List BCall) : List (Nat × Nat) := l.map (fun c => (c.cid, c.deadline))

/-- The book agrees with the model about handles and about which calls exist with which deadline. -/
structure BCpl (c : Sys) (bk : Book) : Prop where
  handles : bk.handles = c.s.handles
  nextHandle : bk.nextHandle = c.s.nextHandle
  calls : bsig bk.calls = sigD c.s.calls

theorem bsig_updCall (b : Book) (cid : Nat) (f : BCall → BCall)
    (hf : ∀ x, (f x).cid = x.cid ∧ (f x).deadline = x.deadline) : bsig (b.updCall cid f).calls = bsig b.calls := by
  simp only [Book.updCall, bsig, List.map_map]
  apply List.map_congr_left
  intro x _
  simp only [Function.comp]
  split
  · rw [(hf x).1, (hf x).2]
  · rfl

theorem BCpl.endOp {c : Sys} {bk : Book} (h : BCpl c bk) : BCpl c bk.endOp := by
  unfold Book.endOp
  simp only
  split
  · refine ⟨h.handles, h.nextHandle, ?_⟩
    simp only
    rw [bsig_updCall]
    · exact h.calls
    · intro x; split <;> exact ⟨rfl, rfl⟩
  · exact ⟨h.handles, h.nextHandle, h.calls⟩

theorem BCpl.obs {c : Sys} {bk : Book} (h : BCpl c bk) (o : Obs) : BCpl c (bk.step (.obs o)) := by
  unfold Book.step
  simp only
  split <;> first
    | exact ⟨h.handles, h.nextHandle, h.calls⟩
    | (split <;> exact ⟨h.handles, h.nextHandle, h.calls⟩)
    | (refine ⟨h.handles, h.nextHandle, ?_⟩
       rw [bsig_updCall]
       · exact h.calls
       · intro x; exact ⟨rfl, rfl⟩)

theorem BCpl.len {c : Sys} {bk : Book} (h : BCpl c bk) : bk.calls.length = c.s.calls.length := by
  have := congrArg List.length h.calls
  simpa [bsig, sigD] using this

theorem BCpl.op {c : Sys} {bk : Book} (hi : StInv c.s c.now) (h : BCpl c bk) (op : COp) :
    BCpl (stepOp c op).1 (bk.step (.op op)) := by
  have he := h.endOp
  obtain ⟨-, hf⟩ := stepOp_frame hi op
  unfold Book.step
  simp only
  cases op with
  | call hd d tr body =>
    simp only at hf ⊢
    obtain ⟨f1, f2, f3⟩ := hf
    rw [← he.handles] at f3
    split
    · rename_i hc
      rw [if_pos hc] at f3
      refine ⟨he.handles.trans f1.symm, he.nextHandle.trans f2.symm, ?_⟩
      rw [f3]
      simp only [bsig, List.map_append, List.map_cons, List.map_nil]
      rw [← he.len]
      have := he.calls
      simp only [bsig] at this
      rw [this]
    · rename_i hc
      rw [if_neg hc] at f3
      exact ⟨he.handles.trans f1.symm, he.nextHandle.trans f2.symm, he.calls.trans f3.symm⟩
  | clone hd =>
    simp only at hf ⊢
    obtain ⟨f1, f2, f3⟩ := hf
    rw [← he.handles, ← he.nextHandle] at f2 f3
    split
    · rename_i hc
      rw [if_pos hc] at f2 f3
      exact ⟨f2.symm, f3.symm, he.calls.trans f1.symm⟩
    · rename_i hc
      rw [if_neg hc] at f2 f3
      exact ⟨f2.symm, f3.symm, he.calls.trans f1.symm⟩
  | dropHandle hd =>
    simp only at hf ⊢
    obtain ⟨f1, f2, f3⟩ := hf
    rw [← he.handles] at f2
    exact ⟨f2.symm, he.nextHandle.trans f3.symm, he.calls.trans f1.symm⟩
  | pollCall cid => exact ⟨he.handles.trans hf.2.1.symm, he.nextHandle.trans hf.2.2.symm, he.calls.trans hf.1.symm⟩
  | dropCall cid site => exact ⟨he.handles.trans hf.2.1.symm, he.nextHandle.trans hf.2.2.symm, he.calls.trans hf.1.symm⟩
  | pollDispatch => exact ⟨he.handles.trans hf.2.1.symm, he.nextHandle.trans hf.2.2.symm, he.calls.trans hf.1.symm⟩
  | dropDispatch => exact ⟨he.handles.trans hf.2.1.symm, he.nextHandle.trans hf.2.2.symm, he.calls.trans hf.1.symm⟩
  | injectResp id res => exact ⟨he.handles.trans hf.2.1.symm, he.nextHandle.trans hf.2.2.symm, he.calls.trans hf.1.symm⟩
  | injectErr => exact ⟨he.handles.trans hf.2.1.symm, he.nextHandle.trans hf.2.2.symm, he.calls.trans hf.1.symm⟩
  | eof => exact ⟨he.handles.trans hf.2.1.symm, he.nextHandle.trans hf.2.2.symm, he.calls.trans hf.1.symm⟩
  | setReady v => exact ⟨he.handles.trans hf.2.1.symm, he.nextHandle.trans hf.2.2.symm, he.calls.trans hf.1.symm⟩
  | setFlush v => exact ⟨he.handles.trans hf.2.1.symm, he.nextHandle.trans hf.2.2.symm, he.calls.trans hf.1.symm⟩
  | fault k => exact ⟨he.handles.trans hf.2.1.symm, he.nextHandle.trans hf.2.2.symm, he.calls.trans hf.1.symm⟩
  | faultSkip n => exact ⟨he.handles.trans hf.2.1.symm, he.nextHandle.trans hf.2.2.symm, he.calls.trans hf.1.symm⟩
  | selfWake b => exact ⟨he.handles.trans hf.2.1.symm, he.nextHandle.trans hf.2.2.symm, he.calls.trans hf.1.symm⟩
  | take n => exact ⟨he.handles.trans hf.2.1.symm, he.nextHandle.trans hf.2.2.symm, he.calls.trans hf.1.symm⟩
  | advance n => exact ⟨he.handles.trans hf.2.1.symm, he.nextHandle.trans hf.2.2.symm, he.calls.trans hf.1.symm⟩

theorem cpl_init (m bcap tcap : Nat) (coupled : Bool) : BCpl (initSys m bcap tcap coupled) {} :=
  ⟨rfl, rfl, rfl⟩

/-- The book finds the model's call: same deadline. -/
theorem BCpl.find {c : Sys} {bk : Book} (h : BCpl c bk) {cid : Nat} {ci : BCall}
    (hf : bk.calls.find? (·.cid == cid) = some ci) :
    ∃ cl ∈ c.s.calls, cl.cid = cid ∧ cl.ctx.deadline = ci.deadline := by
  have hm : (ci.cid, ci.deadline) ∈ bsig bk.calls :=
    List.mem_map_of_mem (f := fun c : BCall => (c.cid, c.deadline)) (List.mem_of_find?_eq_some hf)
  rw [h.calls] at hm
  obtain ⟨cl, hcl, he⟩ := List.mem_map.mp hm
  simp only [Prod.mk.injEq] at he
  have := List.find?_some hf
  simp only [beq_iff_eq] at this
  exact ⟨cl, hcl, he.1.trans this, he.2⟩

/-! ### a generic acceptance lemma -/

theorem Mon.step_book_eq {σ : Type} (check : Book → σ → CEv → σ × Option String) (m : Mon σ) (e : CEv) :
    (Mon.step check m e).book = m.book.step e := by
  unfold Mon.step
  simp only
  split <;> (split <;> simp [Mon.fail] <;> try (split <;> rfl))

theorem Mon.step_ok_op {σ : Type} (check : Book → σ → CEv → σ × Option String) (m : Mon σ) (op : COp)
    (hb : m.bad = none) (hc : (check m.book.endOp m.st (.op op)).2 = none) :
    (Mon.step check m (.op op)).bad = none := by
  unfold Mon.step
  simp only
  by_cases hs : m.book.endOp.spun = true
  · simp [hs, hb]
  · simp [hs, hc, hb]

theorem Mon.step_ok_obs {σ : Type} (check : Book → σ → CEv → σ × Option String) (m : Mon σ) (o : Obs)
    (hb : m.bad = none) (hc : (check m.book m.st (.obs o)).2 = none) :
    (Mon.step check m (.obs o)).bad = none := by
  unfold Mon.step
  simp only
  by_cases hs : m.book.spun = true
  · simp [hs, hb]
  · simp [hs, hc, hb]

theorem mon_accepts_from {σ : Type} (check : Book → σ → CEv → σ × Option String) (m T : Nat)
    (hop : ∀ bk st op, (check bk st (.op op)).2 = none)
    (hobs : ∀ (c : Sys) bk st o, c.s.maxInFlight = m → c.now ≤ T → StInv c.s c.now → BCpl c bk →
      ObsGood m c.s.calls c.now o → (check bk st (.obs o)).2 = none)
    (ops : List COp) (c : Sys) (mon : Mon σ) (hi : StInv c.s c.now) (hm : c.s.maxInFlight = m) (hc : BCpl c mon.book)
    (hb : mon.bad = none) (hT : c.now + advSum ops ≤ T) : ((trace c ops).foldl (Mon.step check) mon).bad = none := by
  induction ops generalizing c mon with
  | nil => exact hb
  | cons op ops ih =>
    simp only [trace, List.foldl_cons, List.foldl_append]
    have hi' := inv_stepOp hi op
    have hm' : (stepOp c op).1.s.maxInFlight = m := (stepOp_frame hi op).1.trans hm
    have hnow : (stepOp c op).1.now + advSum ops ≤ T := by
      rw [stepOp_now]; simp only [advSum] at hT; omega
    have hnow' : (stepOp c op).1.now ≤ T := by omega
    have hog := obs_stepOp hi op
    rw [hm'] at hog
    -- the op event
    have hb1 : (Mon.step check mon (.op op)).bad = none := Mon.step_ok_op check mon _ hb (hop _ _ _)
    have hc1 : BCpl (stepOp c op).1 (Mon.step check mon (.op op)).book := by
      rw [Mon.step_book_eq]; exact hc.op hi op
    -- the observations of the op
    have hobsl : ∀ (os : List Obs) (mon1 : Mon σ),
        (∀ o ∈ os, ObsGood m (stepOp c op).1.s.calls (stepOp c op).1.now o) →
        BCpl (stepOp c op).1 mon1.book → mon1.bad = none →
        BCpl (stepOp c op).1 ((os.map CEv.obs).foldl (Mon.step check) mon1).book ∧
          ((os.map CEv.obs).foldl (Mon.step check) mon1).bad = none := by
      intro os
      induction os with
      | nil => exact fun mon1 _ h1 h2 => ⟨h1, h2⟩
      | cons o os ih2 =>
        intro mon1 hg h1 h2
        simp only [List.map_cons, List.foldl_cons]
        apply ih2
        · exact fun o' ho' => hg o' (List.mem_cons_of_mem _ ho')
        · rw [Mon.step_book_eq]; exact h1.obs o
        · exact Mon.step_ok_obs check mon1 _ h2 (hobs _ _ _ _ hm' hnow' hi' h1 (hg o List.mem_cons_self))
    obtain ⟨hc2, hb2⟩ := hobsl _ _ hog hc1 hb1
    exact ih _ _ hi' hm' hc2 hb2 hnow

/-- A checker that never objects to an op, and never objects to an observation that is good for a state coupled
with its book (whose clock is within the script's total advance `T`), accepts every trace of the client model. -/
theorem mon_accepts {σ : Type} (check : Book → σ → CEv → σ × Option String) (m bcap tcap : Nat) (coupled : Bool)
    (init : σ) (T : Nat)
    (hop : ∀ bk st op, (check bk st (.op op)).2 = none)
    (hobs : ∀ (c : Sys) bk st o, c.s.maxInFlight = m → c.now ≤ T → StInv c.s c.now → BCpl c bk →
      ObsGood m c.s.calls c.now o → (check bk st (.obs o)).2 = none)
    (ops : List COp) (hT : advSum ops ≤ T) :
    (Mon.run check init (trace (initSys m bcap tcap coupled) ops)).ok = true := by
  unfold Mon.run Mon.ok
  rw [mon_accepts_from check m T hop hobs ops (initSys m bcap tcap coupled) { st := init }
    (inv_init 0 m bcap tcap coupled 0) rfl (cpl_init m bcap tcap coupled) rfl
    (by show 0 + advSum ops ≤ T; omega)]
  rfl

/-- Every observation in a trace is good for some list of calls at some instant within the script's total advance
(enough for observations whose goodness does not depend on the calls: `counts`, `panic`). -/
theorem trace_obs_good (m : Nat) (ops : List COp) (c : Sys) (hi : StInv c.s c.now) (hm : c.s.maxInFlight = m) :
    ∀ o, CEv.obs o ∈ trace c ops → ∃ calls now, now ≤ c.now + advSum ops ∧ ObsGood m calls now o := by
  induction ops generalizing c with
  | nil => intro o ho; simp [trace] at ho
  | cons op ops ih =>
    intro o ho
    simp only [trace, List.mem_cons, reduceCtorEq, List.mem_append, List.mem_map, CEv.obs.injEq, exists_eq_right,
      false_or] at ho
    have hm' : (stepOp c op).1.s.maxInFlight = m := (stepOp_frame hi op).1.trans hm
    rcases ho with ho | ho
    · refine ⟨_, (stepOp c op).1.now, ?_, hm' ▸ obs_stepOp hi op o ho⟩
      rw [stepOp_now]; simp only [advSum]; omega
    · obtain ⟨calls, now, hn, hg⟩ := ih _ (inv_stepOp hi op) hm' o ho
      refine ⟨calls, now, ?_, hg⟩
      rw [stepOp_now] at hn; simp only [advSum]; omega

end TarpcModel.Client

import TarpcModel.Lemmas.ClientTrack
/-!
# Every waiting call is accounted for

`AccI H s`:

* a call future that is `awaiting` its response with its receiver open has its request in the request queue, or an entry
  in the in-flight table, or its oneshot already holds a value, or the oneshot's sender was dropped — unless the
  dispatch has panicked (`poisoned`: it then froze with whatever it held);
* a call future that is `reserving` (waiting for a permit) is in the wait queue or has been handed a permit — or the
  queue is closed (every waiter was woken to fail), or its `Acquire` is being dropped.

`H = some cid` marks the moment inside `poll_write_request` between taking the request of call `cid` off the queue and
inserting it into the table.  Preservation is proved for every function of the model; `reach_acc` is the invariant
over all reachable states.
-/
set_option linter.unusedSimpArgs false
set_option linter.unusedVariables false
namespace TarpcModel.Client

/-- per call: id of the future, phase, sender dropped, receiver closed, a value is waiting in the oneshot -/
def acore (c : Call) : Nat × Phase × Bool × Bool × Bool :=
  (c.cid, c.phase, c.os.txDropped, c.os.rxClosed, c.os.val.isSome)

def acores (s : St) : List (Nat × Phase × Bool × Bool × Bool) := s.calls.map acore

structure AccI (H : Option Nat) (s : St) : Prop where
  acc : ∀ cid tx v, (cid, Phase.awaiting, tx, false, v) ∈ acores s →
    (∃ r ∈ s.pq, r.cid = cid) ∨ (∃ e ∈ s.inflight, e.cid = cid) ∨ v = true ∨ tx = true ∨ s.poisoned = true ∨ H = some cid
  res : ∀ cid tx rx v, (cid, Phase.reserving, tx, rx, v) ∈ acores s →
    cid ∈ s.pqWaiters ∨ cid ∈ s.pqAssigned ∨ tx = true ∨ s.pqClosed = true

/-- `s'` agrees with `s` on everything `AccI` reads (the dispatch may have become poisoned) -/
structure QA (s s' : St) : Prop where
  cs : acores s' = acores s
  inflight : s'.inflight = s.inflight
  pq : s'.pq = s.pq
  pqWaiters : s'.pqWaiters = s.pqWaiters
  pqAssigned : s'.pqAssigned = s.pqAssigned
  pqClosed : s'.pqClosed = s.pqClosed
  po : s.poisoned = true → s'.poisoned = true

theorem QA.refl (s : St) : QA s s := ⟨rfl, rfl, rfl, rfl, rfl, rfl, id⟩

theorem QA.trans {a b c : St} (h1 : QA a b) (h2 : QA b c) : QA a c :=
  ⟨h2.cs.trans h1.cs, h2.inflight.trans h1.inflight, h2.pq.trans h1.pq, h2.pqWaiters.trans h1.pqWaiters,
   h2.pqAssigned.trans h1.pqAssigned, h2.pqClosed.trans h1.pqClosed, fun h => h2.po (h1.po h)⟩

theorem QA.after {a b c : St} (h2 : QA b c) (h1 : QA a b) : QA a c := h1.trans h2

theorem QA.of_calls {s s' : St} (hc : s'.calls = s.calls) (h1 : s'.inflight = s.inflight) (h2 : s'.pq = s.pq)
    (h3 : s'.pqWaiters = s.pqWaiters) (h4 : s'.pqAssigned = s.pqAssigned) (h5 : s'.pqClosed = s.pqClosed)
    (h6 : s.poisoned = true → s'.poisoned = true) : QA s s' :=
  ⟨by unfold acores; rw [hc], h1, h2, h3, h4, h5, h6⟩

theorem AccI.qa {H : Option Nat} {s s' : St} (h : AccI H s) (q : QA s s') : AccI H s' := by
  refine ⟨?_, ?_⟩
  · intro cid tx v hm
    rw [q.cs] at hm
    rw [q.pq, q.inflight]
    rcases h.acc cid tx v hm with a | a | a | a | a | a
    · exact Or.inl a
    · exact Or.inr (Or.inl a)
    · exact Or.inr (Or.inr (Or.inl a))
    · exact Or.inr (Or.inr (Or.inr (Or.inl a)))
    · exact Or.inr (Or.inr (Or.inr (Or.inr (Or.inl (q.po a)))))
    · exact Or.inr (Or.inr (Or.inr (Or.inr (Or.inr a))))
  · intro cid tx rx v hm
    rw [q.cs] at hm
    rw [q.pqWaiters, q.pqAssigned, q.pqClosed]
    exact h.res cid tx rx v hm

theorem qa_foldl {α : Type} (f : St → α → St) (hf : ∀ s a, QA s (f s a)) (l : List α) (s : St) : QA s (l.foldl f s) := by
  induction l generalizing s with
  | nil => exact QA.refl _
  | cons a l ih => exact (hf s a).trans (ih _)

theorem qa_emit (s : St) (o : Obs) : QA s (emit s o) := QA.of_calls rfl rfl rfl rfl rfl rfl id

theorem qa_wakeDispatch (s : St) : QA s (wakeDispatch s) :=
  QA.of_calls (by simp) (by simp) (by simp) (by simp) (by simp) (by simp) (by simp)

theorem acores_updCall (s : St) (cid : Nat) (f : Call → Call) (hf : ∀ c, acore (f c) = acore c) :
    acores (updCall s cid f) = acores s := by
  simp only [acores, updCall, List.map_map]
  apply List.map_congr_left
  intro c _
  simp only [Function.comp]
  split
  · exact hf c
  · rfl

theorem qa_updCall (s : St) (cid : Nat) (f : Call → Call) (hf : ∀ c, acore (f c) = acore c) : QA s (updCall s cid f) :=
  ⟨acores_updCall s cid f hf, rfl, rfl, rfl, rfl, rfl, id⟩

theorem qa_wakeCall (s : St) (cid : Nat) : QA s (wakeCall s cid) := by
  unfold wakeCall
  split
  · split
    · exact (qa_emit _ _).after (qa_updCall s cid _ (fun _ => rfl))
    · exact QA.refl _
  · exact QA.refl _

theorem qa_removeTimer (s : St) (k : Nat) : QA s (removeTimer s k) := by
  unfold removeTimer
  split
  · simp only
    split
    · exact (qa_wakeDispatch _).after (QA.of_calls rfl rfl rfl rfl rfl rfl id)
    · exact QA.of_calls rfl rfl rfl rfl rfl rfl id
  · exact (qa_emit _ _).after (QA.of_calls rfl rfl rfl rfl rfl rfl (fun _ => rfl))

theorem qa_tReady (s : St) : QA s (tReady s).1 :=
  QA.of_calls (by simp) (by simp) (by simp) (by simp) (by simp) (by simp) (by simp)
theorem qa_tFlush (s : St) : QA s (tFlush s).1 :=
  QA.of_calls (by simp) (by simp) (by simp) (by simp) (by simp) (by simp) (by simp)
theorem qa_tClose (s : St) : QA s (tClose s).1 :=
  QA.of_calls (by simp) (by simp) (by simp) (by simp) (by simp) (by simp) (by simp)
theorem qa_tSend (s : St) (m : Msg) : QA s (tSend s m).1 :=
  QA.of_calls (by simp) (by simp) (by simp) (by simp) (by simp) (by simp) (by simp)
theorem qa_tNext (s : St) : QA s (tNext s).1 :=
  QA.of_calls (by simp) (by simp) (by simp) (by simp) (by simp) (by simp) (by simp)

theorem qa_ensureOnce (s : St) : QA s (ensureOnce s).1 := by
  refine Flow.ensureOnce_cases (motive := fun p => QA s p.1) s ?_ ?_ ?_ ?_ ?_
  · intro s1 h1; have := qa_tReady s; rw [h1] at this; exact this
  · intro s1 h1; have := qa_tReady s; rw [h1] at this; exact this
  · intro s1 s2 h1 h2
    have a := qa_tReady s; rw [h1] at a
    have b := qa_tFlush s1; rw [h2] at b
    exact a.trans b
  · intro s1 s2 h1 h2
    have a := qa_tReady s; rw [h1] at a
    have b := qa_tFlush s1; rw [h2] at b
    exact a.trans b
  · intro s1 s2 s3 r h1 h2 h3
    have a := qa_tReady s; rw [h1] at a
    have b := qa_tFlush s1; rw [h2] at b
    have c := qa_tReady s2; rw [h3] at c
    exact (a.trans b).trans c

theorem qa_ensureLoop (fuel : Nat) (s : St) : QA s (ensureLoop fuel s).1 := by
  induction fuel generalizing s with
  | zero => rw [Flow.ensureLoop_zero]; exact qa_emit _ _
  | succ fuel ih =>
    refine Flow.ensureLoop_cases (motive := fun p => QA s p.1) fuel s ?_ ?_ ?_ ?_ ?_
    · intro s1 h1; have := qa_tReady s; rw [h1] at this; exact this
    · intro s1 h1; have := qa_tReady s; rw [h1] at this; exact this
    · intro s1 s2 h1 h2
      have a := qa_tReady s; rw [h1] at a
      have b := qa_tFlush s1; rw [h2] at b
      exact a.trans b
    · intro s1 s2 h1 h2
      have a := qa_tReady s; rw [h1] at a
      have b := qa_tFlush s1; rw [h2] at b
      exact a.trans b
    · intro s1 s2 h1 h2
      have a := qa_tReady s; rw [h1] at a
      have b := qa_tFlush s1; rw [h2] at b
      exact (a.trans b).trans (ih s2)

theorem qa_ensureWriteable (s : St) : QA s (ensureWriteable s).1 := by
  unfold ensureWriteable; split
  · exact qa_ensureLoop _ _
  · exact qa_ensureOnce _

/-! ### calls and their cores -/

theorem mem_acores_of_mem {s : St} {c : Call} (h : c ∈ s.calls) : acore c ∈ acores s := List.mem_map_of_mem h

theorem mem_acores_of_getCall {s : St} {cid : Nat} {c : Call} (h : getCall s cid = some c) : acore c ∈ acores s :=
  mem_acores_of_mem (List.mem_of_find?_eq_some h)

theorem mem_acores {s : St} {y : Nat × Phase × Bool × Bool × Bool} (h : y ∈ acores s) : ∃ c ∈ s.calls, acore c = y :=
  List.mem_map.mp h

/-- the ids being distinct, a core in the list is the core of the call `getCall` finds -/
theorem CUniq.aunique {s : St} (hu : CUniq s) {cid : Nat} {c : Call} (hg : getCall s cid = some c)
    {y : Nat × Phase × Bool × Bool × Bool} (hy : y ∈ acores s) (e : y.1 = cid) : y = acore c := by
  obtain ⟨c', hc', rfl⟩ := mem_acores hy
  obtain ⟨hm, hcid⟩ := getCall_some hg
  have : c' = c := nodup_map_unique hu hc' hm (by simpa [acore, hcid] using e)
  rw [this]

/-- what an update of call `cid` does to the cores (the ids being distinct) -/
theorem acores_updCall_mem {s : St} (hu : CUniq s) {cid : Nat} {c : Call} (hg : getCall s cid = some c)
    (f : Call → Call) (hf : ∀ c, (f c).cid = c.cid) {y : Nat × Phase × Bool × Bool × Bool} :
    y ∈ acores (updCall s cid f) ↔ (y ∈ acores s ∧ y.1 ≠ cid) ∨ y = acore (f c) := by
  have hcid := getCall_cid hg
  constructor
  · intro hy
    simp only [acores, updCall, List.map_map, List.mem_map, Function.comp] at hy
    obtain ⟨c', hc', rfl⟩ := hy
    by_cases hx : c'.cid = cid
    · have hb : (c'.cid == cid) = true := by simpa using hx
      simp only [hb, ↓reduceIte]
      right
      have : c' = c := nodup_map_unique hu hc' (getCall_some hg).1 (by rw [hx, hcid])
      rw [this]
    · have hb : (c'.cid == cid) = false := by simpa using hx
      simp only [hb, Bool.false_eq_true, ↓reduceIte]
      exact Or.inl ⟨mem_acores_of_mem hc', by simpa [acore] using hx⟩
  · rintro (⟨hy, hne⟩ | rfl)
    · obtain ⟨c', hc', rfl⟩ := mem_acores hy
      have hx : c'.cid ≠ cid := by simpa [acore] using hne
      have hb : (c'.cid == cid) = false := by simpa using hx
      simp only [acores, updCall, List.map_map, List.mem_map, Function.comp]
      exact ⟨c', hc', by simp [hb]⟩
    · exact mem_acores_of_getCall (getCall_updCall_some hg f hf)

/-! ### steps that only raise `val` / `txDropped` of calls -/

/-- every call of `s'` was there in `s` in the same phase, with the same receiver flag; a value in the oneshot and a
dropped sender stay; the queues, the table and the permit lists are the same -/
structure CoreLe (s s' : St) : Prop where
  le : ∀ cid ph tx rx v, (cid, ph, tx, rx, v) ∈ acores s' →
    ∃ tx0 v0, (cid, ph, tx0, rx, v0) ∈ acores s ∧ (tx0 = true → tx = true) ∧ (v0 = true → v = true)
  inflight : s'.inflight = s.inflight
  pq : s'.pq = s.pq
  pqWaiters : s'.pqWaiters = s.pqWaiters
  pqAssigned : s'.pqAssigned = s.pqAssigned
  pqClosed : s'.pqClosed = s.pqClosed
  po : s.poisoned = true → s'.poisoned = true
  cids : s'.calls.map (·.cid) = s.calls.map (·.cid)

theorem CoreLe.refl (s : St) : CoreLe s s :=
  ⟨fun _ _ tx _ v h => ⟨tx, v, h, id, id⟩, rfl, rfl, rfl, rfl, rfl, id, rfl⟩

theorem CoreLe.trans {a b c : St} (h1 : CoreLe a b) (h2 : CoreLe b c) : CoreLe a c := by
  refine ⟨?_, h2.inflight.trans h1.inflight, h2.pq.trans h1.pq, h2.pqWaiters.trans h1.pqWaiters,
    h2.pqAssigned.trans h1.pqAssigned, h2.pqClosed.trans h1.pqClosed, fun h => h2.po (h1.po h), h2.cids.trans h1.cids⟩
  intro cid ph tx rx v hm
  obtain ⟨tx1, v1, hm1, a1, b1⟩ := h2.le cid ph tx rx v hm
  obtain ⟨tx0, v0, hm0, a0, b0⟩ := h1.le cid ph tx1 rx v1 hm1
  exact ⟨tx0, v0, hm0, fun h => a1 (a0 h), fun h => b1 (b0 h)⟩

theorem CoreLe.after {a b c : St} (h2 : CoreLe b c) (h1 : CoreLe a b) : CoreLe a c := h1.trans h2

theorem QA.le {s s' : St} (q : QA s s') (hc : s'.calls.map (·.cid) = s.calls.map (·.cid)) : CoreLe s s' :=
  ⟨fun _ _ tx _ v h => ⟨tx, v, q.cs ▸ h, id, id⟩, q.inflight, q.pq, q.pqWaiters, q.pqAssigned, q.pqClosed, q.po, hc⟩

theorem acids_eq (s : St) : s.calls.map (·.cid) = (acores s).map (·.1) := by
  simp [acores, acore, List.map_map, Function.comp]

theorem QA.le' {s s' : St} (q : QA s s') : CoreLe s s' :=
  q.le (by rw [acids_eq, acids_eq, q.cs])

theorem CoreLe.cuniq {s s' : St} (h : CoreLe s s') (hu : CUniq s) : CUniq s' := by
  unfold CUniq; rw [h.cids]; exact hu

theorem AccI.le {H : Option Nat} {s s' : St} (h : AccI H s) (q : CoreLe s s') : AccI H s' := by
  refine ⟨?_, ?_⟩
  · intro cid tx v hm
    obtain ⟨tx0, v0, hm0, a, b⟩ := q.le _ _ _ _ _ hm
    rw [q.pq, q.inflight]
    rcases h.acc cid tx0 v0 hm0 with x | x | x | x | x | x
    · exact Or.inl x
    · exact Or.inr (Or.inl x)
    · exact Or.inr (Or.inr (Or.inl (b x)))
    · exact Or.inr (Or.inr (Or.inr (Or.inl (a x))))
    · exact Or.inr (Or.inr (Or.inr (Or.inr (Or.inl (q.po x)))))
    · exact Or.inr (Or.inr (Or.inr (Or.inr (Or.inr x))))
  · intro cid tx rx v hm
    obtain ⟨tx0, v0, hm0, a, _⟩ := q.le _ _ _ _ _ hm
    rw [q.pqWaiters, q.pqAssigned, q.pqClosed]
    rcases h.res cid tx0 rx v0 hm0 with x | x | x | x
    · exact Or.inl x
    · exact Or.inr (Or.inl x)
    · exact Or.inr (Or.inr (Or.inl (a x)))
    · exact Or.inr (Or.inr (Or.inr x))

/-- an update of the calls `cid` that raises `val` / `txDropped` only -/
theorem le_updCall (s : St) (cid : Nat) (f : Call → Call)
    (hf : ∀ c, (f c).cid = c.cid ∧ (f c).phase = c.phase ∧ (f c).os.rxClosed = c.os.rxClosed ∧
      (c.os.txDropped = true → (f c).os.txDropped = true) ∧ (c.os.val.isSome = true → (f c).os.val.isSome = true)) :
    CoreLe s (updCall s cid f) := by
  refine ⟨?_, rfl, rfl, rfl, rfl, rfl, id, ?_⟩
  · intro cid' ph tx rx v hm
    simp only [acores, updCall, List.map_map, List.mem_map, Function.comp] at hm
    obtain ⟨c', hc', he⟩ := hm
    by_cases hx : (c'.cid == cid) = true
    · simp only [hx, ↓reduceIte, acore, Prod.mk.injEq] at he
      obtain ⟨e1, e2, e3, e4, e5⟩ := he
      obtain ⟨f1, f2, f3, f4, f5⟩ := hf c'
      refine ⟨c'.os.txDropped, c'.os.val.isSome, ?_, fun h => by rw [← e3]; exact f4 h, fun h => by rw [← e5]; exact f5 h⟩
      have : acore c' = (cid', ph, c'.os.txDropped, rx, c'.os.val.isSome) := by
        simp [acore, ← e1, ← e2, ← e4, f1, f2, f3]
      rw [← this]; exact mem_acores_of_mem hc'
    · have hx' : (c'.cid == cid) = false := by simpa using hx
      simp only [hx', Bool.false_eq_true, ↓reduceIte] at he
      exact ⟨tx, v, by rw [← he]; exact mem_acores_of_mem hc', id, id⟩
  · simp only [updCall, List.map_map]
    apply List.map_congr_left
    intro c' _
    simp only [Function.comp]
    split
    · exact (hf c').1
    · rfl

theorem le_wakeCall (s : St) (cid : Nat) : CoreLe s (wakeCall s cid) := (qa_wakeCall s cid).le'

theorem le_osSend (s : St) (cid : Nat) (o : Outcome) : CoreLe s (osSend s cid o) := by
  unfold osSend
  split
  · exact CoreLe.refl _
  · split
    · exact CoreLe.refl _
    · simp only
      have h1 := le_updCall s cid (fun c => { c with os := { c.os with val := some o, rxWaker := false } })
        (fun c => ⟨rfl, rfl, rfl, id, fun _ => rfl⟩)
      split
      · exact (le_wakeCall _ _).after h1
      · exact h1

theorem le_osDropTx (s : St) (cid : Nat) : CoreLe s (osDropTx s cid) := by
  unfold osDropTx
  split
  · exact CoreLe.refl _
  · split
    · exact CoreLe.refl _
    · simp only
      have h1 := le_updCall s cid (fun c => { c with os := { c.os with txDropped := true, rxWaker := false } })
        (fun c => ⟨rfl, rfl, rfl, fun _ => rfl, id⟩)
      split
      · exact (le_wakeCall _ _).after h1
      · exact h1

/-- after `osSend` every open-receiver core of the call holds a value -/
theorem osSend_val {s : St} (hu : CUniq s) (cid : Nat) (o : Outcome) :
    ∀ ph tx v, (cid, ph, tx, false, v) ∈ acores (osSend s cid o) → v = true := by
  intro ph tx v hm
  unfold osSend at hm
  cases hg : getCall s cid with
  | none =>
    rw [hg] at hm
    obtain ⟨c', hc', he⟩ := mem_acores hm
    simp only [acore, Prod.mk.injEq] at he
    exact absurd he.1 (getCall_none hg c' hc')
  | some c =>
    rw [hg] at hm
    simp only at hm
    by_cases hrx : c.os.rxClosed = true
    · simp only [hrx, ↓reduceIte] at hm
      have := hu.aunique hg hm rfl
      simp only [acore, Prod.mk.injEq] at this
      rw [hrx] at this; exact absurd this.2.2.2.1 (by simp)
    · simp only [hrx, Bool.false_eq_true, ↓reduceIte] at hm
      have key : ∀ y ∈ acores (updCall s cid (fun c => { c with os := { c.os with val := some o, rxWaker := false } })),
          y.1 = cid → y.2.2.2.2 = true := by
        intro y hy e
        rcases (acores_updCall_mem hu hg (fun c => { c with os := { c.os with val := some o, rxWaker := false } })
          (fun _ => rfl)).mp hy with ⟨_, hne⟩ | rfl
        · exact absurd e hne
        · rfl
      split at hm
      · rw [(qa_wakeCall _ _).cs] at hm; exact key _ hm rfl
      · exact key _ hm rfl

/-- after `osDropTx` every core of the call holds a value or has its sender dropped -/
theorem osDropTx_gain {s : St} (hu : CUniq s) (cid : Nat) :
    ∀ ph tx rx v, (cid, ph, tx, rx, v) ∈ acores (osDropTx s cid) → v = true ∨ tx = true := by
  intro ph tx rx v hm
  unfold osDropTx at hm
  cases hg : getCall s cid with
  | none =>
    rw [hg] at hm
    obtain ⟨c', hc', he⟩ := mem_acores hm
    simp only [acore, Prod.mk.injEq] at he
    exact absurd he.1 (getCall_none hg c' hc')
  | some c =>
    rw [hg] at hm
    simp only at hm
    by_cases hvt : (c.os.val.isSome || c.os.txDropped) = true
    · simp only [hvt, ↓reduceIte] at hm
      have := hu.aunique hg hm rfl
      simp only [acore, Prod.mk.injEq] at this
      simp only [Bool.or_eq_true] at hvt
      rcases hvt with h | h
      · left; rw [this.2.2.2.2, h]
      · right; rw [this.2.2.1, h]
    · simp only [hvt, Bool.false_eq_true, ↓reduceIte] at hm
      have key : ∀ y ∈ acores (updCall s cid (fun c => { c with os := { c.os with txDropped := true, rxWaker := false } })),
          y.1 = cid → y.2.2.1 = true := by
        intro y hy e
        rcases (acores_updCall_mem hu hg (fun c => { c with os := { c.os with txDropped := true, rxWaker := false } })
          (fun _ => rfl)).mp hy with ⟨_, hne⟩ | rfl
        · exact absurd e hne
        · rfl
      right
      split at hm
      · rw [(qa_wakeCall _ _).cs] at hm; exact key _ hm rfl
      · exact key _ hm rfl

/-! ### the request queue -/

theorem AccI.pqRelease {H : Option Nat} {s : St} (h : AccI H s) : AccI H (pqRelease s) := by
  unfold Client.pqRelease
  cases hw : s.pqWaiters with
  | nil => exact h.qa (QA.of_calls rfl rfl rfl hw.symm rfl rfl id)
  | cons w rest =>
    simp only
    refine AccI.qa ?_ (qa_wakeCall _ _)
    refine ⟨h.acc, ?_⟩
    intro cid tx rx v hm
    rcases h.res cid tx rx v hm with x | x | x | x
    · rw [hw] at x
      rcases List.mem_cons.mp x with rfl | x
      · exact Or.inr (Or.inl (by simp))
      · exact Or.inl x
    · exact Or.inr (Or.inl (by simp [x]))
    · exact Or.inr (Or.inr (Or.inl x))
    · exact Or.inr (Or.inr (Or.inr x))

theorem pqRelease_cids (s : St) : (pqRelease s).calls.map (·.cid) = s.calls.map (·.cid) := by
  unfold pqRelease; split
  · exact (le_wakeCall _ _).cids
  · rfl

theorem pqRelease_acores (s : St) : acores (pqRelease s) = acores s := by
  unfold pqRelease; split
  · rw [(qa_wakeCall _ _).cs]; rfl
  · rfl

/-- a request is taken off the queue: the dispatch holds it -/
theorem AccI.pop {s : St} (h : AccI none s) {r : DReq} {rest : List DReq} (hpq : s.pq = r :: rest) :
    AccI (some r.cid) { s with pq := rest } := by
  refine ⟨?_, h.res⟩
  intro cid tx v hm
  rcases h.acc cid tx v hm with ⟨r', hr', e⟩ | x | x | x | x | x
  · rw [hpq] at hr'
    rcases List.mem_cons.mp hr' with rfl | hr'
    · exact Or.inr (Or.inr (Or.inr (Or.inr (Or.inr (by rw [e])))))
    · exact Or.inl ⟨r', hr', e⟩
  · exact Or.inr (Or.inl x)
  · exact Or.inr (Or.inr (Or.inl x))
  · exact Or.inr (Or.inr (Or.inr (Or.inl x)))
  · exact Or.inr (Or.inr (Or.inr (Or.inr (Or.inl x))))
  · cases x

/-- the held request belongs to a call that has closed its receiver: it is not owed anything -/
theorem AccI.unhold {s : St} (hu : CUniq s) {cid : Nat} (h : AccI (some cid) s) (hcl : osIsClosed s cid = true) :
    AccI none s := by
  refine ⟨?_, h.res⟩
  intro cid' tx v hm
  rcases h.acc cid' tx v hm with x | x | x | x | x | x
  · exact Or.inl x
  · exact Or.inr (Or.inl x)
  · exact Or.inr (Or.inr (Or.inl x))
  · exact Or.inr (Or.inr (Or.inr (Or.inl x)))
  · exact Or.inr (Or.inr (Or.inr (Or.inr (Or.inl x))))
  · injection x with x; subst x
    exfalso
    unfold osIsClosed at hcl
    cases hg : getCall s cid with
    | none =>
      obtain ⟨c', hc', he⟩ := mem_acores hm
      simp only [acore, Prod.mk.injEq] at he
      exact getCall_none hg c' hc' he.1
    | some c =>
      rw [hg] at hcl
      have := hu.aunique hg hm rfl
      simp only [acore, Prod.mk.injEq] at this
      simp only at hcl
      rw [hcl] at this; exact absurd this.2.2.2.1 (by simp)

theorem cuniq_of_cids {s s' : St} (hc : s'.calls.map (·.cid) = s.calls.map (·.cid)) (hu : CUniq s) : CUniq s' := by
  unfold CUniq; rw [hc]; exact hu

theorem acc_nextRequestLoop (fuel : Nat) {s : St} (hu : CUniq s) (h : AccI none s) :
    CUniq (nextRequestLoop fuel s).1 ∧
    (∀ r, (nextRequestLoop fuel s).2 = .some r → AccI (some r.cid) (nextRequestLoop fuel s).1) ∧
    ((∀ r, (nextRequestLoop fuel s).2 ≠ .some r) → AccI none (nextRequestLoop fuel s).1) := by
  induction fuel generalizing s with
  | zero => exact ⟨hu, fun r hr => (by simp [nextRequestLoop] at hr), fun _ => h⟩
  | succ fuel ih =>
    unfold nextRequestLoop
    rcases pqRecv_cases s with ⟨r, rest, hpq, heq⟩ | ⟨_, _, hne⟩
    · have h1 : AccI (some r.cid) (pqRelease { s with pq := rest }) := (h.pop hpq).pqRelease
      have u1 : CUniq (pqRelease { s with pq := rest }) := cuniq_of_cids (pqRelease_cids _) hu
      rw [heq]
      simp only
      split
      · rename_i hcl
        exact ih u1 (h1.unhold u1 hcl)
      · refine ⟨u1, fun r' hr' => ?_, fun hn => absurd rfl (hn r)⟩
        injection hr' with hr'; subst hr'; exact h1
    · have hq : QA s (pqRecv s).1 := by
        have := qc_pqRecv_noItem s hne
        unfold pqRecv at hne ⊢
        cases hq : s.pq with
        | cons r rest => rw [hq] at hne; exact absurd rfl (hne r)
        | nil =>
          simp only
          split
          · exact QA.refl _
          · split
            · exact QA.refl _
            · exact QA.of_calls rfl rfl hq.symm rfl rfl rfl id
      rcases hr : pqRecv s with ⟨s1, res⟩
      rw [hr] at hq hne
      cases res with
      | pending => exact ⟨hq.le'.cuniq hu, fun r hr => (by cases hr), fun _ => h.qa hq⟩
      | closed => exact ⟨hq.le'.cuniq hu, fun r hr => (by cases hr), fun _ => h.qa hq⟩
      | item r => exact absurd rfl (hne r)

theorem acc_pollNextRequest {s : St} (hu : CUniq s) (h : AccI none s) :
    CUniq (pollNextRequest s).1 ∧
    (∀ r, (pollNextRequest s).2 = .some r → AccI (some r.cid) (pollNextRequest s).1) ∧
    ((∀ r, (pollNextRequest s).2 ≠ .some r) → AccI none (pollNextRequest s).1) := by
  refine Flow.pollNextRequest_cases (motive := fun p => CUniq p.1 ∧ (∀ r, p.2 = .some r → AccI (some r.cid) p.1) ∧
      ((∀ r, p.2 ≠ .some r) → AccI none p.1)) s ?_ ?_ ?_
  · intro _; exact ⟨hu, fun r hr => (by cases hr), fun _ => h⟩
  · intro s1 e _ he hne
    have q := qa_ensureWriteable s; rw [he] at q
    exact ⟨q.le'.cuniq hu, fun r hr => (by cases e <;> simp [EW.toPW] at hr hne), fun _ => h.qa q⟩
  · intro s1 _ he
    have q := qa_ensureWriteable s; rw [he] at q
    exact acc_nextRequestLoop _ (q.le'.cuniq hu) (h.qa q)

/-! ### the in-flight table -/

/-- `insert_request`, as far as the accounting is concerned -/
theorem insertRequest_acc_shape {s s' : St} {now : Nat} {r : DReq} (h : insertRequest s now r = some s') :
    s'.calls = s.calls ∧ s'.pq = s.pq ∧ s'.pqWaiters = s.pqWaiters ∧ s'.pqAssigned = s.pqAssigned ∧
    s'.pqClosed = s.pqClosed ∧ (s.poisoned = true → s'.poisoned = true) ∧ (∀ e ∈ s.inflight, e ∈ s'.inflight) ∧
    (s'.poisoned = true ∨ ∃ e ∈ s'.inflight, e.cid = r.cid) := by
  unfold insertRequest at h
  split at h
  · injection h with h; subst h
    exact ⟨rfl, rfl, rfl, rfl, rfl, fun _ => rfl, fun e he => he, Or.inl rfl⟩
  · split at h
    · injection h with h; subst h
      exact ⟨rfl, rfl, rfl, rfl, rfl, fun _ => rfl, fun e he => he, Or.inl rfl⟩
    · rename_i q key w hq
      injection h with h; subst h
      cases w with
      | false =>
        refine ⟨rfl, rfl, rfl, rfl, rfl, id, fun e he => List.mem_append_left _ he, Or.inr ?_⟩
        refine ⟨_, List.mem_append_right _ (List.mem_singleton_self _), ?_⟩
        rfl
      | true =>
        simp only [↓reduceIte]
        refine ⟨by simp, by simp, by simp, by simp, by simp, fun hp => by simpa using hp,
          fun e he => by rw [wakeDispatch_inflight]; exact List.mem_append_left _ he, Or.inr ?_⟩
        rw [wakeDispatch_inflight]
        refine ⟨_, List.mem_append_right _ (List.mem_singleton_self _), ?_⟩
        rfl

theorem acc_insertRequest {s s' : St} {now : Nat} {r : DReq} (h : AccI (some r.cid) s)
    (hins : insertRequest s now r = some s') : AccI none s' := by
  obtain ⟨hc, hpq, hw, ha, hcl, hpo, hinf, hnew⟩ := insertRequest_acc_shape hins
  have hcs : acores s' = acores s := by unfold acores; rw [hc]
  refine ⟨?_, ?_⟩
  · intro cid tx v hm
    rw [hcs] at hm
    rw [hpq]
    rcases h.acc cid tx v hm with x | ⟨e, he, x⟩ | x | x | x | x
    · exact Or.inl x
    · exact Or.inr (Or.inl ⟨e, hinf e he, x⟩)
    · exact Or.inr (Or.inr (Or.inl x))
    · exact Or.inr (Or.inr (Or.inr (Or.inl x)))
    · exact Or.inr (Or.inr (Or.inr (Or.inr (Or.inl (hpo x)))))
    · injection x with x
      rcases hnew with hp | ⟨e, he, hx⟩
      · exact Or.inr (Or.inr (Or.inr (Or.inr (Or.inl hp))))
      · exact Or.inr (Or.inl ⟨e, he, by rw [hx, x]⟩)
  · intro cid tx rx v hm
    rw [hcs] at hm
    rw [hw, ha, hcl]
    exact h.res cid tx rx v hm

/-- entries of call `cid` leave the table (the others stay) and the call's oneshot gets a value -/
theorem acc_send_after {H H' : Option Nat} {s s1 : St} (hu1 : CUniq s1) (h : AccI H s) (cid : Nat)
    (hcs : acores s1 = acores s) (hpq : s1.pq = s.pq) (hw : s1.pqWaiters = s.pqWaiters)
    (ha : s1.pqAssigned = s.pqAssigned) (hcl : s1.pqClosed = s.pqClosed) (hpo : s.poisoned = true → s1.poisoned = true)
    (hsurv : ∀ e' ∈ s.inflight, e'.cid ≠ cid → e' ∈ s1.inflight)
    (hH : ∀ c', H = some c' → c' = cid ∨ H' = some c') (o : Outcome) : AccI H' (osSend s1 cid o) := by
  have hle := le_osSend s1 cid o
  refine ⟨?_, ?_⟩
  · intro cid' tx v hm
    by_cases hx : cid' = cid
    · subst hx
      exact Or.inr (Or.inr (Or.inl (osSend_val hu1 _ o _ _ _ hm)))
    · obtain ⟨tx0, v0, hm0, a, b⟩ := hle.le _ _ _ _ _ hm
      rw [hcs] at hm0
      rw [hle.pq, hle.inflight, hpq]
      rcases h.acc cid' tx0 v0 hm0 with y | ⟨e', he', y⟩ | y | y | y | y
      · exact Or.inl y
      · exact Or.inr (Or.inl ⟨e', hsurv e' he' (by rw [y]; exact hx), y⟩)
      · exact Or.inr (Or.inr (Or.inl (b y)))
      · exact Or.inr (Or.inr (Or.inr (Or.inl (a y))))
      · exact Or.inr (Or.inr (Or.inr (Or.inr (Or.inl (hle.po (hpo y))))))
      · rcases hH cid' y with y' | y'
        · exact absurd y' hx
        · exact Or.inr (Or.inr (Or.inr (Or.inr (Or.inr y'))))
  · intro cid' tx rx v hm
    obtain ⟨tx0, v0, hm0, a, _⟩ := hle.le _ _ _ _ _ hm
    rw [hcs] at hm0
    rw [hle.pqWaiters, hle.pqAssigned, hle.pqClosed, hw, ha, hcl]
    rcases h.res cid' tx0 rx v0 hm0 with y | y | y | y
    · exact Or.inl y
    · exact Or.inr (Or.inl y)
    · exact Or.inr (Or.inr (Or.inl (a y)))
    · exact Or.inr (Or.inr (Or.inr y))

theorem acc_completeRequest {x : Option Nat} {H : Option Nat} {s : St} (hi : Inv x (view s)) (h : AccI H s)
    (id : Nat) (o : Outcome) : AccI H (completeRequest s id o).1 := by
  unfold completeRequest
  cases hf : findEntry s id with
  | none => exact h
  | some e =>
    simp only
    obtain ⟨he, hid⟩ := findEntry_some hf
    subst hid
    have q := qa_removeTimer { s with inflight := s.inflight.filter (·.id != e.id) } e.timerKey
    have hu0 : CUniq { s with inflight := s.inflight.filter (·.id != e.id) } := (cuniq_of_inv hi : CUniq s)
    have hu1 : CUniq (removeTimer { s with inflight := s.inflight.filter (·.id != e.id) } e.timerKey) :=
      q.le'.cuniq hu0
    refine acc_send_after hu1 h e.cid q.cs q.pq q.pqWaiters q.pqAssigned q.pqClosed q.po ?_ (fun c' hc' => Or.inr hc') o
    intro e' he' hne
    rw [removeTimer_inflight']
    refine List.mem_filter.mpr ⟨he', ?_⟩
    simp only [bne_iff_ne, ne_eq]
    intro hid
    have : e' = e := nodup_map_unique (f := fun e : Entry => e.id) hi.infNodup he' he hid
    rw [this] at hne; exact hne rfl

theorem tSend_cids (s : St) (m : Msg) : (tSend s m).1.calls.map (·.cid) = s.calls.map (·.cid) := by
  rw [Flow.tSend_calls]

theorem acc_pollWriteRequest {s : St} (hi : Inv none (view s)) (h : AccI none s) (now : Nat) :
    AccI none (pollWriteRequest s now).1 := by
  have hu : CUniq s := cuniq_of_inv hi
  obtain ⟨u1, h1a, h1b⟩ := acc_pollNextRequest hu h
  refine Flow.pollWriteRequest_cases (motive := fun p => AccI none p.1) s now ?_ ?_ ?_ ?_
  · intro s1 r hp hs
    rw [hp] at h1b
    refine h1b (fun r' hr' => ?_)
    simp only at hr'
    rw [hr'] at hs; simp [PW.isSome] at hs
  · intro s1 r s2 hp hins _
    rw [hp] at h1a
    exact acc_insertRequest (h1a r rfl) hins
  · intro s1 r s2 s3 hp hins _ hs
    rw [hp] at h1a
    have := (acc_insertRequest (h1a r rfl) hins).qa (qa_tSend s2 (.request r.id r.ctx.deadline r.ctx.trace r.body))
    rw [hs] at this; exact this
  · intro s1 r s2 s3 hp hins hpo hs
    rw [hp] at h1a u1
    simp only at u1
    have h1 := h1a r rfl
    simp only at h1
    -- the write fails: the entry just inserted is taken out again and the call is told
    obtain ⟨hc2, hpq2, hw2, ha2, hcl2, hpo2, hinf2, _⟩ := insertRequest_acc_shape hins
    obtain ⟨_, _, htr⟩ := insertRequest_track hins
    obtain ⟨hfe, hnew⟩ : findEntry s1 r.id = none ∧ ∀ e ∈ s2.inflight, e ∈ s1.inflight ∨ (e.id = r.id ∧ e.cid = r.cid) := by
      rcases htr with hp' | ⟨_, a, b⟩
      · rw [hpo] at hp'; cases hp'
      · exact ⟨a, b⟩
    have q3 := qa_tSend s2 (.request r.id r.ctx.deadline r.ctx.trace r.body)
    rw [hs] at q3
    unfold completeRequest
    cases hf : findEntry s3 r.id with
    | none =>
      -- (cannot happen: the entry is there) — nothing changes then
      exfalso
      have hk : Kept r.id r.ctx.deadline s2 := by
        rcases htr with hp' | ⟨a, _, _⟩
        · rw [hpo] at hp'; cases hp'
        · exact a
      obtain ⟨e, he, hid, _⟩ := hk
      exact findEntry_none hf e (q3.inflight ▸ he) hid
    | some e =>
      simp only
      obtain ⟨he, hid⟩ := findEntry_some hf
      have hecid : e.cid = r.cid := by
        rw [q3.inflight] at he
        rcases hnew e he with h' | h'
        · exact absurd hid (findEntry_none hfe e h')
        · exact h'.2
      have q := qa_removeTimer { s3 with inflight := s3.inflight.filter (·.id != r.id) } e.timerKey
      have hu3 : CUniq s3 := cuniq_of_cids (by rw [q3.le'.cids, hc2]) u1
      have hu4 : CUniq (removeTimer { s3 with inflight := s3.inflight.filter (·.id != r.id) } e.timerKey) :=
        q.le'.cuniq (hu3 : CUniq { s3 with inflight := s3.inflight.filter (·.id != r.id) })
      have hcs : acores s3 = acores s1 := by rw [q3.cs]; unfold acores; rw [hc2]
      refine acc_send_after (H := some r.cid) (H' := none) hu4 h1 e.cid (q.cs.trans hcs) (q.pq.trans (q3.pq.trans hpq2))
        (q.pqWaiters.trans (q3.pqWaiters.trans hw2)) (q.pqAssigned.trans (q3.pqAssigned.trans ha2))
        (q.pqClosed.trans (q3.pqClosed.trans hcl2)) (fun hp' => q.po (q3.po (hpo2 hp'))) ?_ ?_ .send
      · intro e' he' _
        rw [removeTimer_inflight']
        refine List.mem_filter.mpr ⟨q3.inflight ▸ hinf2 e' he', ?_⟩
        simpa using findEntry_none hfe e' he'
      · intro c' hc'
        injection hc' with hc'
        exact Or.inl (by rw [← hc', hecid])

/-! ### cancellations -/

theorem acc_cancelRequest {x : Option Nat} {H : Option Nat} {s : St} (hi : Inv x (view s)) (h : AccI H s) (id : Nat)
    (hcl : ∃ j c, (view s).get j = some c ∧ c.polled ∧ c.id = id ∧ c.rxClosed = true) :
    AccI H (cancelRequest s id).1 := by
  unfold cancelRequest
  cases hf : findEntry s id with
  | none => exact h
  | some e =>
    simp only
    obtain ⟨he, hid⟩ := findEntry_some hf
    refine AccI.qa ?_ (qa_removeTimer _ _)
    have hu : CUniq s := cuniq_of_inv hi
    refine ⟨?_, h.res⟩
    intro cid tx v hm
    rcases h.acc cid tx v hm with y | ⟨e', he', y⟩ | y | y | y | y
    · exact Or.inl y
    · by_cases hx : e'.id = id
      · -- the entry that is removed belongs to the call that queued the cancellation: its receiver is closed
        exfalso
        obtain ⟨j, cj, hgj, hpj, hidj, hrxj⟩ := hcl
        obtain ⟨cv, hcv, henq, hcvid, _⟩ := hi.inf e' he'
        have hj : j = e'.cid := hi.idInj j e'.cid cj cv hgj hcv hpj henq.polled (by rw [hidj, hcvid, hx])
        subst hj
        rw [hcv] at hgj; injection hgj with hgj; subst hgj
        -- the core in scope has an open receiver
        obtain ⟨c', hc', hcore⟩ := mem_acores hm
        have hg' := getCall_of_mem_inv hi hc'
        simp only [acore, Prod.mk.injEq] at hcore
        rw [hcore.1, ← y] at hg'
        have := view_getCall_some hg'
        rw [hcv] at this; injection this with this
        have hrx : cv.rxClosed = c'.os.rxClosed := by rw [this]; rfl
        rw [hrxj, hcore.2.2.2.1] at hrx; cases hrx
      · exact Or.inr (Or.inl ⟨e', List.mem_filter.mpr ⟨he', by simpa using hx⟩, y⟩)
    · exact Or.inr (Or.inr (Or.inl y))
    · exact Or.inr (Or.inr (Or.inr (Or.inl y)))
    · exact Or.inr (Or.inr (Or.inr (Or.inr (Or.inl y))))
    · exact Or.inr (Or.inr (Or.inr (Or.inr (Or.inr y))))

theorem acc_nextCancelLoop {x : Option Nat} {H : Option Nat} (fuel : Nat) {s : St} (hi : Inv x (view s)) (h : AccI H s) :
    AccI H (nextCancelLoop fuel s).1 := by
  induction fuel generalizing s with
  | zero => exact h
  | succ fuel ih =>
    unfold nextCancelLoop
    rcases cqRecv_cases s with ⟨i, rest, hcq, heq⟩ | ⟨_, _, hne⟩
    · rw [heq]
      simp only
      obtain ⟨hi1, hcl⟩ := Inv.cqPop (v := view s) hi (i := i) (rest := rest) hcq
      have hi1' : Inv x (view { s with cq := rest }) := hi1
      have h1 : AccI H { s with cq := rest } := h.qa (QA.of_calls rfl rfl rfl rfl rfl rfl id)
      have h2 := acc_cancelRequest hi1' h1 i hcl
      rcases hc : cancelRequest { s with cq := rest } i with ⟨s2, oe⟩
      rw [hc] at h2
      cases oe with
      | some e => exact h2
      | none =>
        simp only
        have := cancelRequest_none hc
        subst this
        exact ih hi1' h1
    · have hq : QA s (cqRecv s).1 := by
        unfold cqRecv at hne ⊢
        cases hq : s.cq with
        | cons r rest => rw [hq] at hne; exact absurd rfl (hne r)
        | nil =>
          simp only
          split
          · exact QA.refl _
          · exact QA.of_calls rfl rfl rfl rfl rfl rfl id
      rcases hr : cqRecv s with ⟨s1, res⟩
      rw [hr] at hq hne
      cases res with
      | pending => exact h.qa hq
      | closed => exact h.qa hq
      | item r => exact absurd rfl (hne r)

theorem acc_pollWriteCancel {s : St} (hi : Inv none (view s)) (h : AccI none s) : AccI none (pollWriteCancel s).1 := by
  have key : AccI none (pollNextCancellation s).1 := by
    refine Flow.pollNextCancellation_cases (motive := fun p => AccI none p.1) s ?_ ?_
    · intro s1 e he _
      have q := qa_ensureWriteable s; rw [he] at q; exact h.qa q
    · intro s1 he
      have q := qa_ensureWriteable s
      have i1 := (ensureWriteable_pres Inv.presD hi).1
      rw [he] at q i1
      exact acc_nextCancelLoop _ i1 (h.qa q)
  refine Flow.pollWriteCancel_cases (motive := fun p => AccI none p.1) s ?_ ?_ ?_
  · intro s1 r hr _; rw [hr] at key; exact key
  · intro s1 e s2 hr hs
    rw [hr] at key
    have := key.qa (qa_tSend s1 (.cancel e.id e.ctx.trace)); rw [hs] at this; exact this
  · intro s1 e s2 hr hs
    rw [hr] at key
    have := key.qa (qa_tSend s1 (.cancel e.id e.ctx.trace)); rw [hs] at this; exact this

/-! ### expiry, the pumps, `run` -/

theorem acc_rearmWith {H : Option Nat} {s : St} (h : AccI H s) (id t due : Nat) (r : DelayQ × DelayQ.InsertRes × Bool) :
    AccI H (rearmWith s id t due r).st := by
  rcases rearmWith_cases s id t due r with ⟨q', w, _, he⟩ | ⟨q', key, w, _, he⟩
  · rw [he]
    exact h.qa ((qa_emit _ _).after (QA.of_calls rfl rfl rfl rfl rfl rfl (fun _ => rfl)))
  · rw [he]
    have h1 : AccI H { s with timers := q', inflight := s.inflight.map (rearmEntry id key t due) } := by
      refine ⟨?_, h.res⟩
      intro cid tx v hm
      rcases h.acc cid tx v hm with y | ⟨e', he', y⟩ | y | y | y | y
      · exact Or.inl y
      · exact Or.inr (Or.inl ⟨rearmEntry id key t due e', List.mem_map_of_mem he', by rw [(rearmEntry_same id key t due e').2.1]; exact y⟩)
      · exact Or.inr (Or.inr (Or.inl y))
      · exact Or.inr (Or.inr (Or.inr (Or.inl y)))
      · exact Or.inr (Or.inr (Or.inr (Or.inr (Or.inl y))))
      · exact Or.inr (Or.inr (Or.inr (Or.inr (Or.inr y))))
    show AccI H (if w = true then _ else _)
    split
    · exact h1.qa (qa_wakeDispatch _)
    · exact h1

theorem acc_expireWith {x : Option Nat} {H : Option Nat} {s : St} (hi : Inv x (view s)) (h : AccI H s) (now : Nat)
    (r : DelayQ × DelayQ.PollRes) : AccI H (expireWith s now r).st := by
  unfold expireWith; split
  · rename_i q e
    cases hf : findEntry s e.val with
    | none => exact h.qa (QA.of_calls rfl rfl rfl rfl rfl rfl id)
    | some en =>
      simp only
      obtain ⟨hen, hid⟩ := findEntry_some hf
      split
      · exact acc_rearmWith h _ _ _ _
      · show AccI H (osSend _ _ _)
        have hu0 : CUniq { s with timers := q, inflight := s.inflight.filter (·.id != e.val) } := (cuniq_of_inv hi : CUniq s)
        refine acc_send_after hu0 h en.cid rfl rfl rfl rfl rfl id ?_ (fun c' hc' => Or.inr hc') .deadline
        intro e' he' hne
        refine List.mem_filter.mpr ⟨he', ?_⟩
        simp only [bne_iff_ne, ne_eq]
        intro hid'
        have : e' = en := nodup_map_unique (f := fun e : Entry => e.id) hi.infNodup he' hen (by rw [hid', hid])
        rw [this] at hne; exact hne rfl
  · exact h.qa (QA.of_calls rfl rfl rfl rfl rfl rfl id)

theorem acc_pollExpiredLoop {x : Option Nat} {H : Option Nat} (fuel : Nat) {s : St} (hi : Inv x (view s)) (h : AccI H s)
    (now : Nat) : AccI H (pollExpiredLoop fuel s now).1 := by
  induction fuel generalizing s with
  | zero => exact h
  | succ fuel ih =>
    have h1 : AccI H (expireStep s now).st := acc_expireWith hi h now _
    have i1 : Inv x (view (expireStep s now).st) := expireWith_pres Inv.presD hi now _
    unfold pollExpiredLoop; split <;> rename_i heq <;> rw [heq] at h1 i1
    · exact ih i1 h1
    · exact h1

theorem acc_pollExpired {x : Option Nat} {H : Option Nat} {s : St} (hi : Inv x (view s)) (h : AccI H s) (now : Nat) :
    AccI H (pollExpired s now).1 := acc_pollExpiredLoop _ hi h now

theorem acc_pumpWrite {s : St} (hi : Inv none (view s)) (h : AccI none s) (now : Nat) : AccI none (pumpWrite s now).1 := by
  have h1 := acc_pollWriteRequest hi h now
  have i1 := (pollWriteRequest_pres Inv.presD hi now).1
  refine Flow.pumpWrite_cases (motive := fun p => AccI none p.1) s now ?_ ?_ ?_ ?_ ?_ ?_
  · intro s1 r1 e1 _; rw [e1] at h1; exact h1
  · intro s1 r1 s2 r2 e1 _ e2 _
    rw [e1] at h1 i1
    have h2 := acc_pollWriteCancel i1 h1; rw [e2] at h2; exact h2
  · intro s1 r1 s2 r2 s3 e1 _ e2 _ e3
    rw [e1] at h1 i1
    have h2 := acc_pollWriteCancel i1 h1
    have i2 := (pollWriteCancel_pres Inv.presD i1).1
    rw [e2] at h2 i2
    have h3 := acc_pollExpired i2 h2 now; rw [e3] at h3; exact h3
  · intro s1 r1 s2 r2 s3 e1 _ e2 _ e3 _
    rw [e1] at h1 i1
    have h2 := acc_pollWriteCancel i1 h1
    have i2 := (pollWriteCancel_pres Inv.presD i1).1
    rw [e2] at h2 i2
    have h3 := acc_pollExpired i2 h2 now; rw [e3] at h3; exact h3
  · intro s1 s2 s3 s4 r4 e1 e2 e3 e4
    rw [e1] at h1 i1
    have h2 := acc_pollWriteCancel i1 h1
    have i2 := (pollWriteCancel_pres Inv.presD i1).1
    rw [e2] at h2 i2
    have h3 := acc_pollExpired i2 h2 now; rw [e3] at h3
    have h4 := h3.qa (qa_tClose s3); rw [e4] at h4; exact h4
  · intro s1 r1 s2 r2 s3 s4 r4 e1 _ e2 _ _ e3 e4
    rw [e1] at h1 i1
    have h2 := acc_pollWriteCancel i1 h1
    have i2 := (pollWriteCancel_pres Inv.presD i1).1
    rw [e2] at h2 i2
    have h3 := acc_pollExpired i2 h2 now; rw [e3] at h3
    have h4 := h3.qa (qa_tFlush s3); rw [e4] at h4; exact h4

theorem acc_pumpRead {s : St} (hi : Inv none (view s)) (h : AccI none s) : AccI none (pumpRead s).1 := by
  have h1 := h.qa (qa_tNext s)
  have i1 : Inv none (view (tNext s).1) := by
    have hv := view_tNext s
    rcases ht : tNext s with ⟨s1, r⟩
    rw [ht] at hv
    simp only at hv ⊢
    cases r with
    | item m => cases m <;> (rw [hv]; first | exact hi | exact hi.of_rel _)
    | _ => rw [hv]; exact hi
  refine Flow.pumpRead_cases (motive := fun p => AccI none p.1) s ?_ ?_ ?_ ?_ ?_
  · intro s1 e1; rw [e1] at h1; exact h1
  · intro s1 e1; rw [e1] at h1; exact h1
  · intro s1 e1; rw [e1] at h1; exact h1
  · intro s1 id res e1; rw [e1] at h1 i1; exact acc_completeRequest i1 h1 _ _
  · intro s1 m e1 _; rw [e1] at h1; exact h1

theorem acc_run (fuel : Nat) {s : St} (hi : Inv none (view s)) (h : AccI none s) (now : Nat) :
    AccI none (run fuel s now).1 := by
  induction fuel generalizing s with
  | zero => rw [Flow.run_zero]; exact h.qa (qa_emit _ _)
  | succ fuel ih =>
    have i1 := pumpRead_pres Inv.presD hi
    have h1 := acc_pumpRead hi h
    have step : ∀ s1 rd s2 wr, pumpRead s = (s1, rd) → pumpWrite s1 now = (s2, wr) →
        Inv none (view s2) ∧ AccI none s2 := by
      intro s1 rd s2 wr e1 e2
      rw [e1] at i1 h1
      have i2 := pumpWrite_pres Inv.presD i1 now
      have h2 := acc_pumpWrite i1 h1 now
      rw [e2] at i2 h2
      exact ⟨i2.1, h2⟩
    refine Flow.run_cases (motive := fun p => AccI none p.1) fuel s now ?_ ?_ ?_ ?_ ?_ ?_ ?_ ?_ ?_
    · intro s1 a e1; rw [e1] at h1; exact h1
    · intro s1 e1; rw [e1] at h1; exact h1
    · intro s1 rd s2 a e1 e2; exact (step _ _ _ _ e1 e2).2
    · intro s1 rd s2 e1 e2; exact (step _ _ _ _ e1 e2).2
    · intro s1 s2 wr e1 e2 _; exact (step _ _ _ _ e1 e2).2
    · intro s1 rd s2 e1 _ e2 _; exact (step _ _ _ _ e1 e2).2
    · intro s1 s2 e1 e2 _; exact (step _ _ _ _ e1 e2).2
    · intro s1 rd s2 wr e1 e2 _
      obtain ⟨a, b⟩ := step _ _ _ _ e1 e2
      exact ih a b
    · intro s1 s2 e1 e2; exact (step _ _ _ _ e1 e2).2

/-! ### shutdown -/

theorem le_foldl {α : Type} (f : St → α → St) (hf : ∀ s a, CoreLe s (f s a)) (l : List α) (s : St) :
    CoreLe s (l.foldl f s) := by
  induction l generalizing s with
  | nil => exact CoreLe.refl _
  | cons a l ih => exact (hf s a).trans (ih _)

/-- after sending on the oneshots of all these calls, each of them (receiver open) holds a value -/
theorem foldl_osSend_val {s : St} (hu : CUniq s) (es : List Entry) (o : Outcome) :
    ∀ e ∈ es, ∀ ph tx v, (e.cid, ph, tx, false, v) ∈ acores (es.foldl (fun s e => osSend s e.cid o) s) → v = true := by
  induction es generalizing s with
  | nil => intro e he; cases he
  | cons e0 es ih =>
    intro e he ph tx v hm
    simp only [List.foldl_cons] at hm
    have hu1 : CUniq (osSend s e0.cid o) := (le_osSend s e0.cid o).cuniq hu
    rcases List.mem_cons.mp he with rfl | he'
    · obtain ⟨tx0, v0, hm0, _, b⟩ := (le_foldl _ (fun s (e : Entry) => le_osSend s e.cid o) es _).le _ _ _ _ _ hm
      exact b (osSend_val hu _ o _ _ _ hm0)
    · exact ih hu1 e he' ph tx v hm

theorem acc_failAll {H : Option Nat} {s : St} (hu : CUniq s) (h : AccI H s) (a : Activity) : AccI H (failAll s a) := by
  unfold failAll
  simp only
  have hu1 : CUniq { s with inflight := [], timers := s.timers.clear } := hu
  have hle := le_foldl _ (fun s (e : Entry) => le_osSend s e.cid (.channel a)) s.inflight
    { s with inflight := [], timers := s.timers.clear }
  refine ⟨?_, ?_⟩
  · intro cid tx v hm
    obtain ⟨tx0, v0, hm0, x, y⟩ := hle.le _ _ _ _ _ hm
    rw [hle.pq]
    rcases h.acc cid tx0 v0 hm0 with z | ⟨e', he', z⟩ | z | z | z | z
    · exact Or.inl z
    · right; right; left
      exact foldl_osSend_val hu1 s.inflight (.channel a) e' he' _ _ _ (z ▸ hm)
    · exact Or.inr (Or.inr (Or.inl (y z)))
    · exact Or.inr (Or.inr (Or.inr (Or.inl (x z))))
    · exact Or.inr (Or.inr (Or.inr (Or.inr (Or.inl (hle.po z)))))
    · exact Or.inr (Or.inr (Or.inr (Or.inr (Or.inr z))))
  · intro cid tx rx v hm
    obtain ⟨tx0, v0, hm0, x, _⟩ := hle.le _ _ _ _ _ hm
    rw [hle.pqWaiters, hle.pqAssigned, hle.pqClosed]
    rcases h.res cid tx0 rx v0 hm0 with z | z | z | z
    · exact Or.inl z
    · exact Or.inr (Or.inl z)
    · exact Or.inr (Or.inr (Or.inl (x z)))
    · exact Or.inr (Or.inr (Or.inr z))

theorem failAll_cids (s : St) (a : Activity) : (failAll s a).calls.map (·.cid) = s.calls.map (·.cid) := by
  unfold failAll
  simp only
  exact (le_foldl _ (fun s (e : Entry) => le_osSend s e.cid (.channel a)) s.inflight
    { s with inflight := [], timers := s.timers.clear }).cids

theorem acc_pqClose {H : Option Nat} {s : St} (h : AccI H s) : AccI H (pqClose s) := by
  unfold pqClose
  simp only
  refine AccI.qa ?_ (qa_foldl _ (fun s w => qa_wakeCall s w) _ _)
  exact ⟨h.acc, fun _ _ _ _ _ => Or.inr (Or.inr (Or.inr rfl))⟩

theorem pqClose_cids (s : St) : (pqClose s).calls.map (·.cid) = s.calls.map (·.cid) := by
  unfold pqClose
  simp only
  exact (qa_foldl _ (fun s w => qa_wakeCall s w) s.pqWaiters { s with pqClosed := true, pqWaiters := [] }).le'.cids

theorem acc_drainLoop (fuel : Nat) {s : St} (hu : CUniq s) (h : AccI none s) (a : Activity) :
    AccI none (drainLoop fuel s a).1 := by
  induction fuel generalizing s with
  | zero => exact h
  | succ fuel ih =>
    unfold drainLoop
    rcases pqRecv_cases s with ⟨r, rest, hpq, heq⟩ | ⟨_, _, hne⟩
    · have h1 : AccI (some r.cid) (pqRelease { s with pq := rest }) := (h.pop hpq).pqRelease
      have u1 : CUniq (pqRelease { s with pq := rest }) := cuniq_of_cids (pqRelease_cids _) hu
      rw [heq]
      simp only
      split
      · rename_i hcl
        exact ih u1 (h1.unhold u1 hcl)
      · refine ih ((le_osSend _ _ _).cuniq u1) ?_
        refine acc_send_after (H := some r.cid) (H' := none) u1 h1 r.cid rfl rfl rfl rfl rfl id (fun e' he' _ => he') ?_ _
        intro c' hc'
        injection hc' with hc'
        exact Or.inl hc'.symm
    · have hq : QA s (pqRecv s).1 := by
        unfold pqRecv at hne ⊢
        cases hq : s.pq with
        | cons r rest => rw [hq] at hne; exact absurd rfl (hne r)
        | nil =>
          simp only
          split
          · exact QA.refl _
          · split
            · exact QA.refl _
            · exact QA.of_calls rfl rfl hq.symm rfl rfl rfl id
      rcases hr : pqRecv s with ⟨s1, res⟩
      rw [hr] at hq hne
      cases res with
      | pending => exact h.qa hq
      | closed => exact h.qa hq
      | item r => exact absurd rfl (hne r)

theorem acc_shutDown {s : St} (hu : CUniq s) (h : AccI none s) (a : Activity) : AccI none (shutDown s a).1 := by
  unfold shutDown
  simp only
  have u1 : CUniq (pqClose s) := cuniq_of_cids (pqClose_cids s) hu
  have u2 : CUniq (failAll (pqClose s) a) := cuniq_of_cids (failAll_cids _ a) u1
  exact acc_drainLoop _ u2 (acc_failAll u1 (acc_pqClose h) a) a

theorem acc_pollDispatchCore {s : St} (hi : Inv none (view s)) (h : AccI none s) (now : Nat) :
    AccI none (pollDispatchCore s now).1 := by
  have hr := acc_run (runFuel s) hi h now
  have ir := (run_pres Inv.presD (runFuel s) hi now).1
  refine Flow.pollDispatchCore_cases (motive := fun p => AccI none p.1) s now ?_ ?_ ?_ ?_ ?_
  · intro a s1 fin _ e1
    have := acc_shutDown (cuniq_of_inv hi) h a; rw [e1] at this; exact this
  · intro s1 _ e1; rw [e1] at hr; exact hr
  · intro s1 _ e1; rw [e1] at hr; exact hr
  · intro s1 _ e1; rw [e1] at hr
    exact hr.qa (QA.of_calls rfl rfl rfl rfl rfl rfl (fun _ => rfl))
  · intro s1 a s2 fin _ e1 e2
    rw [e1] at hr ir
    have h1 : AccI none { s1 with termErr := some a } := hr.qa (QA.of_calls rfl rfl rfl rfl rfl rfl id)
    have := acc_shutDown (s := { s1 with termErr := some a }) (cuniq_of_inv ir : CUniq s1) h1 a
    rw [e2] at this; exact this

theorem qa_keepFinish (obs0 : List Obs) (s : St) (r : Ret) : QA s (Flow.keepFinish obs0 s r) := by
  unfold Flow.keepFinish
  split
  · exact QA.of_calls rfl rfl rfl rfl rfl rfl (fun _ => rfl)
  · split
    · exact QA.refl _
    · exact (qa_emit _ _).after (qa_emit _ _)

theorem qa_keepDone (r : Ret) (s : St) : QA s (Flow.keepDone r s) := by
  unfold Flow.keepDone
  split
  · exact QA.refl _
  · exact QA.of_calls rfl rfl rfl rfl rfl rfl id

theorem acc_pollDispatchKeep {s : St} (hi : Inv none (view s)) (h : AccI none s) (now : Nat) :
    AccI none (pollDispatchKeep s now) := by
  rw [Flow.pollDispatchKeep_eq]
  split
  · exact h.qa (qa_emit _ _)
  · have h0 : AccI none { s with dWoken := false } := h.qa (QA.of_calls rfl rfl rfl rfl rfl rfl id)
    have h1 := acc_pollDispatchCore (s := { s with dWoken := false }) hi h0 now
    exact h1.qa ((qa_keepDone _ _).after (qa_keepFinish _ _ _))

/-! ### the dispatch goes away -/

/-- the calls of `s'` were there in `s` (same phase, same receiver flag); values and dropped senders stay -/
def CLe (s s' : St) : Prop :=
  ∀ cid ph tx rx v, (cid, ph, tx, rx, v) ∈ acores s' →
    ∃ tx0 v0, (cid, ph, tx0, rx, v0) ∈ acores s ∧ (tx0 = true → tx = true) ∧ (v0 = true → v = true)

theorem CLe.trans {a b c : St} (h1 : CLe a b) (h2 : CLe b c) : CLe a c := by
  intro cid ph tx rx v hm
  obtain ⟨tx1, v1, hm1, a1, b1⟩ := h2 cid ph tx rx v hm
  obtain ⟨tx0, v0, hm0, a0, b0⟩ := h1 cid ph tx1 rx v1 hm1
  exact ⟨tx0, v0, hm0, fun h => a1 (a0 h), fun h => b1 (b0 h)⟩

theorem CLe.of_acores {s s' : St} (h : acores s' = acores s) : CLe s s' :=
  fun _ _ tx _ v hm => ⟨tx, v, h ▸ hm, id, id⟩

/-- after dropping the senders of all these calls, each of them holds a value or has its sender dropped -/
theorem foldl_osDropTx_gain {α : Type} (f : α → Nat) {s : St} (hu : CUniq s) (l : List α) :
    ∀ a ∈ l, ∀ ph tx rx v, (f a, ph, tx, rx, v) ∈ acores (l.foldl (fun s a => osDropTx s (f a)) s) →
      v = true ∨ tx = true := by
  induction l generalizing s with
  | nil => intro a ha; cases ha
  | cons a0 l ih =>
    intro a ha ph tx rx v hm
    simp only [List.foldl_cons] at hm
    have hu1 : CUniq (osDropTx s (f a0)) := (le_osDropTx s (f a0)).cuniq hu
    rcases List.mem_cons.mp ha with rfl | ha'
    · obtain ⟨tx0, v0, hm0, x, y⟩ := (le_foldl _ (fun s (a : α) => le_osDropTx s (f a)) l _).le _ _ _ _ _ hm
      rcases osDropTx_gain hu _ _ _ _ _ hm0 with h | h
      · exact Or.inl (y h)
      · exact Or.inr (x h)
    · exact ih hu1 a ha' ph tx rx v hm

theorem acc_dropDispatch {s : St} (hu : CUniq s) (h : AccI none s) : AccI none (dropDispatch s) := by
  rw [dropDispatch_stages]
  split
  · exact h.qa (qa_emit _ _)
  · -- the queue is closed
    have q2 : QA { s with dDropped := true, dWoken := false, pqClosed := true, pqWaiters := [] }
        (pqClose { s with dDropped := true, dWoken := false }) := by
      unfold pqClose
      exact qa_foldl _ (fun s w => qa_wakeCall s w) _ _
    generalize pqClose { s with dDropped := true, dWoken := false } = s2 at q2
    have c2 : acores s2 = acores s := q2.cs
    have u2 : CUniq s2 := q2.le'.cuniq (hu : CUniq { s with dDropped := true, dWoken := false, pqClosed := true, pqWaiters := [] })
    -- the queued requests are dropped with their senders
    have l3 : CoreLe { s2 with pq := [], pqAvail := s2.bufCap - s2.pqAssigned.length } (dropQ s2) := by
      unfold dropQ; exact le_foldl _ (fun s (r : DReq) => le_osDropTx s r.cid) _ _
    have g3 := foldl_osDropTx_gain (fun r : DReq => r.cid)
      (s := { s2 with pq := [], pqAvail := s2.bufCap - s2.pqAssigned.length }) u2 s2.pq
    have u3 : CUniq (dropQ s2) := l3.cuniq u2
    have hpq3 : (dropQ s2).pq = [] := l3.pq
    have hinf3 : (dropQ s2).inflight = s.inflight := by rw [l3.inflight]; exact q2.inflight
    have hcl3 : (dropQ s2).pqClosed = true := by rw [l3.pqClosed]; exact q2.pqClosed
    have g3' : ∀ r ∈ s.pq, ∀ ph tx rx v, (r.cid, ph, tx, rx, v) ∈ acores (dropQ s2) → v = true ∨ tx = true := by
      intro r hr
      have : r ∈ s2.pq := by rw [q2.pq]; exact hr
      unfold dropQ
      exact g3 r this
    have cle3 : CLe s (dropQ s2) := (CLe.of_acores c2).trans l3.le
    generalize dropQ s2 = s3 at u3 hpq3 hinf3 hcl3 g3' cle3
    -- the table is dropped with its senders
    have l4 : CoreLe { s3 with inflight := [], timers := {} } (dropI s3) := by
      unfold dropI; exact le_foldl _ (fun s (e : Entry) => le_osDropTx s e.cid) _ _
    have g4 := foldl_osDropTx_gain (fun e : Entry => e.cid) (s := { s3 with inflight := [], timers := {} }) u3 s3.inflight
    have cle4 : CLe s (dropI s3) := cle3.trans l4.le
    have g4' : ∀ e ∈ s.inflight, ∀ ph tx rx v, (e.cid, ph, tx, rx, v) ∈ acores (dropI s3) → v = true ∨ tx = true := by
      intro e he
      have : e ∈ s3.inflight := by rw [hinf3]; exact he
      unfold dropI
      exact g4 e this
    have g3'' : ∀ r ∈ s.pq, ∀ ph tx rx v, (r.cid, ph, tx, rx, v) ∈ acores (dropI s3) → v = true ∨ tx = true := by
      intro r hr ph tx rx v hm
      obtain ⟨tx0, v0, hm0, x, y⟩ := l4.le _ _ _ _ _ hm
      rcases g3' r hr _ _ _ _ hm0 with h' | h'
      · exact Or.inl (y h')
      · exact Or.inr (x h')
    have hcl4 : (dropI s3).pqClosed = true := by rw [l4.pqClosed]; exact hcl3
    generalize dropI s3 = s4 at cle4 g4' g3'' hcl4
    refine ⟨?_, fun _ _ _ _ _ => Or.inr (Or.inr (Or.inr hcl4))⟩
    intro cid tx v hm
    have hm' : (cid, Phase.awaiting, tx, false, v) ∈ acores s4 := hm
    obtain ⟨tx0, v0, hm0, x, y⟩ := cle4 _ _ _ _ _ hm'
    rcases h.acc cid tx0 v0 hm0 with ⟨r, hr, z⟩ | ⟨e, he, z⟩ | z | z | z | z
    · rcases g3'' r hr _ _ _ _ (z ▸ hm') with w | w
      · exact Or.inr (Or.inr (Or.inl w))
      · exact Or.inr (Or.inr (Or.inr (Or.inl w)))
    · rcases g4' e he _ _ _ _ (z ▸ hm') with w | w
      · exact Or.inr (Or.inr (Or.inl w))
      · exact Or.inr (Or.inr (Or.inr (Or.inl w)))
    · exact Or.inr (Or.inr (Or.inl (y z)))
    · exact Or.inr (Or.inr (Or.inr (Or.inl (x z))))
    · exfalso
      rename_i hg
      simp [z] at hg
    · cases z

theorem acc_pollDispatch {s : St} (hi : Inv none (view s)) (h : AccI none s) (now : Nat) :
    AccI none (pollDispatch s now) := by
  rw [Flow.pollDispatch_eq]
  have h1 := acc_pollDispatchKeep hi h now
  split
  · exact acc_dropDispatch (cuniq_of_inv (pollDispatchKeep_pres Inv.presD hi now)) h1
  · exact h1

/-! ### the call futures: one call changes -/

/-- `s'` differs from `s` in call `cid` at most; requests may have been queued; the permit lists keep the other calls -/
structure AS (cid : Nat) (s s' : St) : Prop where
  oth : ∀ y ∈ acores s', y.1 ≠ cid → y ∈ acores s
  cids : s'.calls.map (·.cid) = s.calls.map (·.cid)
  pq : ∀ r ∈ s.pq, r ∈ s'.pq
  inflight : s'.inflight = s.inflight
  lists : ∀ w, w ≠ cid → (w ∈ s.pqWaiters ∨ w ∈ s.pqAssigned) → (w ∈ s'.pqWaiters ∨ w ∈ s'.pqAssigned)
  cl : s.pqClosed = true → s'.pqClosed = true
  po : s.poisoned = true → s'.poisoned = true

theorem AS.refl (cid : Nat) (s : St) : AS cid s s :=
  ⟨fun _ h _ => h, rfl, fun _ h => h, rfl, fun _ _ h => h, id, id⟩

theorem AS.trans {cid : Nat} {a b c : St} (h1 : AS cid a b) (h2 : AS cid b c) : AS cid a c :=
  ⟨fun y hy hn => h1.oth y (h2.oth y hy hn) hn, h2.cids.trans h1.cids, fun r hr => h2.pq r (h1.pq r hr),
   h2.inflight.trans h1.inflight, fun w hn hw => h2.lists w hn (h1.lists w hn hw),
   fun h => h2.cl (h1.cl h), fun h => h2.po (h1.po h)⟩

theorem AS.after {cid : Nat} {a b c : St} (h2 : AS cid b c) (h1 : AS cid a b) : AS cid a c := h1.trans h2

theorem QA.as {s s' : St} (q : QA s s') (cid : Nat) : AS cid s s' :=
  ⟨fun y hy _ => q.cs ▸ hy, q.le'.cids, fun r hr => q.pq.symm ▸ hr, q.inflight,
   fun w _ hw => by rw [q.pqWaiters, q.pqAssigned]; exact hw, fun h => by rw [q.pqClosed]; exact h, q.po⟩

theorem as_updCall (s : St) (cid : Nat) (f : Call → Call) (hf : ∀ c, (f c).cid = c.cid) : AS cid s (updCall s cid f) := by
  refine ⟨?_, ?_, fun _ h => h, rfl, fun _ _ h => h, id, id⟩
  · intro y hy hn
    simp only [acores, updCall, List.map_map, List.mem_map, Function.comp] at hy
    obtain ⟨c', hc', rfl⟩ := hy
    by_cases hx : c'.cid = cid
    · have hb : (c'.cid == cid) = true := by simpa using hx
      simp only [hb, ↓reduceIte] at hn
      exact absurd (by simp [acore, hf, hx]) hn
    · have hb : (c'.cid == cid) = false := by simpa using hx
      simp only [hb, Bool.false_eq_true, ↓reduceIte]
      exact mem_acores_of_mem hc'
  · simp only [updCall, List.map_map]
    apply List.map_congr_left
    intro c' _
    simp only [Function.comp]
    split
    · exact hf c'
    · rfl

theorem as_osDropTx (s : St) (cid : Nat) : AS cid s (osDropTx s cid) := by
  unfold osDropTx
  split
  · exact AS.refl _ _
  · split
    · exact AS.refl _ _
    · simp only
      split
      · exact ((qa_wakeCall _ _).as cid).after (as_updCall s cid _ (fun _ => rfl))
      · exact as_updCall s cid _ (fun _ => rfl)

theorem qa_cqPush (s : St) (i : Nat) : QA s (cqPush s i) := by
  unfold cqPush
  split
  · exact QA.refl _
  · simp only
    split
    · exact (qa_wakeDispatch _).after (QA.of_calls rfl rfl rfl rfl rfl rfl id)
    · exact QA.of_calls rfl rfl rfl rfl rfl rfl id

theorem qa_afterCallGone' (s : St) : QA s (afterCallGone s) := by
  unfold afterCallGone
  split
  · simp only
    have h1 : QA s (if s.pqRxWaker then wakeDispatch { s with pqRxWaker := false } else s) := by
      split
      · exact (qa_wakeDispatch _).after (QA.of_calls rfl rfl rfl rfl rfl rfl id)
      · exact QA.refl s
    generalize (if s.pqRxWaker then wakeDispatch { s with pqRxWaker := false } else s) = s1 at h1 ⊢
    split
    · exact h1.trans ((QA.of_calls rfl rfl rfl rfl rfl rfl id : QA s1 { s1 with cqRxWaker := false }).trans
        (qa_wakeDispatch _))
    · exact h1
  · exact QA.refl s

theorem as_pqPush (s : St) (cid : Nat) (r : DReq) : AS cid s (pqPush s r) ∧ r ∈ (pqPush s r).pq := by
  unfold pqPush
  simp only
  have h1 : AS cid s { s with pq := s.pq ++ [r] } :=
    ⟨fun _ h _ => h, rfl, fun x hx => List.mem_append_left _ hx, rfl, fun _ _ h => h, id, id⟩
  split
  · refine ⟨(((qa_wakeDispatch _).after (QA.of_calls rfl rfl rfl rfl rfl rfl id :
        QA { s with pq := s.pq ++ [r] } { s with pq := s.pq ++ [r], pqRxWaker := false })).as cid).after h1, ?_⟩
    rw [wakeDispatch_pq]; simp
  · exact ⟨h1, by simp⟩

theorem as_resolve (s : St) (cid : Nat) (o : Outcome) (now : Nat) : AS cid s (resolve s cid o now) := by
  unfold resolve
  simp only
  exact (((qa_afterCallGone' _).after (qa_emit _ _)).as cid).after (as_updCall s cid _ (fun _ => rfl))

/-- every core of call `cid` after `resolve` is resolved -/
theorem resolve_acidcore (s : St) (cid : Nat) (o : Outcome) (now : Nat) :
    ∀ y ∈ acores (resolve s cid o now), y.1 = cid → y.2.1 = Phase.resolved := by
  intro y hy e
  unfold resolve at hy
  simp only at hy
  rw [((qa_afterCallGone' _).after (qa_emit _ _)).cs] at hy
  simp only [acores, updCall, List.map_map, List.mem_map, Function.comp] at hy
  obtain ⟨c', hc', rfl⟩ := hy
  by_cases hx : c'.cid = cid
  · have hb : (c'.cid == cid) = true := by simpa using hx
    simp only [hb, ↓reduceIte]
    rfl
  · have hb : (c'.cid == cid) = false := by simpa using hx
    simp only [hb, Bool.false_eq_true, ↓reduceIte] at e
    exact absurd (by simpa [acore] using e) hx

/-- **One call changes.** -/
theorem AccI.call_step {s s' : St} (h : AccI none s) {cid : Nat} (hs : AS cid s s')
    (hacc : ∀ tx v, (cid, Phase.awaiting, tx, false, v) ∈ acores s' →
      (∃ r ∈ s'.pq, r.cid = cid) ∨ (∃ e ∈ s'.inflight, e.cid = cid) ∨ v = true ∨ tx = true ∨ s'.poisoned = true)
    (hres : ∀ tx rx v, (cid, Phase.reserving, tx, rx, v) ∈ acores s' →
      cid ∈ s'.pqWaiters ∨ cid ∈ s'.pqAssigned ∨ tx = true ∨ s'.pqClosed = true) : AccI none s' := by
  refine ⟨?_, ?_⟩
  · intro x tx v hm
    by_cases hx : x = cid
    · subst hx
      rcases hacc tx v hm with y | y | y | y | y
      · exact Or.inl y
      · exact Or.inr (Or.inl y)
      · exact Or.inr (Or.inr (Or.inl y))
      · exact Or.inr (Or.inr (Or.inr (Or.inl y)))
      · exact Or.inr (Or.inr (Or.inr (Or.inr (Or.inl y))))
    · have hm0 := hs.oth _ hm hx
      rw [hs.inflight]
      rcases h.acc x tx v hm0 with ⟨r, hr, y⟩ | y | y | y | y | y
      · exact Or.inl ⟨r, hs.pq r hr, y⟩
      · exact Or.inr (Or.inl y)
      · exact Or.inr (Or.inr (Or.inl y))
      · exact Or.inr (Or.inr (Or.inr (Or.inl y)))
      · exact Or.inr (Or.inr (Or.inr (Or.inr (Or.inl (hs.po y)))))
      · cases y
  · intro x tx rx v hm
    by_cases hx : x = cid
    · subst hx; exact hres tx rx v hm
    · have hm0 := hs.oth _ hm hx
      rcases h.res x tx rx v hm0 with y | y | y | y
      · rcases hs.lists x hx (Or.inl y) with z | z
        · exact Or.inl z
        · exact Or.inr (Or.inl z)
      · rcases hs.lists x hx (Or.inr y) with z | z
        · exact Or.inl z
        · exact Or.inr (Or.inl z)
      · exact Or.inr (Or.inr (Or.inl y))
      · exact Or.inr (Or.inr (Or.inr (hs.cl y)))

/-! ### the call futures -/

/-- every core of call `cid` after an update of call `cid` is an updated one -/
theorem updCall_acidcore (s : St) (cid : Nat) (f : Call → Call) :
    ∀ y ∈ acores (updCall s cid f), y.1 = cid → (∀ c, (f c).cid = c.cid) → ∃ c ∈ s.calls, c.cid = cid ∧ y = acore (f c) := by
  intro y hy e hf
  simp only [acores, updCall, List.map_map, List.mem_map, Function.comp] at hy
  obtain ⟨c', hc', rfl⟩ := hy
  by_cases hx : c'.cid = cid
  · have hb : (c'.cid == cid) = true := by simpa using hx
    simp only [hb, ↓reduceIte]
    exact ⟨c', hc', hx, rfl⟩
  · have hb : (c'.cid == cid) = false := by simpa using hx
    simp only [hb, Bool.false_eq_true, ↓reduceIte] at e
    exact absurd (by simpa [acore] using e) hx

theorem as_failShutdown (s : St) (cid id now : Nat) :
    AS cid s (failShutdown s cid id now) ∧
    ∀ y ∈ acores (failShutdown s cid id now), y.1 = cid → y.2.1 = Phase.resolved := by
  unfold failShutdown
  simp only
  refine ⟨?_, resolve_acidcore _ _ _ _⟩
  exact (as_resolve _ _ _ _).after (((qa_cqPush _ _).as cid).after
    ((as_updCall _ cid _ (fun _ => rfl) : AS cid (osDropTx s cid) (guardClose (osDropTx s cid) cid)).after (as_osDropTx s cid)))

theorem as_pollOneshot (s : St) (cid now : Nat) :
    AS cid s (pollOneshot s cid now) ∧
    ((∀ y ∈ acores (pollOneshot s cid now), y.1 = cid → y.2.1 = Phase.resolved) ∨ QA s (pollOneshot s cid now)) := by
  unfold pollOneshot
  split
  · exact ⟨AS.refl _ _, Or.inr (QA.refl _)⟩
  · split
    · exact ⟨(as_resolve _ _ _ _).after (as_updCall s cid _ (fun _ => rfl)), Or.inl (resolve_acidcore _ _ _ _)⟩
    · split
      · exact ⟨as_resolve _ _ _ _, Or.inl (resolve_acidcore _ _ _ _)⟩
      · have q : QA s (emit (updCall s cid (fun c => { c with os := { c.os with rxWaker := true } })) (.ret (.call cid) .pending)) :=
          (qa_emit _ _).after (qa_updCall s cid (fun c => { c with os := { c.os with rxWaker := true } }) (fun _ => rfl))
        exact ⟨q.as cid, Or.inr q⟩

theorem as_enqueue (s : St) (c : Call) (now : Nat) :
    AS c.cid s (enqueue s c now) ∧ (∃ r ∈ (enqueue s c now).pq, r.cid = c.cid) ∧
    ∀ y ∈ acores (enqueue s c now), y.1 = c.cid → y.2.1 = Phase.awaiting ∨ y.2.1 = Phase.resolved := by
  unfold enqueue
  simp only
  obtain ⟨a1, m1⟩ := as_pqPush s c.cid { cid := c.cid, id := c.id, ctx := { deadline := c.ctx.deadline, trace := c.trace }, body := c.body }
  generalize pqPush s { cid := c.cid, id := c.id, ctx := { deadline := c.ctx.deadline, trace := c.trace }, body := c.body } = s1 at a1 m1
  have a2 := as_updCall s1 c.cid (fun c => { c with phase := .awaiting }) (fun _ => rfl)
  have c2 : ∀ y ∈ acores (updCall s1 c.cid (fun c => { c with phase := .awaiting })), y.1 = c.cid → y.2.1 = Phase.awaiting := by
    intro y hy e
    obtain ⟨c', _, _, rfl⟩ := updCall_acidcore s1 c.cid _ y hy e (fun _ => rfl)
    rfl
  generalize updCall s1 c.cid (fun c => { c with phase := .awaiting }) = s2 at a2 c2
  obtain ⟨a3, c3⟩ := as_pollOneshot s2 c.cid now
  refine ⟨(a1.trans a2).trans a3, ⟨_, a3.pq _ (a2.pq _ m1), rfl⟩, ?_⟩
  intro y hy e
  rcases c3 with c3 | c3
  · exact Or.inr (c3 y hy e)
  · rw [c3.cs] at hy; exact Or.inl (c2 y hy e)

/-- a call that has not been enqueued yet has no value in its oneshot (`Inv.early`), in terms of cores -/
theorem early_val_false {x : Option Nat} {s : St} (hi : Inv x (view s)) {cid : Nat} {ph : Phase} {tx rx v : Bool}
    (hm : (cid, ph, tx, rx, v) ∈ acores s) (hph : ph = .notPolled ∨ ph = .reserving) : v = false := by
  obtain ⟨c, hc, he⟩ := mem_acores hm
  simp only [acore, Prod.mk.injEq] at he
  have hg := getCall_of_mem_inv hi hc
  have := hi.early c.cid c.v (view_getCall_some hg) (by
    have : c.v.phase = c.phase := rfl
    rw [this, he.2.1]; exact hph)
  have hv : c.v.val = c.os.val := rfl
  rw [hv] at this
  rw [← he.2.2.2.2, this]; rfl

theorem acc_pollCall {s : St} (hi : Inv none (view s)) (h : AccI none s) (cid now : Nat) :
    AccI none (pollCall s cid now) := by
  have hu : CUniq s := cuniq_of_inv hi
  cases hg : getCall s cid with
  | none => unfold pollCall; rw [hg]; exact h.qa (qa_emit _ _)
  | some c =>
    have hcid := getCall_cid hg
    cases hph : c.phase with
    | resolved => unfold pollCall; simp only [hg, hph]; exact h.qa (qa_emit _ _)
    | dropped => unfold pollCall; simp only [hg, hph]; exact h.qa (qa_emit _ _)
    | awaiting =>
      rw [pollCall_awaiting hg hph]
      have q1 : QA s (updCall s cid (fun c => { c with woken := false })) := qa_updCall s cid _ (fun _ => rfl)
      obtain ⟨a2, c2⟩ := as_pollOneshot (updCall s cid (fun c => { c with woken := false })) cid now
      rcases c2 with c2 | c2
      · refine (h.qa q1).call_step a2 ?_ ?_
        · intro tx v hm; have := c2 _ hm rfl; cases this
        · intro tx rx v hm; have := c2 _ hm rfl; cases this
      · exact (h.qa q1).qa c2
    | notPolled =>
      rw [pollCall_notPolled hg hph]
      have q1 : QA s (assignId s cid c) := by
        unfold assignId
        refine QA.trans (b := { s with nextFresh := s.nextFresh + 1, nextId := s.nextId + 1 })
          (QA.of_calls rfl rfl rfl rfl rfl rfl id) ?_
        exact qa_updCall _ _ _ (fun _ => rfl)
      have h1 := h.qa q1
      generalize assignId s cid c = s1 at q1 h1
      split
      · obtain ⟨a2, c2⟩ := as_failShutdown s1 cid s.nextId now
        refine h1.call_step a2 ?_ ?_
        · intro tx v hm; have := c2 _ hm rfl; cases this
        · intro tx rx v hm; have := c2 _ hm rfl; cases this
      · split
        · have h2 : AccI none { s1 with pqAvail := s1.pqAvail - 1 } := h1.qa (QA.of_calls rfl rfl rfl rfl rfl rfl id)
          obtain ⟨a3, m3, c3⟩ := as_enqueue { s1 with pqAvail := s1.pqAvail - 1 } (assignedCall s c) now
          have hc' : (assignedCall s c).cid = cid := hcid
          rw [hc'] at a3 m3 c3
          refine h2.call_step a3 ?_ ?_
          · intro tx v hm; exact Or.inl m3
          · intro tx rx v hm; rcases c3 _ hm rfl with h' | h' <;> cases h'
        · -- the call joins the wait queue
          have h2 : AccI none { s1 with pqWaiters := s1.pqWaiters ++ [cid] } :=
            ⟨h1.acc, fun x tx rx v hm => by
              rcases h1.res x tx rx v hm with y | y | y | y
              · exact Or.inl (List.mem_append_left _ y)
              · exact Or.inr (Or.inl y)
              · exact Or.inr (Or.inr (Or.inl y))
              · exact Or.inr (Or.inr (Or.inr y))⟩
          refine AccI.qa ?_ (qa_emit _ _)
          have a3 := as_updCall { s1 with pqWaiters := s1.pqWaiters ++ [cid] } cid (fun c => { c with phase := .reserving }) (fun _ => rfl)
          refine h2.call_step a3 ?_ ?_
          · intro tx v hm
            obtain ⟨c', _, _, he⟩ := updCall_acidcore _ cid _ _ hm rfl (fun _ => rfl)
            simp [acore] at he
          · intro tx rx v hm
            exact Or.inl (by simp [updCall])
    | reserving =>
      rw [pollCall_reserving hg hph]
      have q1 : QA s (updCall s cid (fun c => { c with woken := false })) := qa_updCall s cid _ (fun _ => rfl)
      have h1 := h.qa q1
      generalize updCall s cid (fun c => { c with woken := false }) = s1 at q1 h1
      split
      · -- the queue is closed: the `Acquire` fails
        obtain ⟨a2, c2⟩ := as_failShutdown { s1 with pqAssigned := s1.pqAssigned.filter (fun x => x != cid), pqWaiters := s1.pqWaiters.filter (fun x => x != cid), pqAvail := (if s1.pqAssigned.contains cid then s1.pqAvail + 1 else s1.pqAvail) } cid c.id now
        have a1 : AS cid s1 { s1 with pqAssigned := s1.pqAssigned.filter (fun x => x != cid), pqWaiters := s1.pqWaiters.filter (fun x => x != cid), pqAvail := (if s1.pqAssigned.contains cid then s1.pqAvail + 1 else s1.pqAvail) } :=
          ⟨fun _ h _ => h, rfl, fun _ h => h, rfl,
           fun w hn hw => hw.elim (fun h' => Or.inl (List.mem_filter.mpr ⟨h', by simpa using hn⟩))
             (fun h' => Or.inr (List.mem_filter.mpr ⟨h', by simpa using hn⟩)), id, id⟩
        refine h1.call_step (a1.trans a2) ?_ ?_
        · intro tx v hm; have := c2 _ hm rfl; cases this
        · intro tx rx v hm; have := c2 _ hm rfl; cases this
      · split
        · obtain ⟨a3, m3, c3⟩ := as_enqueue { s1 with pqAssigned := s1.pqAssigned.filter (fun x => x != cid) } c now
          rw [hcid] at a3 m3 c3
          have a1 : AS cid s1 { s1 with pqAssigned := s1.pqAssigned.filter (fun x => x != cid) } :=
            ⟨fun _ h _ => h, rfl, fun _ h => h, rfl,
             fun w hn hw => hw.elim Or.inl (fun h' => Or.inr (List.mem_filter.mpr ⟨h', by simpa using hn⟩)), id, id⟩
          refine h1.call_step (a1.trans a3) ?_ ?_
          · intro tx v hm; exact Or.inl m3
          · intro tx rx v hm; rcases c3 _ hm rfl with h' | h' <;> cases h'
        · exact h1.qa (qa_emit _ _)

/-! ### dropping a call future -/

/-- `osDropTx` does not touch the values held by the oneshots -/
theorem osDropTx_val_same (s : St) (cid : Nat) :
    ∀ x ph tx rx v, (x, ph, tx, rx, v) ∈ acores (osDropTx s cid) → ∃ tx0, (x, ph, tx0, rx, v) ∈ acores s := by
  intro x ph tx rx v hm
  unfold osDropTx at hm
  split at hm
  · exact ⟨tx, hm⟩
  · split at hm
    · exact ⟨tx, hm⟩
    · simp only at hm
      have key : ∀ y ∈ acores (updCall s cid (fun c => { c with os := { c.os with txDropped := true, rxWaker := false } })),
          ∃ tx0, (y.1, y.2.1, tx0, y.2.2.2.1, y.2.2.2.2) ∈ acores s := by
        intro y hy
        simp only [acores, updCall, List.map_map, List.mem_map, Function.comp] at hy
        obtain ⟨c', hc', rfl⟩ := hy
        refine ⟨c'.os.txDropped, ?_⟩
        have : acore c' ∈ acores s := mem_acores_of_mem hc'
        split <;> simpa [acore] using this
      split at hm
      · rw [(qa_wakeCall _ _).cs] at hm; exact key _ hm
      · exact key _ hm

theorem as_pqRelease (s : St) (cid : Nat) : AS cid s (pqRelease s) := by
  unfold pqRelease
  cases hw : s.pqWaiters with
  | nil => exact ⟨fun _ h _ => h, rfl, fun _ h => h, rfl, fun w _ hw' => by rw [hw] at hw'; exact hw', id, id⟩
  | cons w rest =>
    simp only
    refine ((qa_wakeCall _ _).as cid).after ⟨fun _ h _ => h, rfl, fun _ h => h, rfl, ?_, id, id⟩
    intro x _ hx
    rw [hw] at hx
    rcases hx with hx | hx
    · rcases List.mem_cons.mp hx with rfl | hx
      · exact Or.inr (by simp)
      · exact Or.inl hx
    · exact Or.inr (List.mem_append_left _ hx)

theorem acc_dropPre {s : St} (hi : Inv none (view s)) (h : AccI none s) (cid : Nat) : AccI none (dropPre s cid) := by
  have hu : CUniq s := cuniq_of_inv hi
  unfold dropPre
  cases hg : getCall s cid with
  | none => exact h
  | some c =>
    simp only
    cases hph : c.phase with
    | notPolled => exact h
    | awaiting => exact h
    | resolved => exact h
    | dropped => exact h
    | reserving =>
      simp only
      -- the call leaves the wait queue; a permit it had been handed goes back; its sender is dropped
      have a1 : AS cid s { s with pqAssigned := s.pqAssigned.filter (fun x => x != cid), pqWaiters := s.pqWaiters.filter (fun x => x != cid) } :=
        ⟨fun _ h _ => h, rfl, fun _ h => h, rfl,
         fun w hn hw => hw.elim (fun h' => Or.inl (List.mem_filter.mpr ⟨h', by simpa using hn⟩))
           (fun h' => Or.inr (List.mem_filter.mpr ⟨h', by simpa using hn⟩)), id, id⟩
      have a2 : AS cid s (if s.pqAssigned.contains cid = true then
            pqRelease { s with pqAssigned := s.pqAssigned.filter (fun x => x != cid), pqWaiters := s.pqWaiters.filter (fun x => x != cid) }
          else { s with pqAssigned := s.pqAssigned.filter (fun x => x != cid), pqWaiters := s.pqWaiters.filter (fun x => x != cid) }) ∧
          acores (if s.pqAssigned.contains cid = true then
            pqRelease { s with pqAssigned := s.pqAssigned.filter (fun x => x != cid), pqWaiters := s.pqWaiters.filter (fun x => x != cid) }
          else { s with pqAssigned := s.pqAssigned.filter (fun x => x != cid), pqWaiters := s.pqWaiters.filter (fun x => x != cid) }) = acores s := by
        split
        · exact ⟨a1.trans (as_pqRelease _ cid), pqRelease_acores _⟩
        · exact ⟨a1, rfl⟩
      generalize (if s.pqAssigned.contains cid = true then
            pqRelease { s with pqAssigned := s.pqAssigned.filter (fun x => x != cid), pqWaiters := s.pqWaiters.filter (fun x => x != cid) }
          else { s with pqAssigned := s.pqAssigned.filter (fun x => x != cid), pqWaiters := s.pqWaiters.filter (fun x => x != cid) }) = s2 at a2
      obtain ⟨a2, c2⟩ := a2
      have u2 : CUniq s2 := cuniq_of_cids a2.cids hu
      refine h.call_step (a2.trans (as_osDropTx s2 cid)) ?_ ?_
      · -- the call is not awaiting
        intro tx v hm
        obtain ⟨tx0, hm0⟩ := osDropTx_val_same s2 cid _ _ _ _ _ hm
        rw [c2] at hm0
        have := hu.aunique hg hm0 rfl
        simp only [acore, Prod.mk.injEq] at this
        rw [hph] at this; exact absurd this.2.1 (by simp)
      · -- its sender is dropped
        intro tx rx v hm
        right; right; left
        obtain ⟨tx0, hm0⟩ := osDropTx_val_same s2 cid _ _ _ _ _ hm
        rw [c2] at hm0
        have hv : v = false := early_val_false hi hm0 (Or.inr rfl)
        rcases osDropTx_gain u2 cid _ _ _ _ hm with h' | h'
        · rw [hv] at h'; cases h'
        · exact h'

theorem acc_dropClose {s : St} (hu : CUniq s) (h : AccI none s) (cid : Nat) : AccI none (dropClose s cid) := by
  unfold dropClose
  cases hg : getCall s cid with
  | none => exact h
  | some c =>
    have key : AccI none (guardClose s cid) := by
      unfold guardClose
      have a1 := as_updCall s cid (fun c => { c with os := { c.os with rxClosed := true, rxWaker := false } }) (fun _ => rfl)
      refine h.call_step a1 ?_ ?_
      · intro tx v hm
        obtain ⟨c', _, _, he⟩ := updCall_acidcore s cid _ _ hm rfl (fun _ => rfl)
        simp [acore] at he
      · intro tx rx v hm
        obtain ⟨c', hc', hc'id, he⟩ := updCall_acidcore s cid _ _ hm rfl (fun _ => rfl)
        simp only [acore, Prod.mk.injEq] at he
        have hm0 : (cid, Phase.reserving, tx, c'.os.rxClosed, v) ∈ acores s := by
          have : acore c' = (cid, Phase.reserving, tx, c'.os.rxClosed, v) := by
            simp [acore, hc'id, ← he.2.1, ← he.2.2.1, ← he.2.2.2.2]
          rw [← this]; exact mem_acores_of_mem hc'
        exact h.res cid tx _ v hm0
    simp only
    cases hph : c.phase with
    | reserving => exact key
    | awaiting => exact key
    | notPolled => exact h
    | resolved => exact h
    | dropped => exact h

theorem acc_dropCancel {s : St} (h : AccI none s) (cid : Nat) : AccI none (dropCancel s cid) := by
  unfold dropCancel
  split
  · exact h
  · split <;> first | exact h.qa (qa_cqPush _ _) | exact h

theorem acc_dropFinish {s : St} (h : AccI none s) (cid : Nat) : AccI none (dropFinish s cid) := by
  unfold dropFinish
  have key : AccI none (afterCallGone (updCall s cid (fun c => { c with phase := .dropped, woken := false }))) := by
    refine AccI.qa ?_ (qa_afterCallGone' _)
    have a1 := as_updCall s cid (fun c => { c with phase := .dropped, woken := false }) (fun _ => rfl)
    refine h.call_step a1 ?_ ?_
    · intro tx v hm
      obtain ⟨c', _, _, he⟩ := updCall_acidcore s cid _ _ hm rfl (fun _ => rfl)
      simp [acore] at he
    · intro tx rx v hm
      obtain ⟨c', _, _, he⟩ := updCall_acidcore s cid _ _ hm rfl (fun _ => rfl)
      simp [acore] at he
  split
  · exact h.qa (qa_emit _ _)
  · split <;> first | exact key | exact h.qa (qa_emit _ _)

theorem acc_dropCallG {s : St} (hi : Inv none (view s)) (h : AccI none s) (guarded : Bool) (cid : Nat) (at_ : DropAt)
    (now : Nat) : AccI none (dropCallG guarded s cid at_ now) := by
  unfold dropCallG
  simp only
  have i1 : Inv none (view (dropPre s cid)) := by rw [view_dropPre]; exact hi
  have q1 := acc_dropPre hi h cid
  generalize dropPre s cid = s1 at i1 q1
  have h2 : Inv none (view (if (guarded && at_ == .enter) = true then pollDispatch s1 now else s1)) ∧
      AccI none (if (guarded && at_ == .enter) = true then pollDispatch s1 now else s1) := by
    split
    · exact ⟨pollDispatch_pres Inv.presD i1 now, acc_pollDispatch i1 q1 now⟩
    · exact ⟨i1, q1⟩
  generalize (if (guarded && at_ == .enter) = true then pollDispatch s1 now else s1) = s2 at h2
  have i3 := dropClose_pres Inv.pres h2.1 cid
  have q3 := acc_dropClose (cuniq_of_inv h2.1) h2.2 cid
  generalize dropClose s2 cid = s3 at i3 q3
  have h4 : (Inv none (view (if (guarded && at_ == .mid) = true then pollDispatch s3 now else s3)) ∧
      Closed (view (if (guarded && at_ == .mid) = true then pollDispatch s3 now else s3)) cid) ∧
      AccI none (if (guarded && at_ == .mid) = true then pollDispatch s3 now else s3) := by
    split
    · exact ⟨pollDispatch_closed Inv.pres i3.1 now cid i3.2, acc_pollDispatch i3.1 q3 now⟩
    · exact ⟨i3, q3⟩
  generalize (if (guarded && at_ == .mid) = true then pollDispatch s3 now else s3) = s4 at h4
  obtain ⟨⟨i4, c4⟩, q4⟩ := h4
  have i5 : Inv none (view (dropCancel s4 cid)) := dropCancel_pres Inv.pres i4 cid c4
  have q5 := acc_dropCancel q4 cid
  generalize dropCancel s4 cid = s5 at i5 q5
  have h6 : AccI none (if (guarded && at_ == .exit) = true then pollDispatch s5 now else s5) := by
    split
    · exact acc_pollDispatch i5 q5 now
    · exact q5
  generalize (if (guarded && at_ == .exit) = true then pollDispatch s5 now else s5) = s6 at h6
  exact acc_dropFinish h6 cid

theorem acc_dropCall {s : St} (hi : Inv none (view s)) (h : AccI none s) (cid : Nat) (at_ : DropAt) (now : Nat) :
    AccI none (dropCall s cid at_ now) := by
  rw [dropCall_eq]; exact acc_dropCallG hi h _ cid at_ now

/-! ### handles, external events, ops -/

theorem acc_newCall {s : St} (h : AccI none s) (hd : Nat) (ctx : Ctx) (body : Nat) : AccI none (newCall s hd ctx body) := by
  unfold newCall
  split
  · have hc : acores { s with calls := s.calls ++ [{ cid := s.calls.length, ctx := ctx, body := body, trace := ctx.trace }] }
        = acores s ++ [(s.calls.length, Phase.notPolled, false, false, false)] := by
      simp [acores, acore]
    refine ⟨?_, ?_⟩
    · intro cid tx v hm
      rw [hc] at hm
      rcases List.mem_append.mp hm with hm | hm
      · exact h.acc cid tx v hm
      · simp at hm
    · intro cid tx rx v hm
      rw [hc] at hm
      rcases List.mem_append.mp hm with hm | hm
      · exact h.res cid tx rx v hm
      · simp at hm
  · exact h.qa (qa_emit _ _)

theorem qa_liftT (s : St) (r : SimT × Bool) : QA s (liftT s r) := by
  unfold liftT
  simp only
  split
  · exact (qa_wakeDispatch _).after (QA.of_calls rfl rfl rfl rfl rfl rfl id)
  · exact QA.of_calls rfl rfl rfl rfl rfl rfl id

theorem qa_onAdvance (s : St) (now : Nat) : QA s (onAdvance s now) := by
  unfold onAdvance
  split
  · split
    · exact (qa_wakeDispatch _).after (QA.of_calls rfl rfl rfl rfl rfl rfl id)
    · exact QA.refl _
  · exact QA.refl _

theorem applyOp_acc {c : Sys} (hi : Inv none (view c.s)) (h : AccI none c.s) (op : COp) : AccI none (applyOp c op).s := by
  cases op with
  | call hd d tr b => exact acc_newCall h _ _ _
  | pollCall cid => exact acc_pollCall hi h cid c.now
  | dropCall cid site => exact acc_dropCall hi h cid site c.now
  | clone hd =>
    show AccI none (cloneHandle c.s hd)
    unfold cloneHandle; split
    · exact h.qa (QA.of_calls rfl rfl rfl rfl rfl rfl id)
    · exact h.qa (qa_emit _ _)
  | dropHandle hd =>
    show AccI none (dropHandle c.s hd)
    unfold dropHandle; split
    · exact h.qa ((qa_afterCallGone' _).after (QA.of_calls rfl rfl rfl rfl rfl rfl id))
    · exact h.qa (qa_emit _ _)
  | pollDispatch => exact acc_pollDispatch hi h c.now
  | dropDispatch => exact acc_dropDispatch (cuniq_of_inv hi) h
  | injectResp id res => exact h.qa (qa_liftT _ _)
  | injectErr => exact h.qa (qa_liftT _ _)
  | eof => exact h.qa (qa_liftT _ _)
  | setReady b => exact h.qa (qa_liftT _ _)
  | setFlush b => exact h.qa (qa_liftT _ _)
  | fault k => exact h.qa (QA.of_calls rfl rfl rfl rfl rfl rfl id)
  | faultSkip n => exact h.qa (QA.of_calls rfl rfl rfl rfl rfl rfl id)
  | selfWake b => exact h.qa (QA.of_calls rfl rfl rfl rfl rfl rfl id)
  | take n =>
    show AccI none (List.foldl (fun s m => emit s (.took (tid s) m)) { c.s with t := (c.s.t.take n).1 } (c.s.t.take n).2)
    exact h.qa ((qa_foldl _ (fun s m => qa_emit s _) _ _).after (QA.of_calls rfl rfl rfl rfl rfl rfl id))
  | advance n => exact h.qa (qa_onAdvance _ _)

theorem init_acc (k m b tc : Nat) (coupled : Bool) : AccI none (init k m b tc coupled) :=
  ⟨fun _ _ _ hm => (by cases hm), fun _ _ _ _ hm => (by cases hm)⟩

/-- **The accounting invariant holds in every reachable state.** -/
theorem reach_acc (m b tc : Nat) (coupled : Bool) (ops : List COp) :
    AccI none (ops.foldl applyOp (initSys m b tc coupled)).s := by
  suffices H : ∀ (c : Sys), Inv none (view c.s) → AccI none c.s → AccI none (ops.foldl applyOp c).s from
    H _ (init_inv 0 m b tc coupled) (init_acc 0 m b tc coupled)
  induction ops with
  | nil => intro c _ h; exact h
  | cons op ops ih =>
    intro c hi h
    exact ih _ (applyOp_inv hi op) (applyOp_acc hi h op)

end TarpcModel.Client

import TarpcModel.Monitors.C13
namespace TarpcModel.CPK

@[simp] theorem lookup_erase_self (k : Nat) (m) : lookup k (erase k m) = none := by
  induction m with
  | nil => simp [lookup, erase]
  | cons e m ih => obtain ⟨k', t⟩ := e; by_cases h : k' = k <;> simp_all [lookup, erase]

theorem lookup_erase_ne (k k' : Nat) (m) (h : k' ≠ k) : lookup k' (erase k m) = lookup k' m := by
  induction m with
  | nil => simp [lookup, erase]
  | cons e m ih =>
    obtain ⟨k'', t⟩ := e
    by_cases h1 : k'' = k <;> by_cases h2 : k'' = k' <;> simp_all [lookup, erase] <;> omega

@[simp] theorem lookup_set_self (k t : Nat) (m) : lookup k (set k t m) = some t := by
  simp [lookup, set]

theorem lookup_set_ne (k k' t : Nat) (m) (h : k' ≠ k) : lookup k' (set k t m) = lookup k' m := by
  have : ¬ (k = k') := by omega
  simp [lookup, set, this, lookup_erase_ne k k' m h]

end TarpcModel.CPK

namespace TarpcModel.CPK

structure Inv (s : St) : Prop where
  limPos : 1 ≤ s.limit
  guard : s.guardStale = true
  a : ∀ ch ∈ s.chans, lookup ch.key s.keyCounts = some ch.tid
  inj : ∀ k1 k2 t, lookup k1 s.keyCounts = some t → lookup k2 s.keyCounts = some t → k1 = k2
  fresh : ∀ k t, lookup k s.keyCounts = some t → t < s.nextTid
  e : ∀ k, aliveForKey k s.chans ≤ s.limit

def Coupled (s : St) (m : MonSt) : Prop :=
  m.alive = s.chans.map (fun c => (c.id, c.key))

theorem countKey_map (k : Nat) (cs : List Chan) :
    countKey k (cs.map (fun c => (c.id, c.key))) = aliveForKey k cs := by
  simp [countKey, aliveForKey, List.filter_map, Function.comp_def]

theorem strongCount_eq_alive {s : St} (hi : Inv s) {k t : Nat} (h : lookup k s.keyCounts = some t) :
    strongCount t s.chans = aliveForKey k s.chans := by
  unfold strongCount aliveForKey
  congr 1
  apply List.filter_congr
  intro ch hch
  have ha := hi.a ch hch
  by_cases h1 : ch.tid = t
  · have : ch.key = k := hi.inj _ _ t (by rw [ha, h1]) h
    grind
  · have : ch.key ≠ k := by
      intro hk; rw [hk, h] at ha; injection ha with ha; exact h1 ha.symm
    grind

theorem alive_zero_of_lookup_none {s : St} (hi : Inv s) {k : Nat} (h : lookup k s.keyCounts = none) :
    aliveForKey k s.chans = 0 := by
  unfold aliveForKey
  rw [List.length_eq_zero_iff, List.filter_eq_nil_iff]
  intro ch hch
  have ha := hi.a ch hch
  intro hk; simp at hk; rw [hk, h] at ha; simp at ha

theorem aliveForKey_append (k : Nat) (cs : List Chan) (c : Chan) :
    aliveForKey k (cs ++ [c]) = aliveForKey k cs + (if c.key = k then 1 else 0) := by
  unfold aliveForKey
  by_cases h : c.key = k <;> simp [List.filter_append, h]

theorem no_chan_of_alive_zero {cs : List Chan} {k : Nat} (h0 : aliveForKey k cs = 0) :
    ∀ ch ∈ cs, ch.key ≠ k := by
  intro ch hch hk
  have : 0 < aliveForKey k cs := by
    unfold aliveForKey
    exact List.length_pos_of_mem (List.mem_filter.mpr ⟨hch, by simp [hk]⟩)
  omega

/-- Creating a fresh tracker for a key with no live channel and admitting a channel under it. -/
theorem inv_set_fresh {s : St} (hi : Inv s) {k : Nat} (h0 : aliveForKey k s.chans = 0) (cid : Nat) :
    Inv { s with keyCounts := set k s.nextTid s.keyCounts, nextTid := s.nextTid + 1,
                 chans := s.chans ++ [{ id := cid, key := k, tid := s.nextTid }] } := by
  have hnone := no_chan_of_alive_zero h0
  refine ⟨hi.limPos, hi.guard, ?_, ?_, ?_, ?_⟩
  · intro ch hch
    simp only [List.mem_append, List.mem_singleton] at hch
    rcases hch with hch | rfl
    · have := hnone ch hch
      simp [lookup_set_ne _ _ _ _ this, hi.a ch hch]
    · simp
  · intro k1 k2 t' h1 h2
    simp only at h1 h2
    by_cases e1 : k1 = k <;> by_cases e2 : k2 = k
    · omega
    · subst e1; rw [lookup_set_self] at h1; rw [lookup_set_ne _ _ _ _ e2] at h2
      have := hi.fresh _ _ h2; simp at h1; omega
    · subst e2; rw [lookup_set_self] at h2; rw [lookup_set_ne _ _ _ _ e1] at h1
      have := hi.fresh _ _ h1; simp at h2; omega
    · rw [lookup_set_ne _ _ _ _ e1] at h1; rw [lookup_set_ne _ _ _ _ e2] at h2
      exact hi.inj _ _ _ h1 h2
  · intro k' t' h
    simp only at h
    by_cases e1 : k' = k
    · subst e1; rw [lookup_set_self] at h; simp at h; simp; omega
    · rw [lookup_set_ne _ _ _ _ e1] at h; have := hi.fresh _ _ h; simp; omega
  · intro k'
    simp only [aliveForKey_append]
    by_cases e1 : k = k'
    · subst e1; simp [h0]; exact hi.limPos
    · simp [e1]; exact hi.e k'

/-- Admitting a channel under the live tracker already in the map. -/
theorem inv_add_live {s : St} (hi : Inv s) {k t : Nat} (hl : lookup k s.keyCounts = some t)
    (hlt : aliveForKey k s.chans < s.limit) (cid : Nat) :
    Inv { s with chans := s.chans ++ [{ id := cid, key := k, tid := t }] } := by
  refine ⟨hi.limPos, hi.guard, ?_, hi.inj, hi.fresh, ?_⟩
  · intro ch hch
    simp only [List.mem_append, List.mem_singleton] at hch
    rcases hch with hch | rfl
    · exact hi.a ch hch
    · exact hl
  · intro k'
    simp only [aliveForKey_append]
    by_cases e1 : k = k'
    · subst e1; simp; omega
    · simp [e1]; exact hi.e k'

end TarpcModel.CPK

namespace TarpcModel.CPK

/-- Model state and monitor state agree and nothing has gone wrong so far. -/
structure Good (n : Nat) (s : St) (m : MonSt) : Prop where
  inv : Inv s
  lim : s.limit = n
  cpl : Coupled s m
  ok  : m.ok = true

theorem countKey_append (k : Nat) (l : List (Nat × Nat)) (c k' : Nat) :
    countKey k (l ++ [(c, k')]) = countKey k l + (if k' = k then 1 else 0) := by
  unfold countKey
  by_cases h : k' = k <;> simp [List.filter_append, h]

theorem countKey_coupled {s : St} {m : MonSt} (h : Coupled s m) (k : Nat) :
    countKey k m.alive = aliveForKey k s.chans := by rw [h, countKey_map]

/-- The monitor accepts a `yielded` event and stays coupled when the model admits a channel. -/
theorem good_yield {n : Nat} {s s' : St} {m : MonSt} (g : Good n s m) (cid k t : Nat)
    (hi : Inv s') (hlim : s'.limit = s.limit)
    (hch : s'.chans = s.chans ++ [{ id := cid, key := k, tid := t }]) :
    Good n s' (monStep n m (.yielded cid k)) := by
  have hc : m.alive = _ := g.cpl
  refine ⟨hi, by rw [hlim, g.lim], ?_, ?_⟩
  · simp [Coupled, monStep, hch, hc]
  · have h1 := hi.e k
    rw [hch, aliveForKey_append] at h1
    simp only [monStep, g.ok, Bool.true_and, decide_eq_true_eq, countKey_append,
      countKey_coupled g.cpl]
    have := g.lim; simp at h1 ⊢; omega

theorem good_shed {n : Nat} {s s' : St} {m : MonSt} (g : Good n s m) (cid k : Nat)
    (hi : Inv s') (hlim : s'.limit = s.limit) (hch : s'.chans = s.chans)
    (hfull : s.limit ≤ aliveForKey k s.chans) :
    Good n s' (monStep n m (.shed cid k)) := by
  have hc : m.alive = _ := g.cpl
  refine ⟨hi, by rw [hlim, g.lim], ?_, ?_⟩
  · simp [Coupled, monStep, hch, hc]
  · simp only [monStep, g.ok, Bool.true_and, decide_eq_true_eq, countKey_coupled g.cpl]
    have := g.lim; omega

theorem pollListener_good {n : Nat} {s : St} {m : MonSt} (g : Good n s m) :
    Good n (pollListener s).1 ((pollListener s).2.2.foldl (monStep n) m) := by
  unfold pollListener
  cases hl : s.listener with
  | nil => by_cases he : s.ended <;> simp [he] <;> exact g
  | cons e rest =>
    obtain ⟨cid, k⟩ := e
    have hi' : Inv { s with listener := rest } :=
      ⟨g.inv.limPos, g.inv.guard, g.inv.a, g.inv.inj, g.inv.fresh, g.inv.e⟩
    simp only
    unfold increment
    cases hlk : lookup k s.keyCounts with
    | none =>
      have h0 := alive_zero_of_lookup_none g.inv hlk
      exact good_yield g cid k s.nextTid (inv_set_fresh hi' (k := k) h0 cid) rfl rfl
    | some t =>
      have hsc := strongCount_eq_alive g.inv hlk
      simp only
      by_cases hfull : strongCount t s.chans ≥ s.limit
      · simp only [hfull, ↓reduceIte, List.foldl]
        exact good_shed g cid k hi' rfl rfl (by omega)
      · simp only [hfull, ↓reduceIte]
        by_cases hpos : strongCount t s.chans > 0
        · simp only [hpos, ↓reduceIte, List.foldl]
          exact good_yield g cid k t (inv_add_live hi' (k := k) (t := t) hlk (by simp; omega) cid) rfl rfl
        · simp only [hpos, ↓reduceIte, List.foldl]
          have h0 : aliveForKey k s.chans = 0 := by omega
          exact good_yield g cid k s.nextTid (inv_set_fresh hi' (k := k) h0 cid) rfl rfl

theorem lookup_erase_some {k k' t : Nat} {m} (h : lookup k' (erase k m) = some t) :
    k' ≠ k ∧ lookup k' m = some t := by
  by_cases e : k' = k
  · subst e; simp at h
  · exact ⟨e, by rwa [lookup_erase_ne _ _ _ e] at h⟩

theorem pollClosed_good {n : Nat} {s : St} {m : MonSt} (g : Good n s m) :
    Good n (pollClosed s).1 m := by
  unfold pollClosed
  cases hd : s.dropped with
  | nil => exact g
  | cons k rest =>
    simp only
    by_cases he : eraseOnNotify s k = true
    · simp only [he, ↓reduceIte]
      -- the entry is erased: its tracker is dead, so no live channel has key `k`
      have hnone : ∀ ch ∈ s.chans, ch.key ≠ k := by
        unfold eraseOnNotify at he
        rw [g.inv.guard] at he
        simp only [↓reduceIte] at he
        cases hlk : lookup k s.keyCounts with
        | none => rw [hlk] at he; simp at he
        | some t =>
          rw [hlk] at he; simp only [beq_iff_eq] at he
          exact no_chan_of_alive_zero (by rw [← strongCount_eq_alive g.inv hlk]; exact he)
      refine ⟨⟨g.inv.limPos, g.inv.guard, ?_, ?_, ?_, g.inv.e⟩, g.lim, g.cpl, g.ok⟩
      · intro ch hch
        simp only
        rw [lookup_erase_ne _ _ _ (hnone ch hch)]; exact g.inv.a ch hch
      · intro k1 k2 t' h1 h2
        exact g.inv.inj _ _ _ (lookup_erase_some h1).2 (lookup_erase_some h2).2
      · intro k' t' h
        exact g.inv.fresh _ _ (lookup_erase_some h).2
    · simp only [he, Bool.false_eq_true, ↓reduceIte]
      exact ⟨⟨g.inv.limPos, g.inv.guard, g.inv.a, g.inv.inj, g.inv.fresh, g.inv.e⟩, g.lim, g.cpl, g.ok⟩

theorem pollNext_good {n : Nat} (fuel : Nat) {s : St} {m : MonSt} (g : Good n s m) :
    Good n (pollNext fuel s).1 ((pollNext fuel s).2.foldl (monStep n) m) := by
  induction fuel generalizing s m with
  | zero => simpa [pollNext, monStep] using g
  | succ fuel ih =>
    unfold pollNext
    have g1 := pollListener_good g
    rcases hpl : pollListener s with ⟨s1, l, o⟩
    rw [hpl] at g1
    simp only at g1 ⊢
    have g2 := pollClosed_good g1
    rcases hpc : pollClosed s1 with ⟨s2, c⟩
    rw [hpc] at g2
    simp only at g2 ⊢
    cases l <;> cases c <;> (try simp only) <;>
      first
        | exact g2
        | (simp only [List.foldl_append]; exact ih g2)
        | (simp only [List.foldl_append, List.foldl, monStep]; exact g2)

theorem closeChan_good {n : Nat} {s : St} {m : MonSt} (g : Good n s m) (cid : Nat) :
    Good n (closeChan s cid).1 ((closeChan s cid).2.foldl (monStep n) m) := by
  unfold closeChan
  cases hf : s.chans.find? (fun c => c.id == cid) with
  | none => simpa [monStep] using g
  | some c =>
    simp only [List.foldl]
    refine ⟨⟨g.inv.limPos, g.inv.guard, ?_, g.inv.inj, g.inv.fresh, ?_⟩, g.lim, ?_, ?_⟩
    · intro ch hch
      exact g.inv.a ch (List.mem_filter.mp hch).1
    · intro k
      refine Nat.le_trans ?_ (g.inv.e k)
      unfold aliveForKey
      exact ((List.filter_sublist (l := s.chans)).filter _).length_le
    · have hc : m.alive = _ := g.cpl
      simp [Coupled, monStep, hc, List.filter_map, Function.comp_def]
    · simpa [monStep] using g.ok

theorem step_good {n : Nat} {s : St} {m : MonSt} (g : Good n s m) (op : Op) :
    Good n (step s op).1 ((step s op).2.foldl (monStep n) m) := by
  cases op with
  | arrive k =>
    unfold step
    by_cases he : s.ended
    · simpa [he, monStep] using g
    · simp only [he, Bool.false_eq_true, ↓reduceIte, List.foldl, monStep]
      exact ⟨⟨g.inv.limPos, g.inv.guard, g.inv.a, g.inv.inj, g.inv.fresh, g.inv.e⟩, g.lim, g.cpl, g.ok⟩
  | endListener =>
    exact ⟨⟨g.inv.limPos, g.inv.guard, g.inv.a, g.inv.inj, g.inv.fresh, g.inv.e⟩, g.lim, g.cpl, g.ok⟩
  | close c => exact closeChan_good g c
  | poll => exact pollNext_good _ g

theorem run_good {n : Nat} (ops : List Op) {s : St} {m : MonSt} (g : Good n s m) :
    Good n (run s ops).1 ((run s ops).2.foldl (monStep n) m) := by
  induction ops generalizing s m with
  | nil => simpa [run] using g
  | cons op ops ih =>
    simp only [run, List.foldl_append]
    exact ih (step_good g op)

theorem init_good {n : Nat} (h : 1 ≤ n) : Good n (init n) {} := by
  refine ⟨⟨h, rfl, ?_, ?_, ?_, ?_⟩, rfl, rfl, rfl⟩ <;> simp [init, lookup, aliveForKey]

/-- The code as translated uses the guarded removal; this is where a regenerated `Gen/Cpk.lean`
saying otherwise breaks the proof obligations. -/
theorem initCurrent_eq (n : Nat) : initCurrent n = init n := by
  simp [initCurrent, Gen.cpkGuardStale]

theorem initCurrent_good {n : Nat} (h : 1 ≤ n) : Good n (initCurrent n) {} := by
  rw [initCurrent_eq]; exact init_good h

end TarpcModel.CPK

import TarpcModel.Lemmas.DelayQFacts
/-!
Slot arithmetic for the two-sided invariant of the timer-wheel emulation `Prim/DelayQ.lean`
(used by `Lemmas/DelayQComplete.lean`).
-/
namespace TarpcModel.DelayQ

/-! ### arithmetic of slots -/

/-- start (ms) of the level-`L` slot that contains `w` -/
def slotStart (w L : Nat) : Nat := w - w % 64 ^ L

/-- end of the window in which level-`L` entries live when the wheel clock is `E`: the end of the
level-`L` block containing `E` for `L < 5`; for the top level one full rotation after the start of
the slot containing `E`. -/
def winEnd (E L : Nat) : Nat :=
  if L = 5 then (E - E % 64 ^ 5) + 64 ^ 6 else (E - E % 64 ^ (L + 1)) + 64 ^ (L + 1)

/-- two-sided position invariant of an entry with deadline `w` at level `L`, wheel clock `E` -/
def PosN (E w L : Nat) : Prop := L ≤ 5 ∧ E ≤ slotStart w L ∧ slotStart w L < winEnd E L

theorem six_cases {L : Nat} (h : L ≤ 5) : L = 0 ∨ L = 1 ∨ L = 2 ∨ L = 3 ∨ L = 4 ∨ L = 5 := by omega

/-- the deadline the wheel computes for the slot of a well-placed entry is the start of that slot -/
theorem posN_exDeadline {E w L : Nat} (h : PosN E w L) : exDeadline E L (slotFor w L) = slotStart w L := by
  obtain ⟨hL, hlo, hhi⟩ := h
  rcases exDeadline_cases E L (slotFor w L) with ⟨h1, h2⟩ | ⟨h1, h2⟩ <;> rw [h2] <;>
  rcases six_cases hL with rfl | rfl | rfl | rfl | rfl | rfl <;>
  · simp only [slotStart, winEnd, slotFor, slotRange, levelRange, Nat.reducePow, Nat.reduceAdd,
      Nat.reduceMul, Nat.reduceEqDiff, if_true, if_false, Nat.pow_zero, Nat.mod_one, Nat.div_one,
      Nat.sub_zero, Nat.mul_one] at *
    omega

/-- rotation distance of `w`'s slot from the slot of the wheel clock, as `levelNextExpiration` computes it -/
def dist (E w L : Nat) : Nat := (slotFor w L + 64 - slotFor E L) % 64

syntax "lvl_simp" : tactic
macro_rules
  | `(tactic| lvl_simp) => `(tactic|
      simp only [slotStart, winEnd, slotFor, slotRange, levelRange, dist, delayQMaxMs, Nat.reducePow, Nat.reduceAdd,
        Nat.reduceMul, Nat.reduceSub, Nat.reduceEqDiff, Nat.reduceLT, Nat.reduceLeDiff, if_true, if_false, Nat.pow_zero,
        Nat.mod_one, Nat.div_one, Nat.sub_zero, Nat.mul_one, Nat.lt_irrefl, Nat.le_refl, forall_const,
        false_implies, true_implies] at *)

theorem posN_slotStart_eq {E w L : Nat} (h : PosN E w L) :
    slotStart w L = slotStart E L + dist E w L * 64 ^ L := by
  obtain ⟨hL, hlo, hhi⟩ := h
  rcases six_cases hL with rfl | rfl | rfl | rfl | rfl | rfl <;>
  · lvl_simp
    omega

theorem slotStart_le (w L : Nat) : slotStart w L ≤ w := Nat.sub_le _ _

theorem lt_slotStart_add (w L : Nat) : w < slotStart w L + 64 ^ L := by
  have : w % 64 ^ L < 64 ^ L := Nat.mod_lt _ (Nat.pow_pos (by decide))
  have := Nat.mod_le w (64 ^ L)
  unfold slotStart; omega

theorem posN_mono {E E' w L : Nat} (h : PosN E w L) (h1 : E ≤ E') (h2 : E' ≤ slotStart w L) : PosN E' w L := by
  obtain ⟨hL, hlo, hhi⟩ := h
  refine ⟨hL, h2, ?_⟩
  rcases six_cases hL with rfl | rfl | rfl | rfl | rfl | rfl <;>
  · lvl_simp
    omega

/-- entries of one level: smaller rotation distance means earlier slot -/
theorem posN_dist_le {E a b L : Nat} (ha : PosN E a L) (hb : PosN E b L) (h : dist E a L ≤ dist E b L) :
    slotStart a L ≤ slotStart b L := by
  rw [posN_slotStart_eq ha, posN_slotStart_eq hb]
  exact Nat.add_le_add_left (Nat.mul_le_mul_right _ h) _

theorem posN_same_slot {E a b L : Nat} (ha : PosN E a L) (hb : PosN E b L) (h : slotFor a L = slotFor b L) :
    slotStart a L = slotStart b L := by
  rw [posN_slotStart_eq ha, posN_slotStart_eq hb, dist, dist, h]

theorem slotFor_eq_of_slotStart_eq {a b L : Nat} (h : slotStart a L = slotStart b L) : slotFor a L = slotFor b L := by
  have h1 := Nat.div_add_mod a (64 ^ L)
  have h2 := Nat.div_add_mod b (64 ^ L)
  have h3 := Nat.mod_le a (64 ^ L)
  have h4 := Nat.mod_le b (64 ^ L)
  have : 64 ^ L * (a / 64 ^ L) = 64 ^ L * (b / 64 ^ L) := by unfold slotStart at h; omega
  have := Nat.eq_of_mul_eq_mul_left (Nat.pow_pos (by decide)) this
  unfold slotFor slotRange
  rw [this]

/-- an entry of a lower level lies entirely before the slot of a strictly-future entry of a higher level -/
theorem posN_cross {E a b La Lb : Nat} (ha : PosN E a La) (hb : PosN E b Lb) (hl : La < Lb)
    (hs : E < slotStart b Lb) : slotStart a La + 64 ^ La ≤ slotStart b Lb := by
  obtain ⟨hLa, hloa, hhia⟩ := ha
  obtain ⟨hLb, hlob, hhib⟩ := hb
  rcases six_cases hLa with rfl | rfl | rfl | rfl | rfl | rfl <;>
  rcases six_cases hLb with rfl | rfl | rfl | rfl | rfl | rfl <;>
  first
  | (exfalso; omega)
  | (lvl_simp; omega)

/-- the arithmetic of a one-level cascade -/
theorem posN_cascade {E w L : Nat} (h : PosN E w L) (h1 : 1 ≤ L) : PosN (slotStart w L) w (L - 1) := by
  obtain ⟨hL, hlo, hhi⟩ := h
  refine ⟨by omega, ?_, ?_⟩ <;>
  rcases six_cases hL with rfl | rfl | rfl | rfl | rfl | rfl <;>
  first
  | (exfalso; omega)
  | (lvl_simp; omega)

theorem posN_blk {E w L : Nat} (h : PosN E w L) (h5 : L < 5) : w / 64 ^ (L + 1) ≤ E / 64 ^ (L + 1) := by
  obtain ⟨hL, hlo, hhi⟩ := h
  rcases six_cases hL with rfl | rfl | rfl | rfl | rfl | rfl <;>
  first
  | (exfalso; omega)
  | (lvl_simp; omega)

theorem posN_top {E w : Nat} (h : PosN E w 5) : w ≤ E + delayQMaxMs := by
  obtain ⟨hL, hlo, hhi⟩ := h
  lvl_simp
  omega

/-! ### `levelFor` puts a new entry at a two-sided position -/

theorem xor_lt_of_div_eq {a b k : Nat} (h : a / 2 ^ k = b / 2 ^ k) : a ^^^ b < 2 ^ k := by
  have : (a ^^^ b) / 2 ^ k = 0 := by rw [Nat.xor_div_two_pow, h, Nat.xor_self]
  exact Nat.lt_of_div_eq_zero (Nat.pow_pos (by decide)) this

theorem levelFor_eq_blk {E w : Nat} (h : levelFor E w < 5) :
    w / 64 ^ (levelFor E w + 1) = E / 64 ^ (levelFor E w + 1) := by
  have key : E ^^^ w < 2 ^ (6 * (levelFor E w + 1)) := by
    revert h
    unfold levelFor msb
    simp only
    split
    · rw [log2_cap]; intro h; omega
    · intro _
      have h63 : 63 ≤ (E ^^^ w) ||| 63 := Nat.right_le_or
      have hne : (E ^^^ w) ||| 63 ≠ 0 := by omega
      have : (E ^^^ w) ||| 63 < 2 ^ (6 * (Nat.log2 ((E ^^^ w) ||| 63) / 6 + 1)) :=
        (Nat.log2_lt hne).1 (by omega)
      exact Nat.lt_of_le_of_lt Nat.left_le_or this
  have := div_eq_of_xor_lt_f key
  rw [Nat.pow_mul] at this
  exact this.symm

theorem levelFor_ne {E w : Nat} (h : 1 ≤ levelFor E w) : w / 64 ^ levelFor E w ≠ E / 64 ^ levelFor E w := by
  intro heq
  have hx : E ^^^ w < 2 ^ (6 * levelFor E w) := by
    apply xor_lt_of_div_eq
    rw [Nat.pow_mul]; exact heq.symm
  have h63 : (63 : Nat) < 2 ^ (6 * levelFor E w) :=
    Nat.lt_of_lt_of_le (by decide : (63 : Nat) < 2 ^ 6) (Nat.pow_le_pow_right (by decide) (by omega))
  have hm : (E ^^^ w) ||| 63 < 2 ^ (6 * levelFor E w) := Nat.or_lt_two_pow hx h63
  revert hm hx h63 h
  generalize hL : levelFor E w = L
  intro h hx h63 hm
  unfold levelFor msb at hL
  simp only at hL
  split at hL
  · next hc =>
    rw [log2_cap] at hL
    have : L = 5 := by omega
    subst this
    simp [delayQMaxMs] at hc hm
    omega
  · have hne : (E ^^^ w) ||| 63 ≠ 0 := by
      have : 63 ≤ (E ^^^ w) ||| 63 := Nat.right_le_or
      omega
    have : Nat.log2 ((E ^^^ w) ||| 63) < 6 * L := (Nat.log2_lt hne).2 hm
    omega

/-- a new entry (`E < w`, within one rotation of the start of the top-level slot of `E`) is filed at a
two-sided position, strictly in the future of the wheel clock at levels ≥ 1 -/
theorem levelFor_posN {E w : Nat} (hw : E < w) (hr : w < (E - E % 64 ^ 5) + 64 ^ 6) :
    PosN E w (levelFor E w) ∧ (1 ≤ levelFor E w → E < slotStart w (levelFor E w)) := by
  have h1 := levelFor_le E w
  have h2 := @levelFor_eq_blk E w
  have h3 := @levelFor_ne E w
  revert h1 h2 h3
  generalize levelFor E w = L
  intro h1 h2 h3
  unfold PosN
  refine ⟨⟨h1, ?_, ?_⟩, fun h4 => ?_⟩ <;>
  rcases six_cases h1 with rfl | rfl | rfl | rfl | rfl | rfl <;>
  first
  | (exfalso; omega)
  | (lvl_simp; omega)

end TarpcModel.DelayQ

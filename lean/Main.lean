import TarpcModel.Driver.C13
import TarpcModel.Driver.Cli
import TarpcModel.Driver.Srv
import TarpcModel.Driver.C07
import TarpcModel.Driver.C15Codec
import TarpcModel.Driver.C15Json
import TarpcModel.Driver.C15Stream
import TarpcModel.Driver.C16
import TarpcModel.Driver.C16Stub
import TarpcModel.Driver.C17
import TarpcModel.Driver.C19
import TarpcModel.Driver.Chain
import TarpcModel.Driver.C20
/-
`driver model`   : reads `script`/`op` lines on stdin, prints `script`/`op`/`obs` lines produced by
                   the Lean model (same grammar as the harness output).
`driver monitor` : reads `script`/`op`/`obs` lines (an implementation or model trace) and prints one
                   `verdict <script-id> ok` or `verdict <script-id> FAIL <why>` line per script.
-/
open TarpcModel.Driver

def familyOf (name : String) : Option Family :=
  match name with
  | "c13" => some c13
  | "cli" => some cli
  | "srv" => some srv
  | "c07" => some c07
  | "c15bin" => some c15bin
  | "c15json" => some c15json
  | "c15frame" => some c15frame
  | "c15e2e" => some c15e2e
  | "c16dec" => some c16dec
  | "c16stub" => some c16stub
  | "c17camel" => some c17camel
  | "c17svc" => some c17svc
  | "c19" => some c19
  | "chain" => some chain
  | "c20rr" => some c20rr
  | "c20hash" => some c20hash
  | "c20retry" => some c20retry
  | "c20mt" => some c20mt
  | _ => none

structure Cur where
  fam : Family
  id : String
  st : fam.σ
  mon : fam.μ

partial def loop (mode : String) (h : IO.FS.Stream) (out : IO.FS.Stream) (cur : Option Cur) : IO Unit := do
  let finish (cur : Option Cur) : IO Unit := do
    if mode == "monitor" then
      match cur with
      | some c =>
          match c.fam.monVerdict c.mon with
          | none => out.putStrLn s!"verdict {c.id} ok"
          | some why => out.putStrLn s!"verdict {c.id} FAIL {why}"
      | none => pure ()
  let line ← h.getLine
  if line.isEmpty then
    finish cur
    return ()
  let toks := tokens line
  match toks with
  | "script" :: id :: famName :: rest =>
      finish cur
      match familyOf famName with
      | none =>
          out.putStrLn s!"error unknown family {famName}"
          loop mode h out none
      | some fam =>
          let ps := params rest
          if mode == "model" then out.putStrLn (" ".intercalate toks)
          loop mode h out (some { fam := fam, id := id, st := fam.init ps, mon := fam.monInit ps })
  | "op" :: rest =>
      match cur with
      | none => loop mode h out cur
      | some c =>
          if mode == "model" then
            let (st', obs) := c.fam.step c.st rest
            out.putStrLn (" ".intercalate toks)
            for o in obs do out.putStrLn ("obs " ++ o)
            loop mode h out (some { c with st := st' })
          else loop mode h out (some { c with mon := c.fam.monOp c.mon rest })
  | "obs" :: rest =>
      match cur with
      | none => loop mode h out cur
      | some c =>
          if mode == "monitor" then loop mode h out (some { c with mon := c.fam.monStep c.mon rest })
          else loop mode h out cur
  | _ => loop mode h out cur

def main (args : List String) : IO UInt32 := do
  let mode := args.headD "model"
  let stdin ← IO.getStdin
  let stdout ← IO.getStdout
  loop mode stdin stdout none
  return 0

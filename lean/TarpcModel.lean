-- Root of the `TarpcModel` library.
import TarpcModel.Limits.ChannelsPerKey

#!/bin/sh
# Builds everything the checks need, offline, from files on disk only.
set -e
cd "$(dirname "$0")"
export CARGO_NET_OFFLINE=true
mkdir -p .cache evidence replays
python3 tools/translate.py
(cd lean && lake build TarpcModel driver)
(cd harness && cargo build --offline)

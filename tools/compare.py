#!/usr/bin/env python3
"""usage: tools/compare.py <driver-binary> <family> [--proj=Cxx] [harness args...]
Runs the (already built) harness on generated scripts, the given Lean driver on the same ops, and
reports how many scripts differ after canonicalisation (all obs lines except wakes, or one
property's projection).  Used to validate a model change before it is committed."""
import subprocess, sys
from pathlib import Path
sys.path.insert(0, str(Path(__file__).resolve().parent))
from vlib import core, canon, sysprops

driver, fam, args = sys.argv[1], sys.argv[2], sys.argv[3:]
proj = None
for a in list(args):
    if a.startswith("--proj="):
        p = a.split("=", 1)[1]
        proj = sysprops.projector((sysprops.CLI_PROJ if fam == "cli" else sysprops.SRV_PROJ)[p])
        args.remove(a)
out = "/tmp/compare.%d.impl.txt" % __import__("os").getpid()
subprocess.run([str(core.HARNESS_BIN), fam] + args + [f"--out={out}"], check=True)
model = subprocess.run([driver, "model"], stdin=open(out), capture_output=True, text=True).stdout
impl_s, model_s = core.split_scripts(open(out).read()), core.split_scripts(model)
f = proj or (lambda ls: canon.canon_lines(ls))
bad = 0
for (h, l), (mh, ml) in zip(impl_s, model_s):
    a, b = f(l), f(ml)
    if a != b:
        bad += 1
        if bad <= 2:
            i = next((i for i, (x, y) in enumerate(zip(a, b)) if x != y), min(len(a), len(b)))
            print(h); print("\n".join(a[max(0, i - 12):i]))
            print("IMPL :", a[i] if i < len(a) else "<end>"); print("MODEL:", b[i] if i < len(b) else "<end>")
print(f"differing scripts: {bad} of {len(impl_s)}")
Path(out).unlink()
sys.exit(1 if bad else 0)

#!/usr/bin/env python3
"""C17, family `c17svc`: generates a cargo project of real `#[tarpc::service]` expansions.

    c17_gen.py <seed> <count> <outdir> [--neg=all|none|N] [--target-dir=DIR] [--scripts=FILE]

Every service definition is one *script* of the line protocol (see lean/TarpcModel/Driver/C17.lean):

    script <id> c17svc svc=<ident> raw=<0|1> derive=<n> expect=<accept|reject>
    op method <raw> <name> <cfg:none|on|off> <ret:-|ty> <kind>:<raw>:<name>:<ty> ...
    op build
    op invoke <idx> <trace>:<deadline-ms> <arg> ...

Outputs under <outdir>:
  Cargo.toml, Cargo.lock, .cargo/config.toml   an offline cargo project (path dep on /repo/tarpc, "full")
  src/bin/pos.rs      all `expect=accept` services, an implementor for each that records (method index,
                      context, Debug of every argument in order, its result), and a `main` that calls every
                      generated client method through a real in-memory client/server pair and prints the
                      script / op / obs lines
  src/bin/neg_<id>.rs one program per `expect=reject` service (must fail `cargo check`)
  scripts.txt         the script / op lines of everything (input of `driver model`)
  neg.json            [{"bin":, "id":, "lines": [...]}] for the negative programs

With --scripts=FILE the services are parsed from FILE (a trace or replay file) instead of being generated.
Every random choice derives from <seed> (splitmix64).
"""
import json, shutil, sys
from pathlib import Path

REPO = "/repo"
TYPES = ["u8", "i32", "u64", "String", "bool", "()", "Vec<u8>", "Option<u32>"]
DERIVES = [
    "#[tarpc::service]",
    "#[tarpc::service(derive = [Clone, PartialEq])]",
    "#[tarpc::service(derive = [])]",
    "#[tarpc::service(derive_serde = true)]",
    "#[tarpc::service(derive_serde = false)]",
    "#[tarpc::service(derive = [Clone, Hash, PartialEq, Eq, PartialOrd, Ord])]",
    "#[tarpc::service(derive = [serde::Serialize, serde::Deserialize])]",
]
KEYWORDS = set("""as break const continue crate else enum extern false fn for if impl in let loop match mod
move mut pub ref return self Self static struct super trait true type unsafe use where while async await dyn
abstract become box do final macro override priv typeof unsized virtual yield try gen""".split())
NO_RAW = {"self", "Self", "super", "crate", "_"}
RAWABLE_KW = sorted(KEYWORDS - NO_RAW)
WORDS = ["get", "set", "put", "thing", "item", "foo", "bar", "baz", "user", "id", "x", "y", "list", "all", "by",
         "name", "ping", "echo", "add", "sum", "a", "b", "q", "do", "it", "from", "clone", "fmt", "call",
         "into", "try_into", "drop", "hash", "default", "request", "response", "client", "stub", "channel"]
# `client.into(..)` resolves to the prelude's by-value `Into::into` / `TryInto::try_into` before the generated
# `&self` method is considered (always a compile error: the arities differ), so these are called by path.
SHADOWED = {"into", "try_into"}
ARG_NAMES = ["a", "b", "c", "x", "y", "z", "n", "key", "value", "context", "request", "resp", "msg", "req",
             "service", "_x", "__", "arg0", "Key", "someValue", "snake_case", "this", "stub", "result"]


class Rng:
    def __init__(self, seed):
        self.s = ((seed * 0x9E3779B97F4A7C15) ^ 0xD1B54A32D192ED03) & (2**64 - 1)

    def next(self):
        self.s = (self.s + 0x9E3779B97F4A7C15) & (2**64 - 1)
        z = self.s
        z = ((z ^ (z >> 30)) * 0xBF58476D1CE4E5B9) & (2**64 - 1)
        z = ((z ^ (z >> 27)) * 0x94D049BB133111EB) & (2**64 - 1)
        return z ^ (z >> 31)

    def below(self, n):
        return self.next() % n if n else 0

    def chance(self, num, den):
        return self.below(den) < num

    def pick(self, xs):
        return xs[self.below(len(xs))]

    def weighted(self, ws):
        x = self.below(max(sum(ws), 1))
        for i, w in enumerate(ws):
            if x < w:
                return i
            x -= w
        return len(ws) - 1


# ------------------------------------------------------------------ data

class Arg:
    def __init__(self, kind, raw, name, ty):
        self.kind, self.raw, self.name, self.ty = kind, raw, name, ty

    def token(self):
        return f"{self.kind}:{int(self.raw)}:{self.name}:{self.ty}"

    def written(self):
        return ("r#" if self.raw else "") + self.name


class Method:
    def __init__(self, raw, name, cfg, ret, args):
        self.raw, self.name, self.cfg, self.ret, self.args = raw, name, cfg, ret, args

    def line(self):
        return " ".join(["op method", str(int(self.raw)), self.name, self.cfg, self.ret or "-"] +
                        [a.token() for a in self.args])

    def written(self):
        return ("r#" if self.raw else "") + self.name

    def active(self):
        return self.cfg != "off"

    def has_doc(self):
        return sum(map(ord, self.name)) % 3 == 0


class Svc:
    def __init__(self, sid, raw, name, derive, expect):
        self.id, self.raw, self.name, self.derive, self.expect = sid, raw, name, derive, expect
        self.methods = []
        self.invokes = []      # (idx, ctx token, [arg tokens])
        self.note = ""

    def header(self):
        return f"script {self.id} c17svc svc={self.name} raw={int(self.raw)} derive={self.derive} expect={self.expect}"

    def op_lines(self):
        out = [m.line() for m in self.methods] + ["op build"]
        for idx, ctx, args in self.invokes:
            out.append(" ".join(["op invoke", str(idx), ctx] + args))
        return out

    def written(self):
        return ("r#" if self.raw else "") + self.name


def snake_to_camel(s):
    """Only used to keep *generated* positive services free of collisions; the oracle is the Lean model."""
    out, last = [], True
    for c in s:
        if c == "_":
            last = True
        elif last:
            out.append(c.upper()); last = False
        else:
            out.append(c.lower())
    return "".join(out)


# ------------------------------------------------------------------ parsing scripts back (replay)

def parse_scripts(text):
    svcs, cur = [], None
    for line in text.splitlines():
        t = line.split()
        if len(t) >= 3 and t[0] == "script" and t[2] == "c17svc":
            ps = dict(x.split("=", 1) for x in t[3:] if "=" in x)
            cur = Svc(t[1], ps.get("raw", "0") == "1", ps.get("svc", "Svc"), int(ps.get("derive", "0")),
                      ps.get("expect", "accept"))
            svcs.append(cur)
        elif t and t[0] == "script":
            cur = None
        elif cur is not None and len(t) >= 2 and t[0] == "op":
            if t[1] == "method" and len(t) >= 6:
                args = []
                for a in t[6:]:
                    k, r, n, ty = a.split(":")
                    args.append(Arg(k, r == "1", n, ty))
                cur.methods.append(Method(t[2] == "1", t[3], t[4], None if t[5] == "-" else t[5], args))
            elif t[1] == "invoke" and len(t) >= 4:
                cur.invokes.append((int(t[2]), t[3], t[4:]))
    return svcs


# ------------------------------------------------------------------ generation

def gen_value(rng, ty, used):
    for _ in range(50):
        if ty == "u8":
            v = str(rng.below(256))
        elif ty == "i32":
            v = str(rng.below(2**32) - 2**31) if rng.chance(1, 3) else str(rng.below(2001) - 1000)
        elif ty == "u64":
            v = str(rng.next()) if rng.chance(1, 3) else str(rng.below(100000))
        elif ty == "String":
            n = rng.below(7)
            v = '"' + "".join(rng.pick("abcdefghijklmnopqrstuvwxyzABCXYZ0123456789_") for _ in range(n)) + '"'
        elif ty == "bool":
            v = rng.pick(["true", "false"])
        elif ty == "()":
            v = "()"
        elif ty == "Vec<u8>":
            v = "[" + ",".join(str(rng.below(256)) for _ in range(rng.below(5))) + "]"
        else:
            v = "None" if rng.chance(1, 4) else f"Some({rng.below(2**32) if rng.chance(1, 3) else rng.below(1000)})"
        if v not in used or ty in ("bool", "()"):
            break
    used.add(v)
    return v


def gen_method_name(rng):
    """-> (raw, name): leading/trailing/double underscores, mixed case, digits, raw identifiers."""
    style = rng.weighted([12, 50, 20, 18])
    if style == 0:
        return True, rng.pick(RAWABLE_KW)
    n = 1 + rng.weighted([35, 40, 20, 5])
    parts = []
    for i in range(n):
        w = rng.pick(WORDS)
        if style == 2:       # mixed case
            w = "".join(c.upper() if rng.chance(1, 3) else c for c in w)
        elif style == 3:     # camelCase-ish / SCREAMING
            w = w.upper() if rng.chance(1, 3) else (w.capitalize() if i > 0 or rng.chance(1, 2) else w)
        if rng.chance(1, 6):
            w += str(rng.below(100))
        parts.append(w)
    if style == 3 and rng.chance(1, 2):
        name = "".join(parts)
    else:
        name = parts[0]
        for p in parts[1:]:
            name += ("__" if rng.chance(1, 5) else "_") + p
    name = "_" * rng.weighted([70, 20, 10]) + name + "_" * rng.weighted([75, 18, 7])
    raw = rng.chance(1, 8)
    if name in KEYWORDS:
        if name in NO_RAW:
            name += "_x"
        else:
            raw = True
    return raw, name


def gen_arg_name(rng):
    if rng.chance(1, 10):
        return True, rng.pick(RAWABLE_KW)
    n = rng.pick(ARG_NAMES)
    if rng.chance(1, 5):
        n += str(rng.below(10))
    return rng.chance(1, 12), n


def gen_service(rng, sid):
    nm = rng.pick(["Svc", "Svc", "Svc", "my_svc_", "Calc", "X_y", "svc", "KV"]) + str(sid)
    svc = Svc(str(sid), rng.chance(1, 6), nm, rng.below(len(DERIVES)), "accept")
    nmeth = 1 + rng.weighted([10, 20, 25, 20, 15, 10])
    camels = set()
    same_ty = rng.chance(1, 3)
    while len(svc.methods) < nmeth:
        raw, name = gen_method_name(rng)
        # a sibling whose name differs from an earlier method's only by an underscore (`timeout` / `time_out`):
        # distinct methods and distinct generated variants, but equal once case and underscores are ignored
        plain = [m.name for m in svc.methods if not m.raw and len(m.name.strip("_")) >= 2 and m.name not in KEYWORDS]
        if plain and rng.chance(1, 4):
            base = rng.pick(plain)
            core = base.strip("_")
            if "_" in core:
                k = core.index("_")
                var = core[:k] + core[k:].lstrip("_")
            else:
                k = 1 + rng.below(len(core) - 1)
                var = core[:k] + "_" + core[k:]
            raw, name = False, var
            if name in KEYWORDS:
                continue
        camel = snake_to_camel(name)
        if (not camel or camel[0].isdigit() or camel == "Self" or camel in camels
                or name in ("new", "serve")):
            continue
        cfg = ["none", "on", "off"][rng.weighted([60, 20, 20])]
        if not any(m.active() for m in svc.methods) and len(svc.methods) == nmeth - 1:
            cfg = "none"
        camels.add(camel)
        nargs = rng.weighted([15, 25, 25, 20, 15])
        base_ty = rng.pick(TYPES)
        args, names = [], set()
        for _ in range(nargs):
            while True:
                araw, an = gen_arg_name(rng)
                if an in names or an == "ctx" or an in NO_RAW:
                    if cfg == "off" and an != "_" and an not in NO_RAW and rng.chance(1, 2):
                        break            # a method removed by cfg may repeat a name / use `ctx`
                    continue
                break
            if cfg == "off" and rng.chance(1, 12):
                an, araw = "ctx", False
            names.add(an)
            args.append(Arg("p", araw, an, base_ty if same_ty and rng.chance(3, 4) else rng.pick(TYPES)))
        ret = None if rng.chance(1, 4) else rng.pick(TYPES)
        svc.methods.append(Method(raw, name, cfg, ret, args))
    if rng.chance(1, 8):      # a cfg'd-out `r#new` / `r#serve` is legal
        svc.methods.append(Method(True, rng.pick(["new", "serve"]), "off", None, []))
    calls = []
    for i, m in enumerate(svc.methods):
        if m.active():
            calls += [i] * (1 + rng.below(2))
    # shuffle
    for k in range(len(calls) - 1, 0, -1):
        j = rng.below(k + 1)
        calls[k], calls[j] = calls[j], calls[k]
    traces = set()
    for i in calls:
        used = set()
        vals = [gen_value(rng, a.ty, used) for a in svc.methods[i].args]
        while True:
            tr = 1 + rng.below(10**9)
            if tr not in traces:
                traces.add(tr); break
        svc.invokes.append((i, f"{tr}:{10000 + rng.below(50000)}", vals))
    return svc


def negatives(first_id):
    """The fixed catalogue of programs that must be rejected (note -> methods)."""
    P = lambda n, ty="u8", raw=False: Arg("p", raw, n, ty)
    M = lambda name, args=(), cfg="none", ret=None, raw=False: Method(raw, name, cfg, ret, list(args))
    cat = [
        ("reserved `new`", [M("ok"), M("new")]),
        ("reserved `serve` then `new`: both reported", [M("serve"), M("ok"), M("new", [P("a")])]),
        ("colliding manglings foo_bar / foo__bar", [M("foo_bar"), M("foo__bar")]),
        ("`self` receiver", [M("a", [Arg("s", False, "self", "u8"), P("x")])]),
        ("pattern argument", [M("a", [Arg("t", False, "-", "u8")])]),
        ("raw `r#new` clashes with Client::new", [M("ok"), M("new", raw=True)]),
        ("raw `r#serve` clashes with Trait::serve", [M("ok"), M("serve", raw=True)]),
        ("collision with one side removed by cfg (response enum keeps both)",
         [M("foo_bar", cfg="off"), M("foo__bar")]),
        ("raw and plain spelling of one name", [M("foo", raw=True), M("foo", cfg="off")]),
        ("case-only collision fooBar / foobar", [M("fooBar"), M("foobar")]),
        ("digit collision a_1 / a1", [M("a_1"), M("a1")]),
        ("leading/trailing underscore collision", [M("_get"), M("get_"), M("other")]),
        ("`&self` receiver", [M("a", [Arg("s", False, "refself", "u8")])]),
        ("`self: T` receiver", [M("a", [Arg("s", False, "typed", "u8")])]),
        ("wildcard pattern", [M("a", [P("x"), Arg("t", False, "_", "u8")])]),
        ("receiver and pattern in one method; later `new` is not reached",
         [M("a", [Arg("s", False, "self", "u8"), Arg("t", False, "-", "u8")]), M("new")]),
        ("`mut x` passes the parser, not rustc", [M("a", [Arg("d", False, "x", "u8")])]),
        ("`mut x` in a method removed by cfg is still a syntax error", [M("ok"), M("a", [Arg("d", False, "x", "u8")], cfg="off")]),
        ("argument named ctx", [M("a", [P("ctx")], ret="u8")]),
        ("duplicate argument names", [M("a", [P("x"), P("x", "String")])]),
        ("`__` mangles to the empty identifier", [M("ok"), M("__")]),
        ("`_1` mangles to `1`", [M("ok"), M("_1")]),
        ("`self_` mangles to the keyword Self", [M("ok"), M("self_")]),
        ("no methods", []),
        ("every method removed by cfg", [M("a", cfg="off"), M("b", [P("x")], cfg="off")]),
        ("reserved `new` in a method removed by cfg", [M("ok"), M("new", cfg="off")]),
        ("pattern in a method removed by cfg", [M("ok"), M("a", [Arg("t", False, "-", "u8")], cfg="off")]),
        ("`__` in a method removed by cfg", [M("ok"), M("__", cfg="off")]),
        ("`self_` in a method removed by cfg", [M("ok"), M("self_", cfg="off")]),
    ]
    out = []
    for k, (note, methods) in enumerate(cat):
        s = Svc(str(first_id + k), k % 5 == 4, f"Neg{k}", 0, "reject")
        s.methods = methods
        s.note = note
        out.append(s)
    return out


# ------------------------------------------------------------------ Rust emission

def rust_lit(ty, tok):
    if ty == "u8":
        return f"{tok}u8"
    if ty == "i32":
        return f"{tok}i32"
    if ty == "u64":
        return f"{tok}u64"
    if ty == "String":
        return f"{tok}.to_string()"
    if ty == "Vec<u8>":
        return f"vec!{tok}"
    return tok


def value_ok(ty, tok):
    import re
    try:
        if ty == "u8":
            return tok.isdigit() and int(tok) < 256
        if ty == "i32":
            return bool(re.fullmatch(r"-?\d+", tok)) and -2**31 <= int(tok) < 2**31
        if ty == "u64":
            return tok.isdigit() and int(tok) < 2**64
        if ty == "String":
            return bool(re.fullmatch(r'"[A-Za-z0-9_]*"', tok))
        if ty == "bool":
            return tok in ("true", "false")
        if ty == "()":
            return tok == "()"
        if ty == "Vec<u8>":
            return bool(re.fullmatch(r"\[(\d+(,\d+)*)?\]", tok)) and all(int(x) < 256 for x in re.findall(r"\d+", tok))
        if ty == "Option<u32>":
            m = re.fullmatch(r"Some\((\d+)\)", tok)
            return tok == "None" or (bool(m) and int(m.group(1)) < 2**32)
    except ValueError:
        return False
    return False


def emit_arg(a):
    if a.kind == "p":
        return f"{a.written()}: {a.ty}"
    if a.kind == "d":
        return f"mut {a.written()}: {a.ty}"
    if a.kind == "t":
        return f"_: {a.ty}" if a.name == "_" else f"(p, q): ({a.ty}, {a.ty})"
    return {"self": "self", "refself": "&self", "typed": f"self: {a.ty}"}.get(a.name, "self")


def emit_trait(s, indent="    "):
    out = [indent + DERIVES[s.derive % len(DERIVES)], f"{indent}pub trait {s.written()} {{"]
    for m in s.methods:
        if m.has_doc():
            out.append(f"{indent}    /// Method `{m.name}` of the generated program.")
        if m.cfg == "on":
            out.append(f"{indent}    #[cfg(all())]")
        elif m.cfg == "off":
            out.append(f"{indent}    #[cfg(any())]")
        ret = f" -> {m.ret}" if m.ret else ""
        out.append(f"{indent}    async fn {m.written()}({', '.join(emit_arg(a) for a in m.args)}){ret};")
    out.append(indent + "}")
    return out


RET_FN = {"u8": "ret_u8", "i32": "ret_i32", "u64": "ret_u64", "String": "ret_string", "bool": "ret_bool",
          "()": "ret_unit", "Vec<u8>": "ret_vec", "Option<u32>": "ret_opt"}

PRELUDE = r'''// GENERATED by tools/c17_gen.py; do not edit.
#![allow(non_snake_case, non_camel_case_types, non_upper_case_globals, unused_variables, unused_imports,
         unused_mut, dead_code, deprecated, clippy::all)]
use futures::prelude::*;
use std::fmt::Debug;
use std::sync::{Mutex, OnceLock};
use std::time::{Duration, Instant};
use tarpc::client::stub::Stub;
use tarpc::client::RpcError;
use tarpc::context::Context;
use tarpc::server::{BaseChannel, Channel};
use tarpc::RequestName;

static LOG: Mutex<Vec<String>> = Mutex::new(Vec::new());
static BASE: OnceLock<Instant> = OnceLock::new();

fn log(s: String) {
    LOG.lock().unwrap().push(s);
}
fn base() -> Instant {
    *BASE.get_or_init(tarpc::verif_hooks::now)
}
/// `Debug` without spaces: one token of the line protocol.
fn dbg<T: Debug>(t: &T) -> String {
    format!("{t:?}").replace(' ', "")
}
fn mk_ctx(trace: u128, ms: u64) -> Context {
    let mut c = tarpc::context::current();
    c.deadline = base() + Duration::from_millis(ms);
    c.trace_context.trace_id = trace.into();
    c
}
fn ctxs(c: &Context) -> String {
    format!("{}:{}", u128::from(*c.trace_id()), c.deadline.duration_since(base()).as_millis())
}
fn join(head: String, args: &[String]) -> String {
    if args.is_empty() { head } else { format!("{head} {}", args.join(" ")) }
}
/// FNV-1a-64 of `"<idx>:<arg>,<arg>.."`: the implementors' results are functions of (method, arguments).
fn key_hash(idx: usize, args: &[String]) -> u64 {
    let key = format!("{idx}:{}", args.join(","));
    let mut h: u64 = 14695981039346656037;
    for b in key.bytes() {
        h = (h ^ b as u64).wrapping_mul(1099511628211);
    }
    h
}
fn ret_u8(h: u64) -> u8 { h as u8 }
fn ret_i32(h: u64) -> i32 { h as u32 as i32 }
fn ret_u64(h: u64) -> u64 { h }
fn ret_string(h: u64) -> String { format!("s{h}") }
fn ret_bool(h: u64) -> bool { h & 1 == 1 }
fn ret_unit(_h: u64) {}
fn ret_vec(h: u64) -> Vec<u8> { h.to_le_bytes()[..3].to_vec() }
fn ret_opt(h: u64) -> Option<u32> { if h & 1 == 1 { Some((h >> 32) as u32) } else { None } }
/// What every implementor method does: record (method index, context, arguments in order, result).
fn ran<R: Debug>(idx: usize, c: &Context, args: &[String], r: &R) {
    log(join(format!("obs ran {idx} {} ret={}", ctxs(c), dbg(r)), args));
}

/// A stub that records the request the generated client method actually built, then forwards it.
struct Rec<S>(S);
impl<S: Stub> Stub for Rec<S>
where
    S::Req: Debug,
{
    type Req = S::Req;
    type Resp = S::Resp;
    async fn call(&self, ctx: Context, request: Self::Req) -> Result<Self::Resp, RpcError> {
        log(format!("obs name {}", request.name()));
        log(format!("obs request {}", dbg(&request)));
        self.0.call(ctx, request).await
    }
}
'''


def emit_pos_module(s):
    """One `expect=accept` service: trait, implementor, driver."""
    mod = f"s{s.id}"
    out = [f"mod {mod} {{", "    use super::*;"] + emit_trait(s)
    out += ["    #[derive(Clone)]", "    pub struct Impl;", f"    impl {s.written()} for Impl {{"]
    for i, m in enumerate(s.methods):
        if not m.active():
            continue
        params = "".join(f", p{j}: {a.ty}" for j, a in enumerate(m.args))
        ret = f" -> {m.ret}" if m.ret else ""
        dbgs = ", ".join(f"dbg(&p{j})" for j in range(len(m.args)))
        out += [f"        async fn {m.written()}(self, c: Context{params}){ret} {{",
                f"            let args: Vec<String> = vec![{dbgs}];",
                f"            let r = {RET_FN[m.ret or '()']}(key_hash({i}, &args));",
                f"            ran({i}, &c, &args, &r);",
                "            r", "        }"]
    out += ["    }", "    pub async fn run() {"]
    out.append(f"        log({json.dumps(s.header())}.to_string());")
    for i, m in enumerate(s.methods):
        out.append(f"        log({json.dumps(m.line())}.to_string());")
        out.append(f"        log(\"obs declared {i}\".to_string());")
    out += ['        log("op build".to_string());', '        log("obs accepted".to_string());',
            ] + (
            # every other service whose request/response types derive serde is reached through the shipped JSON
            # transport over an in-memory byte pipe (same observations: the clock is paused, transit takes no time)
            ["        let (a, b) = tokio::io::duplex(1 << 16);",
             "        let ct = tarpc::serde_transport::new(tokio_util::codec::Framed::new(a, "
             "tokio_util::codec::LengthDelimitedCodec::new()), tokio_serde::formats::Json::default());",
             "        let st = tarpc::serde_transport::new(tokio_util::codec::Framed::new(b, "
             "tokio_util::codec::LengthDelimitedCodec::new()), tokio_serde::formats::Json::default());"]
            if (s.derive % len(DERIVES)) in (0, 3, 6) and int(s.id) % 2 == 1 else
            ["        let (ct, st) = tarpc::transport::channel::unbounded();"]) + [
            "        tokio::spawn(BaseChannel::with_defaults(st).execute(Impl.serve())"
            ".for_each(|f| async move { tokio::spawn(f); }));",
            f"        let chan = tarpc::client::new(tarpc::client::Config::default(), ct).spawn();",
            # `.into()`, not `Client::from(..)`: an RPC method may itself be called `from`
            f"        let client: {s.name}Client<Rec<_>> = Rec(chan).into();"]
    for idx, ctx, vals in s.invokes:
        opline = " ".join(["op invoke", str(idx), ctx] + vals)
        out.append(f"        log({json.dumps(opline)}.to_string());")
        m = s.methods[idx] if 0 <= idx < len(s.methods) else None
        tr, _, ms = ctx.partition(":")
        if (m is None or not m.active() or len(vals) != len(m.args) or not tr.isdigit() or not ms.isdigit()):
            out.append('        log("obs noop".to_string());')
            continue
        if not all(value_ok(a.ty, v) for a, v in zip(m.args, vals)):
            raise ValueError(f"script {s.id}: invoke {idx}: argument tokens do not fit the method's types")
        out.append("        {")
        out.append(f"            let ctx = mk_ctx({tr}, {ms});")
        for j, (a, v) in enumerate(zip(m.args, vals)):
            out.append(f"            let a{j}: {a.ty} = {rust_lit(a.ty, v)};")
        dbgs = ", ".join(f"dbg(&a{j})" for j in range(len(vals)))
        head = f"obs called {idx} {int(s.raw)} {s.name} {int(m.raw)} {m.name}"
        out.append(f"            log(join(format!(\"{head} {{}}\", ctxs(&ctx)), &[{dbgs}]));")
        call_args = "".join(f", a{j}" for j in range(len(vals)))
        if m.name in SHADOWED:
            out.append(f"            match {s.name}Client::{m.written()}(&client, ctx{call_args}).await {{")
        else:
            out.append(f"            match client.{m.written()}(ctx{call_args}).await {{")
        out.append('                Ok(v) => log(format!("obs returned {}", dbg(&v))),')
        out.append('                Err(e) => log(format!("obs failed {}", dbg(&e))),')
        out.append("            }")
        out.append("        }")
    out += ["    }", "}"]
    return out


def emit_pos(svcs):
    out = [PRELUDE]
    for s in svcs:
        out += emit_pos_module(s)
    out += ["fn main() {",
            "    let rt = tokio::runtime::Builder::new_current_thread().enable_all().start_paused(true).build().unwrap();",
            "    rt.block_on(async {", "        base();"]
    out += [f"        s{s.id}::run().await;" for s in svcs]
    out += ["    });", "    let log = LOG.lock().unwrap();", "    for l in log.iter() {", '        println!("{l}");',
            "    }", "}", ""]
    return "\n".join(out)


def emit_neg(s):
    out = ["// GENERATED by tools/c17_gen.py; must NOT compile: " + s.note,
           "#![allow(non_snake_case, non_camel_case_types, unused_variables, dead_code)]"]
    out += emit_trait(s, indent="")
    out += ["fn main() {}", ""]
    return "\n".join(out)


CARGO_TOML = '''[package]
name = "c17-programs"
version = "0.0.0"
edition = "2021"
publish = false

[workspace]

[dependencies]
tarpc = { path = "/repo/tarpc", features = ["full", "verif-hooks"] }
tokio = { version = "1", features = ["rt", "macros", "time", "io-util", "test-util"] }
tokio-util = { version = "0.7.3", features = ["codec"] }
tokio-serde = { version = "0.9", features = ["json"] }
futures = "0.3"
serde = { version = "1.0", features = ["derive"] }

[profile.dev]
debug = 0
'''


def write_project(outdir, pos, neg, target_dir):
    outdir = Path(outdir)
    if (outdir / "src").exists():
        shutil.rmtree(outdir / "src")
    (outdir / "src" / "bin").mkdir(parents=True)
    (outdir / ".cargo").mkdir(exist_ok=True)
    (outdir / "Cargo.toml").write_text(CARGO_TOML)
    shutil.copy(f"{REPO}/Cargo.lock", outdir / "Cargo.lock")
    (outdir / ".cargo" / "config.toml").write_text(
        f'[net]\noffline = true\n\n[build]\ntarget-dir = "{target_dir}"\n')
    if pos:
        (outdir / "src" / "bin" / "pos.rs").write_text(emit_pos(pos))
    negs = []
    for s in neg:
        b = f"neg_{s.id}"
        (outdir / "src" / "bin" / f"{b}.rs").write_text(emit_neg(s))
        negs.append({"bin": b, "id": s.id, "note": s.note, "lines": [s.header()] + s.op_lines()})
    (outdir / "neg.json").write_text(json.dumps(negs, indent=1))
    lines = []
    for s in pos + neg:
        lines += [s.header()] + s.op_lines()
    (outdir / "scripts.txt").write_text("\n".join(lines) + "\n")


def write_single(outdir, s):
    """One positive service as its own binary (used to attribute a build failure of pos.rs)."""
    p = Path(outdir) / "src" / "bin" / f"one_{s.id}.rs"
    p.write_text(emit_pos([s]))
    return f"one_{s.id}"


def generate(seed, count, neg="all"):
    pos = [gen_service(Rng(seed * 1_000_003 + k), k) for k in range(count)]
    cat = negatives(count)
    if neg == "all":
        chosen = cat
    elif neg == "none":
        chosen = []
    else:
        n = int(neg)
        # the five the property names first, the rest rotating with the seed
        head, tail = cat[:5], cat[5:]
        chosen = head[:n]
        k = 0
        while len(chosen) < n and tail:
            chosen.append(tail[(seed + 7 * k) % len(tail)])
            tail = [t for t in tail if t is not chosen[-1]]
            k += 1
    return pos, chosen


def main(argv):
    pos_args = [a for a in argv if not a.startswith("--")]
    opts = dict(a[2:].split("=", 1) for a in argv if a.startswith("--") and "=" in a)
    if len(pos_args) != 3:
        print(__doc__)
        return 2
    seed, count, outdir = int(pos_args[0]), int(pos_args[1]), pos_args[2]
    target = opts.get("target-dir", "/verif/.cache/c17-target")
    if "scripts" in opts:
        svcs = parse_scripts(Path(opts["scripts"]).read_text())
        pos = [s for s in svcs if s.expect == "accept"]
        neg = [s for s in svcs if s.expect != "accept"]
    else:
        pos, neg = generate(seed, count, opts.get("neg", "all"))
    write_project(outdir, pos, neg, target)
    print(f"{len(pos)} services, {len(neg)} negative programs -> {outdir}")
    return 0


if __name__ == "__main__":
    sys.exit(main(sys.argv[1:]))

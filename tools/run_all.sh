#!/bin/bash
# run every claimed check (quick tier by default) on the current tree; summary at the end
cd /verif
tier=${1:-quick}
fail=0
for p in $(python3 -c "import json;print(' '.join(c['property_id'] for c in json.load(open('MANIFEST.json'))['checks']))"); do
  s=$(date +%s)
  out=$(./check $p --tier $tier 2>&1); rc=$?
  e=$(( $(date +%s) - s ))
  echo "$p rc=$rc ${e}s $(echo "$out" | grep -E 'VIOLATION|KNOWN-FINDING' | head -3 | tr '\n' '|')"
  [ $rc -ne 0 ] && fail=1
done
exit $fail

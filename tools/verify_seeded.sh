#!/bin/bash
# usage: verify_seeded.sh <worktree> <k> <seeded-id> <property>
# Confirms in the scratch worktree: demo passes without the patch, fails with it, the existing suite is
# unchanged with it; then stores patch.diff + demo + meta.json under /verif/seeded/<seeded-id>/.
set -u
W=$1; K=$2; ID=$3; PROP=$4
cd "$W" || exit 2
export CARGO_NET_OFFLINE=true
git checkout -q -- . ; git clean -fdq -e out -e PROPERTY.txt -e target
demo_name="demo_${K}"
run_demo() { cp "out/$K/demo.rs" "tarpc/tests/${demo_name}.rs"; cargo test -p tarpc --features full --test "$demo_name" --offline >"out/$K/verify_$1.log" 2>&1; echo $?; }
r_clean=$(run_demo clean)
git apply "out/$K/patch.diff" || { echo "$ID: patch does not apply"; exit 3; }
r_mut=$(run_demo mut)
rm -f "tarpc/tests/${demo_name}.rs"
cargo test --workspace --no-fail-fast --offline >"out/$K/verify_suite.log" 2>&1
failed=$(grep -E '^test .* FAILED' "out/$K/verify_suite.log" | grep -v -E 'test ui |^test result' | wc -l)
passed=$(grep -E '^test result: ok' "out/$K/verify_suite.log" | awk '{s+=$4} END {print s+0}')
git checkout -q -- . ; git clean -fdq -e out -e PROPERTY.txt -e target
echo "$ID: demo clean rc=$r_clean, demo mutated rc=$r_mut, suite with patch: $passed passed, $failed unexpected failures"
if [ "$r_clean" = "0" ] && [ "$r_mut" != "0" ] && [ "$failed" = "0" ]; then
  D=/verif/seeded/$ID; mkdir -p "$D"
  cp "out/$K/patch.diff" "$D/patch.diff"; cp "out/$K/demo.rs" "$D/demo.rs"; cp "out/$K/README.md" "$D/README.md"
  python3 - "$D" "$ID" "$PROP" "$passed" <<'PY'
import json,sys
d,i,p,passed=sys.argv[1:5]
readme=open(d+'/README.md').read()
json.dump({"id":i,"property":p,"needs":"see README.md (written by the sub-agent that produced the change)",
 "confirmed":{"demo_passes_without_patch":True,"demo_fails_with_patch":True,"existing_suite_with_patch":f"{passed} passed, only compile_fail::ui failing (as on the pristine tree)",
 "how":"tools/verify_seeded.sh in a scratch git worktree of /repo (cargo test -p tarpc --features full --test demo_k --offline; cargo test --workspace --no-fail-fast --offline)"}},
 open(d+'/meta.json','w'),indent=1)
PY
  echo "$ID: stored"
else
  echo "$ID: NOT confirmed"
fi

#!/usr/bin/env python3
"""Apply every stored seeded change (seeded/<id>/patch.diff) to /repo in turn, run the quick check of its own
property (and, when that does not produce a concrete failing input, every other property's check), revert, and
record what was reported in seeded/RESULTS.json.  Uses a separate cargo target dir and evidence dir so that the
regular binary and evidence stay those of the pristine tree.  usage: seeded_matrix.py [id ...]"""
import json, os, re, subprocess, sys
from pathlib import Path
V = Path("/verif"); S = V / "seeded"
env = dict(os.environ, VERIF_TARGET=str(V / ".cache/target-seeded"), VERIF_EVIDENCE_DIR=str(V / ".cache/evidence-seeded"))
ALL = [f"C{i:02d}" for i in range(1, 21)]
SYS = ["C02", "C01", "C03", "C04", "C05", "C06", "C08", "C09", "C10", "C11", "C12", "C14", "C16", "C18"]
OTHERS = {p: SYS for p in SYS}     # a change to client/server code is looked for by the system families only

def run(prop, widen=True):
    p = subprocess.run([str(V / "check"), prop], env=env if widen else dict(env, VERIF_NO_WIDEN="1"), stdout=subprocess.PIPE, stderr=subprocess.STDOUT, text=True, timeout=2400)
    lines = [l for l in p.stdout.splitlines() if l.startswith("VIOLATION") or l.startswith("# ")]
    concrete = any(l.startswith("VIOLATION") and "no-failing-input-found" not in l for l in lines)
    broken = any(l.startswith("VIOLATION") for l in lines)
    return {"rc": p.returncode, "concrete": concrete, "alarm": broken, "lines": [l[:300] for l in lines[:4]]}

def live(d):
    m = d / "meta.json"
    return (d / "patch.diff").exists() and not (m.exists() and json.loads(m.read_text()).get("status") == "obsolete")

ids = sys.argv[1:] or sorted(d.name for d in S.iterdir() if d.is_dir() and live(d))
res_path = S / "RESULTS.json"
res = json.loads(res_path.read_text()) if res_path.exists() else {}
assert subprocess.run(["git", "-C", "/repo", "status", "--porcelain"], capture_output=True, text=True).stdout.strip() == "", "/repo not clean"
for i in ids:
    prop = i.split("-")[0]
    if subprocess.run(["git", "-C", "/repo", "apply", str(S / i / "patch.diff")]).returncode != 0:
        res[i] = {"error": "patch does not apply to the current tree"}; continue
    try:
        r = {prop: run(prop)}
        if not r[prop]["concrete"]:
            for q in OTHERS.get(prop, ALL):
                if q != prop:
                    x = run(q, widen=False)
                    if x["alarm"]:
                        r[q] = x
        res[i] = r
    finally:
        subprocess.run(["git", "-C", "/repo", "checkout", "--", "."])
    own = res[i][prop]
    print(i, "own:", "concrete" if own["concrete"] else ("alarm-only" if own["alarm"] else "MISSED"),
          "others:", {q: ("concrete" if v["concrete"] else "alarm-only") for q, v in res[i].items() if q != prop}, flush=True)
    res_path.write_text(json.dumps(res, indent=1, sort_keys=True) + "\n")

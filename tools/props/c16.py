from vlib import trace, runner, sysprops


def only_panics(lines):
    return [l for l in lines if l.startswith("op ") or l.startswith("obs panic")]


FAMILIES = [
    trace.Family("c16dec", ["--scripts=150", "--len=30"], ["--scripts=6000", "--len=40"], project=only_panics,
                 nontrivial=lambda h, l: any("end=error" in x for x in l) and any("end=eof" in x for x in l),
                 rule="byte streams (valid encodings, mutated/truncated/spliced ones, random bytes, hand-written JSON with "
                      "boundary-valued fields such as secs=u64::MAX, oversize frame lengths) fed to the real "
                      "LengthDelimitedCodec + JSON/bincode decoders of serde_transport under catch_unwind, chunk sizes "
                      "1..4096; non-trivial = the script saw both a decode error and a clean end of stream"),
    trace.Family("c15bin", ["--scripts=200", "--len=40"], ["--scripts=8000", "--len=40"],
                 nontrivial=lambda h, l: any(x.startswith("obs error") for x in l) and any(x.startswith("obs msg") for x in l),
                 rule="bincode reader of ClientMessage/Response on valid, mutated and boundary-valued encodings incl. "
                      "durations up to u64::MAX seconds; model predicts message / error / (no) panic exactly"),
    trace.Family("c16stub", ["--scripts=20", "--len=12"], ["--scripts=300", "--len=20"],
                 nontrivial=lambda h, l: any(x.startswith("obs stub err:InvalidData") or x.startswith("obs stub panic") for x in l)
                 and any(x == "obs stub ok" for x in l),
                 rule="a real macro-generated client (three-method probe service) whose peer answers each call with the "
                      "right variant, another method's variant or a server error; the stub's outcome (value / error / panic) "
                      "is predicted by the model from the translated shape of the fallback arm, and a follow-up call must "
                      "be served; non-trivial = the script saw a mismatched and a matching answer"),
] + sysprops.families("C16")

ASSUMPTIONS = sysprops.COMMON_ASSUMPTIONS + [
    "absence of panics inside serde_json / bincode / LengthDelimitedCodec on arbitrary bytes is tested (c16dec), not proved",
    "the system families run without a subscriber (sub=0), with a formatting subscriber (sub=1) and with an OpenTelemetry subscriber (sub=2, SDK tracer without exporter)",
    "virtual time stays below 2^35 ms (397 days) in generated scripts; beyond it see the known finding timer-wheel-lag",
]

PARTIAL = [
    "third-party decoders: robustness runs only",
]


def run(tier, seed, replay):
    return runner.run_trace_property("C16", FAMILIES, tier, seed, replay, assumptions=ASSUMPTIONS, partial=PARTIAL,
                                     signatures=sysprops.SIGNATURES)

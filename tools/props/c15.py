from vlib import trace, runner


def nt_bin(header, lines):
    return (any(l.startswith("obs roundtrip") and "err:" in l for l in lines)
            and any(l.startswith("obs msg") for l in lines)
            and any(l.startswith("obs error") for l in lines))


FAMILIES = [
    trace.Family("c15bin", ["--scripts=400", "--len=40"], ["--scripts=20000", "--len=40"], nontrivial=nt_bin,
                 rule="scripts 0,1 = fixed boundary suite (boundary ids, every stable io::ErrorKind, length-prefix edges, "
                      "non-canonical varints, reader errors); rest random enc/dec ops with str and u64 bodies; "
                      "non-trivial = contains a round trip of an error response, a decode to a message and a decode error"),
]

ASSUMPTIONS = [
    "bincode 1.3 DefaultOptions / serde derive schema as modelled (validated byte-exactly by the correspondence runs)",
    "64-bit usize; process uptime < 2^40 s (Instant + Duration overflow band excluded; that panic is C16's subject)",
    "message bodies satisfy the prefix-free round-trip hypothesis (String and u64 instances proved)",
]

PARTIAL = [
    "JSON text-level round trip is covered by correspondence only (no Lean JSON parser yet)",
]


def run(tier, seed, replay):
    return runner.run_trace_property("C15", FAMILIES, tier, seed, replay, assumptions=ASSUMPTIONS, partial=PARTIAL)

from vlib import trace, runner


def nt_bin(header, lines):
    return (any(l.startswith("obs roundtrip") and "err:" in l for l in lines)
            and any(l.startswith("obs msg") for l in lines)
            and any(l.startswith("obs error") for l in lines))


def nt_json(header, lines):
    # ... and a document the reader is obliged to understand (dec-must) with an optional member left out
    # (no trace_context in a cancellation / no deadline in a request), answered with a message
    def omitted(l):
        t = l.split()
        if t[:3] != ["op", "dec-must", "cm"] or len(t) < 4:
            return False
        try:
            doc = bytes.fromhex(t[3])
        except ValueError:
            return False
        return (b'"Cancel"' in doc and b'"trace_context"' not in doc) or (b'"Request"' in doc and b'"deadline"' not in doc)
    return nt_bin(header, lines) and any(omitted(l) for l in lines)


def nt_frame(header, lines):
    frames = sum(1 for l in lines if l.startswith("obs frame"))
    mid = False
    for a, b in zip(lines, lines[1:]):
        if a.startswith("obs fed ") and a.strip() != "obs fed -" and not (b.startswith("obs frame") or b.startswith("obs error")):
            mid = True
    end = any(l.startswith("obs eof") or l.startswith("obs error") for l in lines)
    return frames >= 2 and mid and end


def nt_e2e(header, lines):
    return sum(1 for l in lines if l.startswith("obs recv")) >= 3 and any(l.startswith("obs eof") for l in lines)


FAMILIES = [
    trace.Family("c15bin", ["--scripts=400", "--len=40"], ["--scripts=20000", "--len=40"], nontrivial=nt_bin,
                 rule="scripts 0,1 = fixed boundary suite (boundary ids, every stable io::ErrorKind, length-prefix edges, "
                      "non-canonical varints, reader errors); rest random enc/dec ops with str and u64 bodies; "
                      "non-trivial = contains a round trip of an error response, a decode to a message and a decode error"),
    trace.Family("c15json", ["--scripts=400", "--len=40"], ["--scripts=20000", "--len=40"], nontrivial=nt_json,
                 rule="script 0 = fixed suite (boundary ids, every stable io::ErrorKind, every ASCII byte in a body, long strings, "
                      "hand-written documents for each reader rule incl. those of the Lean examples); rest random: enc of messages "
                      "with escape-heavy/unicode bodies, dec of real encodings, of hand-assembled documents (member order, whitespace, "
                      "omitted defaulted members, unknown members with arbitrary values incl. floats / non-Unicode strings / nesting "
                      "> 128, \\u escapes and surrogate pairs, structs as arrays, unit variant as map; missing / repeated members, "
                      "wrong types, out-of-range and non-integer numbers, bad variants, non-UTF-8), of byte-level mutations of both, "
                      "of the other type's documents and of random bytes; dec-must ops (fixed suite and ~12% of random ops): documents "
                      "the property obliges the reader to understand, built from a random message with the real member names and "
                      "value forms, where a cancellation's trace_context / a context's deadline is left out half of the time, the "
                      "members of every object are shuffled half of the time and whitespace is put between tokens half of the time, "
                      "together with the message the document stands for (defaults filled in) - the monitor rejects error / panic / "
                      "another message; non-trivial = contains a round trip of an error response, a decode to a message, a decode "
                      "error and a dec-must document with an optional member left out"),
    trace.Family("c15frame", ["--scripts=1000", "--len=40"], ["--scripts=20000", "--len=60"], nontrivial=nt_frame,
                 rule="real FramedRead<LengthDelimitedCodec> fed PRNG-chosen chunks (0- and 1-byte chunks, stutter Pendings, "
                      "cuts inside header/body, oversize lengths); non-trivial = >= 2 frames, a chunk ending mid-frame, and an eof/error"),
    trace.Family("c15e2e", ["--scripts=1000", "--len=40"], ["--scripts=8000", "--len=60"], nontrivial=nt_e2e,
                 rule="real serde_transport (bincode, json) over a fragmenting duplex and the in-memory bounded/unbounded "
                      "channels: send/flush/recv/close/drop in PRNG order; non-trivial = >= 3 messages received and an eof"),
]

ASSUMPTIONS = [
    "bincode 1.3 DefaultOptions / serde derive schema as modelled (validated byte-exactly by the correspondence runs)",
    "64-bit usize; process uptime < 2^40 s (Instant + Duration overflow band excluded; that panic is C16's subject)",
    "message bodies satisfy the prefix-free round-trip hypothesis (String and u64 instances proved)",
    "serde_json 1.0 compact writer / reader grammar and the serde derive JSON schema as modelled in Wire/Json.lean "
    "(validated byte-exactly by the c15json correspondence runs; no float or signed integer occurs in the schema)",
    "c15json generator limits: no digit run with a value in [2^63 - 2^40 - 8, 2^63) (Instant overflow band, as for bincode); "
    "nesting of skipped values <= 1000 (serde_json skips iteratively without limit, the Lean parser recurses)",
]

PARTIAL = [
    "JSON: the round trip is proved at text level for every value and for both message types (Props/C15Json.lean); that the "
    "Lean parser accepts exactly what serde_json accepts on documents the writer does not produce (malformed or "
    "foreign-writer input) is validated by the c15json correspondence runs, not proved",
    "monitor-acceptance theorems exist for neither the frame nor the pipe monitor (validated empirically); the stream "
    "theorems are stated directly on the decoder/queue models",
]


def run(tier, seed, replay):
    return runner.run_trace_property("C15", FAMILIES, tier, seed, replay, assumptions=ASSUMPTIONS, partial=PARTIAL)

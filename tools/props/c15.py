from vlib import trace, runner


def nt_bin(header, lines):
    return (any(l.startswith("obs roundtrip") and "err:" in l for l in lines)
            and any(l.startswith("obs msg") for l in lines)
            and any(l.startswith("obs error") for l in lines))


def nt_frame(header, lines):
    frames = sum(1 for l in lines if l.startswith("obs frame"))
    mid = False
    for a, b in zip(lines, lines[1:]):
        if a.startswith("obs fed ") and a.strip() != "obs fed -" and not (b.startswith("obs frame") or b.startswith("obs error")):
            mid = True
    end = any(l.startswith("obs eof") or l.startswith("obs error") for l in lines)
    return frames >= 2 and mid and end


def nt_e2e(header, lines):
    return sum(1 for l in lines if l.startswith("obs recv")) >= 3 and any(l.startswith("obs eof") for l in lines)


FAMILIES = [
    trace.Family("c15bin", ["--scripts=400", "--len=40"], ["--scripts=20000", "--len=40"], nontrivial=nt_bin,
                 rule="scripts 0,1 = fixed boundary suite (boundary ids, every stable io::ErrorKind, length-prefix edges, "
                      "non-canonical varints, reader errors); rest random enc/dec ops with str and u64 bodies; "
                      "non-trivial = contains a round trip of an error response, a decode to a message and a decode error"),
    trace.Family("c15frame", ["--scripts=1000", "--len=40"], ["--scripts=20000", "--len=60"], nontrivial=nt_frame,
                 rule="real FramedRead<LengthDelimitedCodec> fed PRNG-chosen chunks (0- and 1-byte chunks, stutter Pendings, "
                      "cuts inside header/body, oversize lengths); non-trivial = >= 2 frames, a chunk ending mid-frame, and an eof/error"),
    trace.Family("c15e2e", ["--scripts=1000", "--len=40"], ["--scripts=8000", "--len=60"], nontrivial=nt_e2e,
                 rule="real serde_transport (bincode, json) over a fragmenting duplex and the in-memory bounded/unbounded "
                      "channels: send/flush/recv/close/drop in PRNG order; non-trivial = >= 3 messages received and an eof"),
]

ASSUMPTIONS = [
    "bincode 1.3 DefaultOptions / serde derive schema as modelled (validated byte-exactly by the correspondence runs)",
    "64-bit usize; process uptime < 2^40 s (Instant + Duration overflow band excluded; that panic is C16's subject)",
    "message bodies satisfy the prefix-free round-trip hypothesis (String and u64 instances proved)",
]

PARTIAL = [
    "JSON text-level round trip is covered by correspondence only (no Lean JSON parser): the c15e2e family sends every "
    "message kind through the real JSON codec and compares what arrives",
    "monitor-acceptance theorems exist for neither the frame nor the pipe monitor (validated empirically); the stream "
    "theorems are stated directly on the decoder/queue models",
]


def run(tier, seed, replay):
    return runner.run_trace_property("C15", FAMILIES, tier, seed, replay, assumptions=ASSUMPTIONS, partial=PARTIAL)

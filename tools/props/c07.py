from vlib import trace, runner


def _kv(tokens):
    return dict(t.split("=", 1) for t in tokens if "=" in t)


def nontrivial(header, lines):
    # a serialised hop with transit > 0 and a live deadline, one whose deadline had already passed when it was
    # written (it must arrive as "now"), and one request without a deadline field (the default)
    transit = expired = default = False
    for l in lines:
        t = l.split()
        if t[:2] == ["obs", "deadline"] and len(t) >= 7:
            kv = _kv(t[3:])
            try:
                d, s, r = int(kv["d"]), int(kv["send"]), int(kv["recv"])
            except (KeyError, ValueError):
                continue
            if kv.get("codec") in ("json", "bincode"):
                if r > s and d >= s:
                    transit = True
                if d < s:
                    expired = True
        elif t[:2] == ["obs", "default"]:
            default = True
    return transit and expired and default


def _retry_project(lines):
    # of the c20retry traces C07 compares the deadlines only, relative to the call they belong to: the budget the
    # caller gave (deadline - start instant) and by how much each attempt's deadline differs from the caller's
    # (a run of attempts with the same shift counts once).  How many attempts there are, and hence at which
    # instant later calls of the script start, is C20's business.
    out = []
    base = None
    for l in lines:
        t = l.split()
        if t[:1] == ["op"]:
            out.append(l)
        elif t[:2] in (["obs", "start"], ["obs", "attempt"]):
            kv = _kv(t[3:])
            try:
                d = int(kv["deadline"])
                if t[1] == "start":
                    base = d
                    x = f"obs start budget={d - int(kv['at'])}"
                else:
                    x = f"obs attempt shift={d - base}"
            except (KeyError, ValueError, TypeError):
                x = l
            if not (t[1] == "attempt" and out and out[-1] == x):
                out.append(x)
    return out


def nontrivial_retry(header, lines):
    # a retried call whose later attempt was made after virtual time had passed since the call started
    # (so that a deadline re-based on the retry instant would differ from the caller's)
    start = None
    for l in lines:
        t = l.split()
        if t[:2] == ["obs", "start"]:
            start = _kv(t[3:]).get("at")
        elif t[:2] == ["obs", "attempt"] and start is not None:
            try:
                if int(t[2]) >= 2 and int(_kv(t[3:])["at"]) > int(start):
                    return True
            except (KeyError, ValueError):
                continue
    return False


FAMILIES = [trace.Family(
    "c07", ["--scripts=400", "--len=14"], ["--scripts=20000", "--len=14"],
    nontrivial=nontrivial,
    rule="random scripts of codec-level hops (json/bincode through the tokio-serde codec objects or bare Context through "
         "serde_json/bincode::DefaultOptions; in-memory channel), JSON requests with the deadline field deleted, and "
         "chains of 1-3 real client+BaseChannel hops (json/bincode over duplex+LengthDelimitedCodec, in-memory) with "
         "random transit/work delays, handlers spawned or run inline; remaining durations from already-passed, 0, 1 ns "
         "up to ~95 years; non-trivial = a serialised hop with transit>0, an already-expired deadline and a default in "
         "the same script; distinct by op sequence"),
    trace.Family(
        "c20retry", ["--scripts=300", "--len=40"], ["--scripts=15000", "--len=60"],
        project=_retry_project, nontrivial=nontrivial_retry,
        rule="a nested call issued through the real Retry stub (family c20retry of C20, projected to the caller's "
             "context and the context the backend stub receives at every attempt): callers' deadlines from 0 ns to "
             "30 days after the call, backend answers that take 0 ns .. 3 s of virtual time each, any number of "
             "retries; every attempt must carry the caller's deadline itself (monitor rule tagged [C07]); "
             "non-trivial = an attempt >= 2 made later than the call started")]

ASSUMPTIONS = [
    "tarpc reads time only through verif_hooks::now() (cargo feature verif-hooks) = tokio's paused clock; synchronous "
    "calls take zero virtual time, so the serialisation instant is the transport's start_send and the deserialisation "
    "instant is the poll_next that yields the request (both measured by a pass-through transport wrapper)",
    "one virtual clock for every hop in the harness; independence from clock skew between hosts is the theorem "
    "C07_skew_free, not an experiment",
    "time is Nat nanoseconds: Duration's wire encodings are exact (C15) and Instant + Duration does not overflow (C16); "
    "generated remaining durations stay below ~95 years at codec level and 30 days in chains (DelayQueue range)",
    "the handler's observation point is the context of the request yielded by Channel::requests(); when the handler "
    "body runs, the ctx it receives is compared with it (a difference prints an obs line the model never produces)",
    "the span-scoped deadline returned by context::current() inside a handler needs a tracing-opentelemetry subscriber "
    "and is not exercised",
    "c20retry: the backend stub behind Retry is a mock that records the Context it is called with (in memory: the "
    "very same Instant must arrive); the hop from that stub to a server is the c07 family's subject",
]


def run(tier, seed, replay):
    return runner.run_trace_property("C07", FAMILIES, tier, seed, replay, assumptions=ASSUMPTIONS)

from vlib import runner, sysprops

PARTIAL = ['server: while the limiter is at its limit and the sink is not ready, cancellations and expirations are not processed (known finding)']


def run(tier, seed, replay):
    return runner.run_trace_property("C11", sysprops.families("C11", ('cli', 'srv')), tier, seed, replay,
                                     assumptions=sysprops.COMMON_ASSUMPTIONS + [], partial=PARTIAL,
                                     signatures=sysprops.SIGNATURES)

from vlib import runner, sysprops

PARTIAL = [
    'the full client monitor (bound, table = timers, reclaimed once every call is resolved or dropped) is proved to accept every model trace with pairwise distinct call bodies and caller-chosen span ids (C11_monitor_full_accepts); without those two hypotheses C11_monitor_full_Statement stays a def',
    'known finding: limiter stall leaves the server table above the yielded-and-unfinished requests',
]


def run(tier, seed, replay):
    return runner.run_trace_property("C11", sysprops.families("C11", ('cli', 'srv')), tier, seed, replay,
                                     assumptions=sysprops.COMMON_ASSUMPTIONS + [], partial=PARTIAL,
                                     signatures=sysprops.SIGNATURES)

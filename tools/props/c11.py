from vlib import runner, sysprops

PARTIAL = [
    'reclaim clause of the client monitor (table empty once every call resolved or dropped and the transport was writable): def C11_monitor_full_Statement, monitor only',
    'known finding: limiter stall leaves the server table above the yielded-and-unfinished requests',
]


def run(tier, seed, replay):
    return runner.run_trace_property("C11", sysprops.families("C11", ('cli', 'srv')), tier, seed, replay,
                                     assumptions=sysprops.COMMON_ASSUMPTIONS + [], partial=PARTIAL,
                                     signatures=sysprops.SIGNATURES)

from vlib import runner, sysprops

PARTIAL = [
    'ids, counters and time are unbounded Nat in the model: wrap-around of the 64-bit request id after 2^64 calls is outside the theorems',
]


def run(tier, seed, replay):
    return runner.run_trace_property("C01", sysprops.families("C01", ('cli',)), tier, seed, replay,
                                     assumptions=sysprops.COMMON_ASSUMPTIONS + [], partial=PARTIAL,
                                     signatures=sysprops.SIGNATURES)

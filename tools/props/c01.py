from vlib import runner, sysprops

PARTIAL = ['the run-level monitor-acceptance theorem may be partial; see evidence.theorems']


def run(tier, seed, replay):
    return runner.run_trace_property("C01", sysprops.families("C01", ('cli',)), tier, seed, replay,
                                     assumptions=sysprops.COMMON_ASSUMPTIONS + [], partial=PARTIAL,
                                     signatures=sysprops.SIGNATURES)

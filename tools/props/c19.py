from vlib import trace, runner


def _calls(lines):
    """Splits the lines of a script into calls: (tree token, [obs lines])."""
    calls = []
    for l in lines:
        t = l.split()
        if len(t) >= 3 and t[0] == "op" and t[1] == "hooks":
            calls.append((t[2], []))
        elif calls and t and t[0] == "obs":
            calls[-1][1].append(t[1:])
    return calls


def nontrivial(header, lines):
    # some call goes through a stack of depth >= 2 in which a before-hook failed underneath an after /
    # before-and-after wrapper (the after-hook then ran and was shown the error), and some call of depth
    # >= 2 ran at least two before-hooks, the handler and an after-hook (context threading + response edit)
    short_circuit, full = False, False
    for tree, obs in _calls(lines):
        if tree.count("/") < 2:
            continue
        kinds = [o[0] for o in obs]
        failed = [i for i, o in enumerate(obs) if o[0] == "before" and o[-1] == "fail"]
        if failed and "after" in kinds[failed[0] + 1:] and "handler" not in kinds:
            short_circuit = True
        if not failed and kinds.count("before") >= 2 and "handler" in kinds and "after" in kinds:
            full = True
    return short_circuit and full


FAMILIES = [trace.Family(
    "c19", ["--scripts=300", "--len=8"], ["--scripts=15000", "--len=8"],
    nontrivial=nontrivial,
    rule="each op builds a random stack (0-5 wrappers: before / after / before_and_after / "
         "before().then(..)*.serving / .before(list), lists of 0-4 hooks; random failing positions, context "
         "edits keep/add/set, response edits keep/ok/err) of the real combinators and serves one request; "
         "non-trivial = the script has a call of depth >= 2 where a before-hook failed under an after wrapper "
         "(after-hook ran, handler did not) and a call of depth >= 2 with >= 2 before-hooks, the handler and an "
         "after-hook all running; distinct by op sequence")]

ASSUMPTIONS = [
    "the request context is observed through one field (trace_context.span_id as a number); hooks edit only that field",
    "scripted hooks complete immediately (no Pending inside a hook); hook order does not depend on polling",
    "a ServerError is identified by its detail string (the failing hook's tag); io::ErrorKind is fixed to Other",
    "cons-lists of length 0..4 built with before().then(..) stand for lists of every length (the Lean theorems "
    "are by induction over the list; the harness cannot build unbounded static types)",
    "a failing before-hook's own context edit and an after-hook's context edit are performed by the harness "
    "hooks but not modelled as observable (theorem C19_after_ctx_edit_unobservable; the model ignores both)",
]


def run(tier, seed, replay):
    return runner.run_trace_property("C19", FAMILIES, tier, seed, replay, assumptions=ASSUMPTIONS)

from vlib import runner, sysprops

PARTIAL = ['the liveness clause (cancel owed after a writable dispatch poll) is checked by the monitor on every trace; its Lean statement may be a def …Statement']


def run(tier, seed, replay):
    return runner.run_trace_property("C03", sysprops.families("C03", ('cli',)), tier, seed, replay,
                                     assumptions=sysprops.COMMON_ASSUMPTIONS + ["the guard's drop is interleaved with the dispatch only at the three hook yield points"], partial=PARTIAL,
                                     signatures=sysprops.SIGNATURES)

from vlib import runner, sysprops

PARTIAL = [
    'third clause (cancel owed after a writable dispatch poll that goes idle): proved as C03_cancel_owed (Props/C03Full.lean) for scripts with pairwise distinct call bodies and caller-chosen span ids (how the monitor tells requests apart); the earlier form that also judged a *completing* dispatch was false on the model (C03_full_statement_readyOk_false) and was dropped from the monitor',
]


def run(tier, seed, replay):
    return runner.run_trace_property("C03", sysprops.families("C03", ('cli',)), tier, seed, replay,
                                     assumptions=sysprops.COMMON_ASSUMPTIONS + ["the guard's drop is interleaved with the dispatch only at the three hook yield points"], partial=PARTIAL,
                                     signatures=sysprops.SIGNATURES)

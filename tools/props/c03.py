from vlib import runner, sysprops

PARTIAL = [
    'third clause (after a dispatch poll during which the transport stayed writable every abandoned, transmitted, unfinished call has its cancel on the wire): kept as def C03FullStatement, decided by the monitor on every implementation trace, not proved',
]


def run(tier, seed, replay):
    return runner.run_trace_property("C03", sysprops.families("C03", ('cli',)), tier, seed, replay,
                                     assumptions=sysprops.COMMON_ASSUMPTIONS + ["the guard's drop is interleaved with the dispatch only at the three hook yield points"], partial=PARTIAL,
                                     signatures=sysprops.SIGNATURES)

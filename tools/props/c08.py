from vlib import runner, sysprops

PARTIAL = [
    "monitor-acceptance is proved for the server model's traces (Lemmas/ServerTrace.lean); id re-use right after cancel/expiry is outside the quantifier",
]


def run(tier, seed, replay):
    return runner.run_trace_property("C08", sysprops.families("C08", ('srv',)), tier, seed, replay,
                                     assumptions=sysprops.COMMON_ASSUMPTIONS + ['ids re-used only after completion or while certainly in flight'], partial=PARTIAL,
                                     signatures=sysprops.SIGNATURES)

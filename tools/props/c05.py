from vlib import runner, sysprops

PARTIAL = [
    'not-late is proved at state level (Props/C05NotLate.lean: after a dispatch poll that goes idle no in-flight request has its timer tick at or before now, and the wake-up is armed no later than the earliest tick; in deadline terms C05_idle_deadline_tick) for op sequences whose clock stays below 2^35 ms; the monitor form (C05_monitor_bounded_Statement) needs the book/in-flight ownership coupling and is not proved; beyond the clock bound it is false (known finding timer-wheel-lag, C05_wheel_lag_witness)',
]


def run(tier, seed, replay):
    return runner.run_trace_property("C05", sysprops.families("C05", ('cli',)), tier, seed, replay,
                                     assumptions=sysprops.COMMON_ASSUMPTIONS + ["deadlines within the timer's supported span (2^36 - 1 ms); timer granularity 1 ms"], partial=PARTIAL,
                                     signatures=sysprops.SIGNATURES)

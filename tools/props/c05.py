from vlib import runner, sysprops

PARTIAL = [
    'not-late clause (a call is failed by the first dispatch poll at or after its timer tick): monitor + exact correspondence only; the Lean statement C05_monitor_full_Statement needs completeness of the timer-wheel emulation (in progress: Props/C05DelayQ.lean)',
]


def run(tier, seed, replay):
    return runner.run_trace_property("C05", sysprops.families("C05", ('cli',)), tier, seed, replay,
                                     assumptions=sysprops.COMMON_ASSUMPTIONS + ["deadlines within the timer's supported span (2^36 - 1 ms); timer granularity 1 ms"], partial=PARTIAL,
                                     signatures=sysprops.SIGNATURES)

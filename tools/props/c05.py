from vlib import runner, sysprops

PARTIAL = []


def run(tier, seed, replay):
    return runner.run_trace_property("C05", sysprops.families("C05", ('cli',)), tier, seed, replay,
                                     assumptions=sysprops.COMMON_ASSUMPTIONS + ["deadlines within the timer's supported span (2^36 - 1 ms); timer granularity 1 ms"], partial=PARTIAL,
                                     signatures=sysprops.SIGNATURES)

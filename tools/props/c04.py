from vlib import runner, sysprops

PARTIAL = ['cascade over service chains (depth 2-3): by induction from C03 + this property; exercised end-to-end only by the C07 chain family']


def run(tier, seed, replay):
    return runner.run_trace_property("C04", sysprops.families("C04", ('srv', 'chain')), tier, seed, replay,
                                     assumptions=sysprops.COMMON_ASSUMPTIONS + ['ids are not re-used after cancellation/expiry while a stale response may be buffered (outside the quantifier)'], partial=PARTIAL,
                                     signatures=sysprops.SIGNATURES)

from vlib import runner, sysprops

PARTIAL = [
    'cascade over service chains (depth 2-3): proved on the abstract chain model by induction; the real chains are exercised by the chain family only',
    "id re-use right after a cancellation/expiry while the first handler's response is still buffered is outside the quantifier and exempted",
]


def run(tier, seed, replay):
    return runner.run_trace_property("C04", sysprops.families("C04", ('srv', 'chain')), tier, seed, replay,
                                     assumptions=sysprops.COMMON_ASSUMPTIONS + ['ids are not re-used after cancellation/expiry while a stale response may be buffered (outside the quantifier)'], partial=PARTIAL,
                                     signatures=sysprops.SIGNATURES)

"""C17 — generated service glue connects each method to itself.

Two families:
  c17camel  harness binary: the real `snake_to_camel` (text extracted from the macro crate by
            harness/build.rs) against `TarpcModel.Macro.snakeToCamel` on PRNG identifiers;
  c17svc    generated cargo project of real `#[tarpc::service]` expansions (tools/c17_gen.py, run by
            tools/vlib/c17_extra.py): every generated client method is called through a real in-memory
            client/server pair and the program's own observations (request name, request Debug, what the
            implementor recorded, what the caller got) are compared with the model's prediction; programs
            that must be rejected are checked to fail `cargo check` in the class the model predicts.
"""
from vlib import trace, runner, c17_extra


def camel_nontrivial(header, lines):
    ids = [l.split()[2] for l in lines if l.startswith("op camel ") and len(l.split()) > 2]
    return (any("__" in i for i in ids) and any(i.startswith("_") for i in ids) and any(i.endswith("_") for i in ids)
            and any(i != i.lower() and i != i.upper() for i in ids) and any(c.isdigit() for i in ids for c in i))


def svc_nontrivial(header, lines):
    # a call that went through the glue and came back, or a rejected program with its class
    return any(l.startswith("obs returned") for l in lines) or any(l.startswith("obs rejected") for l in lines)


FAMILIES = [
    trace.Family(
        "c17camel", ["--scripts=400", "--len=60"], ["--scripts=4000", "--len=100"], nontrivial=camel_nontrivial,
        rule="PRNG identifiers over [A-Za-z0-9_] (leading/trailing/double underscores, mixed case, digits, single "
             "characters) through the real snake_to_camel; non-trivial = the script has double, leading and trailing "
             "underscores, mixed case and a digit; distinct by op sequence"),
    trace.Family(
        "c17svc", ["--services=6", "--neg=3"], ["--services=60", "--neg=all"], nontrivial=svc_nontrivial,
        rule="PRNG service definitions (1-6 methods, 0-4 args over 8 types, default/explicit return, raw identifiers, "
             "underscores and mixed case, cfg(all())/cfg(any()), doc attrs, 7 derive options) compiled with the real "
             "macro and every surviving method called once or twice with pairwise-distinct arguments; plus the "
             "catalogue of programs that must be rejected; non-trivial = a completed call or a classified "
             "rejection; distinct by op sequence"),
]

ASSUMPTIONS = [
    "rustc's checks on the expansion are the explicit predicate TarpcModel.Macro.rustcOk (trusted; each clause "
    "reproduced by a negative program): some method survives cfg, variant names distinct over all methods, no "
    "variant `Self`, bare-identifier args, surviving methods not named like generated fns, distinct arg names, none "
    "`ctx`",
    "identifiers over ASCII [A-Za-z0-9_] (Char.toUpper/toLower agree with Rust's to_uppercase/to_lowercase there); "
    "non-ASCII identifiers are outside the model",
    "the channel carries request and context unchanged between client stub and server arm (in-memory transport; "
    "C01-C12 cover the channel); only trace id and deadline of the context are compared (the span id is re-rolled "
    "by the client by design)",
    "collisions of the *service* identifier with generated items or generic parameters (e.g. a trait named `S`) are "
    "outside C17, which is about method names",
]


def run(tier, seed, replay):
    c17_extra.install()
    return runner.run_trace_property("C17", FAMILIES, tier, seed, replay, assumptions=ASSUMPTIONS)

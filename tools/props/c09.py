from vlib import runner, sysprops

PARTIAL = []


def run(tier, seed, replay):
    return runner.run_trace_property("C09", sysprops.families("C09", ('cli', 'srv')), tier, seed, replay,
                                     assumptions=sysprops.COMMON_ASSUMPTIONS + ['an executor drops a completed dispatch future / the application stops at the first error item (as Requests::execute does)'], partial=PARTIAL,
                                     signatures=sysprops.SIGNATURES)

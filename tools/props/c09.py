from vlib import runner, sysprops

PARTIAL = [
    'server side: the theorems are state-level (failure tag, done => dropped, drop aborts all); acceptance of the server C09 monitor on every model trace is not proved (validated by correspondence)',
    'no-panic under faults holds for op sequences whose clock stays below 2^35 ms (known finding timer-wheel lag)',
]


def run(tier, seed, replay):
    return runner.run_trace_property("C09", sysprops.families("C09", ('cli', 'srv')), tier, seed, replay,
                                     assumptions=sysprops.COMMON_ASSUMPTIONS + ['an executor drops a completed dispatch future / the application stops at the first error item (as Requests::execute does)'], partial=PARTIAL,
                                     signatures=sysprops.SIGNATURES)

from vlib import runner, sysprops

PARTIAL = [
    'aborts-at-the-deadline clause: proved up to the last timer-queue poll of an idle-going channel poll reporting nothing expired (C06_aborts_at_deadline_partial); that this implies no tracked request is due needs completeness of the timer-wheel emulation (in progress)',
    'known finding: limiter at its limit and sink not ready (expirations unprocessed)',
]


def run(tier, seed, replay):
    return runner.run_trace_property("C06", sysprops.families("C06", ('srv',)), tier, seed, replay,
                                     assumptions=sysprops.COMMON_ASSUMPTIONS + ["deadlines within the timer's supported span; timer granularity 1 ms"], partial=PARTIAL,
                                     signatures=sysprops.SIGNATURES)

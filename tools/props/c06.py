from vlib import runner, sysprops

PARTIAL = [
    'aborts-at-the-deadline is proved at state level (Props/C06NotLate.lean: an idle basePollNext / an idle Requests::poll_next without a limit leaves no tracked entry with tick <= now) under the clock bound 2^35 ms; C06AbortsAtDeadlineStatement as first written is false for a benign reason (an abandoned request is removed by its queued guard cancellation without an abort) and is kept with its witness',
    'known finding: limiter at its limit and sink not ready (expirations unprocessed)',
]


def run(tier, seed, replay):
    return runner.run_trace_property("C06", sysprops.families("C06", ('srv',)), tier, seed, replay,
                                     assumptions=sysprops.COMMON_ASSUMPTIONS + ["deadlines within the timer's supported span; timer granularity 1 ms"], partial=PARTIAL,
                                     signatures=sysprops.SIGNATURES)

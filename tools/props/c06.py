from vlib import runner, sysprops

PARTIAL = ['known finding: limiter at its limit and sink not ready']


def run(tier, seed, replay):
    return runner.run_trace_property("C06", sysprops.families("C06", ('srv',)), tier, seed, replay,
                                     assumptions=sysprops.COMMON_ASSUMPTIONS + ["deadlines within the timer's supported span; timer granularity 1 ms"], partial=PARTIAL,
                                     signatures=sysprops.SIGNATURES)

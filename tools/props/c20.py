from vlib import trace, runner


def _param(header, name, dflt=0):
    for t in header.split():
        if t.startswith(name + "="):
            try:
                return int(t.split("=", 1)[1])
            except ValueError:
                return dflt
    return dflt


def _picks(lines):
    # obs picked <call id> <backend> <request>
    return [tuple(int(x) for x in l.split()[2:5]) for l in lines if l.startswith("obs picked ")]


def nontrivial_rr(header, lines):
    # the cursor went round all backends at least once, and calls were first-polled out of creation
    # order (concurrent calls taking tickets in an order different from the one they were issued in)
    n = _param(header, "n", 1)
    ids = [p[0] for p in _picks(lines)]
    return n >= 2 and len(ids) > n and ids != sorted(ids)


def _redispatched_after_failure(lines):
    # some request was dispatched to a backend that answered it with an error (mock told so by `set-result`)
    # and the same request value was dispatched again later
    failed = set()
    last = None
    for l in lines:
        t = l.split()
        if t[:2] == ["obs", "picked"] and len(t) == 5:
            if t[4] in failed:
                return True
            last = t[4]
        elif t[:2] == ["obs", "answered"] and len(t) == 4 and t[3] != "ok" and last is not None:
            failed.add(last)
    return False


def nontrivial_hash(header, lines):
    # an equal request was dispatched at least twice, at least two different backends were used, and a request
    # whose backend had answered it with an error was dispatched again
    picks = _picks(lines)
    reqs = [p[2] for p in picks]
    return len(set(reqs)) < len(reqs) and len({p[1] for p in picks}) >= 2 and _redispatched_after_failure(lines)


def nontrivial_retry(header, lines):
    # a call that was retried at least once and then returned, and a retry after an RpcError::Send answer
    second = any(l.startswith("obs policy ") and int(l.split()[2]) >= 2 for l in lines)
    after_send = any(l.startswith("obs policy ") and l.split()[3] == "send" and l.split()[-1] == "1" for l in lines)
    return second and after_send and any(l.startswith("obs ret ") for l in lines)


def _retry_project(lines):
    # C20 compares everything but the deadline values (which request, which attempt numbers, which results, which
    # trace context, when); that every attempt carries the caller's deadline is compared and monitored under C07
    return [" ".join(t for t in l.split() if not t.startswith("deadline=")) for l in lines]


FAMILIES = [
    trace.Family(
        "c20rr", ["--scripts=300", "--len=40"], ["--scripts=15000", "--len=60"],
        nontrivial=nontrivial_rr,
        rule="real RoundRobin (two clones sharing one cursor) over n in 1..5 recording mock backends (n=0 in ~2% "
             "of scripts: panic recorded, outside the property); random create / first-poll / drop-unpolled ops, "
             "first polls in PRNG order, and set-result ops that make a mock backend answer Shutdown / "
             "DeadlineExceeded / Server / Ok from then on (the caller must get the picked backend's own answer); "
             "non-trivial = n>=2, more than n picks, picks not in creation order; distinct by op sequence + n"),
    trace.Family(
        "c20hash", ["--scripts=300", "--len=40"], ["--scripts=15000", "--len=60"],
        nontrivial=nontrivial_hash,
        rule="real ConsistentHash::with_hasher (deterministic BuildHasher, random 64-bit seed per script, mirrored "
             "by verifHash) over n in 1..5 mocks; requests from a small pool plus random u64s, mixed with set-result "
             "ops that make a mock backend answer Shutdown / DeadlineExceeded / Server / Ok from then on (equal "
             "requests must keep reaching the same backend whatever any backend answered before, and the caller "
             "must get that backend's own answer); non-trivial = some request dispatched twice, two different "
             "backends used, and a request re-dispatched after its backend answered it with an error; distinct by "
             "op sequence + n + seed"),
    trace.Family(
        "c20retry", ["--scripts=300", "--len=40"], ["--scripts=15000", "--len=60"],
        project=_retry_project, nontrivial=nontrivial_retry,
        rule="real Retry, under the paused tokio clock tarpc reads (verif_hooks::now), over a mock backend answering "
             "scripted results (Ok, Shutdown, DeadlineExceeded, Server, RpcError::Send) after a scripted delay of "
             "virtual time (or never, when the script is exhausted) and recording the context::Context of every "
             "call (deadline, trace id, span id, sampling decision); callers' deadlines from 0 ns to 30 days, "
             "random trace contexts; recording policy: decision table by attempt number, or retry-errors-while-"
             "attempt<max; non-trivial = a call retried at least once that then returned and a retry after a Send "
             "error; distinct by op sequence + policy parameters"),
    trace.Family(
        "c20mt", ["--scripts=12", "--len=3"], ["--scripts=300", "--len=4"],
        nontrivial=lambda h, l: _param(h, "n", 1) >= 2 and any("calls=4000" in x or "calls=500" in x for x in l),
        rule="real RoundRobin shared by 2-8 OS threads issuing bursts of 1..4000 calls each truly in parallel; the "
             "per-backend counts must be those of C20_rr_balanced for the total so far; non-trivial = n>=2 and a "
             "burst of >= 500 calls per thread"),
]

ASSUMPTIONS = [
    "fewer than 2^64 first polls per RoundRobin (the AtomicUsize cursor has not wrapped); after a wrap with n not "
    "a power of two one backend is picked twice in a row (C20_rr_wraparound_witness)",
    "n >= 1 (the statement's 'non-empty'); with n = 0 the first poll of a call panics with a remainder by zero in "
    "both load balancers (C20_empty_backends_panic_witness; the harness observes the same panic)",
    "AtomicUsize::fetch_add is one atomic read-modify-write (tickets are unique whatever the interleaving of "
    "first polls); the harness is single-threaded and interleaves at poll granularity",
    "a hasher is a function of the request (BuildHasher/Hash contract); the harness uses one deterministic hasher "
    "family with a random seed per script",
    "fewer than 2^32 attempts per Retry::call (the u32 attempt counter of `for i in 1..` has not overflowed)",
    "the retry policy is a pure function of (result, attempt); mock backends answer at the first poll, after moving "
    "the paused clock by the scripted delay (one extra poll), or never",
    "load-balancer mock backends answer what the last set-result op said (Ok(request) initially); a real channel "
    "whose dispatch task has ended answers Shutdown in the same way",
]


def run(tier, seed, replay):
    return runner.run_trace_property("C20", FAMILIES, tier, seed, replay, assumptions=ASSUMPTIONS)

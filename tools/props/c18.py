from vlib import runner, sysprops

PARTIAL = [
    'with an OpenTelemetry subscriber the trace context is taken from the span (ids chosen by the SDK): that branch is not modelled; the sub=2 families only check absence of panics (C16)',
]


def run(tier, seed, replay):
    return runner.run_trace_property("C18", sysprops.families("C18", ('cli', 'srv', 'chain')), tier, seed, replay,
                                     assumptions=sysprops.COMMON_ASSUMPTIONS + ['no tracing subscriber installed (the OpenTelemetry branch of trace derivation is not modelled)'], partial=PARTIAL,
                                     signatures=sysprops.SIGNATURES)

from vlib import runner, sysprops

PARTIAL = ["chains of 2-3 hops are covered by the C07 chain family's real client/server hops, not by this model"]


def run(tier, seed, replay):
    return runner.run_trace_property("C18", sysprops.families("C18", ('cli', 'srv', 'chain')), tier, seed, replay,
                                     assumptions=sysprops.COMMON_ASSUMPTIONS + ['no tracing subscriber installed (the OpenTelemetry branch of trace derivation is not modelled)'], partial=PARTIAL,
                                     signatures=sysprops.SIGNATURES)

from vlib import runner, sysprops

PARTIAL = []


def run(tier, seed, replay):
    return runner.run_trace_property("C10", sysprops.families("C10", ('cli', 'srv')), tier, seed, replay,
                                     assumptions=sysprops.COMMON_ASSUMPTIONS + ['an executor drops a completed dispatch future'], partial=PARTIAL,
                                     signatures=sysprops.SIGNATURES)

from vlib import runner, sysprops

PARTIAL = [
    'server side: the stream ends only when drained (state-level); acceptance of the server C10 monitor on every model trace is not proved (validated by correspondence)',
]


def run(tier, seed, replay):
    return runner.run_trace_property("C10", sysprops.families("C10", ('cli', 'srv')), tier, seed, replay,
                                     assumptions=sysprops.COMMON_ASSUMPTIONS + ['an executor drops a completed dispatch future'], partial=PARTIAL,
                                     signatures=sysprops.SIGNATURES)

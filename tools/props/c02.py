from vlib import runner, sysprops

PARTIAL = [
    "the global statement is false once the dispatch has panicked (C02NoStuckStatement_false: the timer-wheel-lag panic freezes the dispatch); the bounded form C02NoStuckStatement' (clock below 2^35 ms) is a def decided on every woken-only trace by the settle operation; proved: the per-event wake and registration theorems, the accounting invariant (Props/C02Account.lean), terminal fan-out, quiescence of settle",
    'wake observations of the implementation include spurious self-wakes of the timer queue that the model reproduces only approximately; the comparison therefore uses outcomes and stuck sets after settling, not raw wake sets',
]


def run(tier, seed, replay):
    return runner.run_trace_property("C02", sysprops.families("C02"), tier, seed, replay,
                                     assumptions=sysprops.COMMON_ASSUMPTIONS + [
                                         "woken-only scheduling: the generator and `settle` poll a task only while its own waker has fired",
                                         "the transport wakes its registered waker when its state changes, whatever the cause (premise of the property)"],
                                     partial=PARTIAL, signatures=sysprops.SIGNATURES)

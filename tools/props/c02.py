from vlib import runner, sysprops

PARTIAL = [
    'client: the global statement is PROVED for op sequences whose clock stays below 2^35 ms (C02_no_stuck: after settle no live call is stuck; the six wake/parking/accounting clauses hold in every reachable state); without the bound it is false because a panicked dispatch is frozen in the model (C02NoStuckStatement_false = known finding timer-wheel lag)',
    'server: per-event wake and registration theorems and quiescence of settle are proved; C02ServerNoStuckStatement stays a def decided on every woken-only trace by settle',
    'wake observations of the implementation include spurious self-wakes of the timer queue that the model reproduces only approximately; the comparison therefore uses outcomes and stuck sets after settling, not raw wake sets',
]


def run(tier, seed, replay):
    return runner.run_trace_property("C02", sysprops.families("C02"), tier, seed, replay,
                                     assumptions=sysprops.COMMON_ASSUMPTIONS + [
                                         "woken-only scheduling: the generator and `settle` poll a task only while its own waker has fired",
                                         "the transport wakes its registered waker when its state changes, whatever the cause (premise of the property)"],
                                     partial=PARTIAL, signatures=sysprops.SIGNATURES)

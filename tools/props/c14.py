from vlib import runner, sysprops

PARTIAL = [
    'client: six of the nine recorded violation kinds are proved unreachable (C14_no_violation_partial); ready/flush/close-after-close are recorded, not judged (the property speaks of writes)',
    'server: send-after-ready, no spin and flush-before-idle are proved on states/traces; acceptance of the server C14 monitor on every model trace is not proved (validated by correspondence)',
]


def run(tier, seed, replay):
    return runner.run_trace_property("C14", sysprops.families("C14", ('cli', 'srv')), tier, seed, replay,
                                     assumptions=sysprops.COMMON_ASSUMPTIONS + ["'write' = start_send; poll_ready/poll_flush calls after a close or failure are recorded but not judged"], partial=PARTIAL,
                                     signatures=sysprops.SIGNATURES)

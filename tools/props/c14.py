from vlib import runner, sysprops

PARTIAL = ["a dispatch that completes because its read side closed may leave its last write unflushed (not 'going idle'; documented)"]


def run(tier, seed, replay):
    return runner.run_trace_property("C14", sysprops.families("C14", ('cli', 'srv')), tier, seed, replay,
                                     assumptions=sysprops.COMMON_ASSUMPTIONS + ["'write' = start_send; poll_ready/poll_flush calls after a close or failure are recorded but not judged"], partial=PARTIAL,
                                     signatures=sysprops.SIGNATURES)

from vlib import trace, runner


def nontrivial(header, lines):
    # a shed, and a yield that follows a close: the limit was reached and capacity was reused
    shed = any(l.startswith("obs shed") for l in lines)
    closed_seen, reuse = False, False
    for l in lines:
        if l.startswith("obs closed"):
            closed_seen = True
        elif l.startswith("obs yielded") and closed_seen:
            reuse = True
    return shed and reuse


FAMILIES = [trace.Family(
    "c13", ["--scripts=400", "--len=40"], ["--scripts=20000", "--len=60"],
    nontrivial=nontrivial,
    rule="random arrive/close/poll/end scripts over 1-3 keys, n in 1..3; non-trivial = contains a shed and a "
         "yield after a close; distinct by op sequence")]

ASSUMPTIONS = [
    "one poll_next of MaxChannelsPerKey is one atomic model step (single-threaded harness)",
    "Arc/Weak strong counts and the unbounded mpsc notification queue behave sequentially as modelled",
    "n >= 1 (the statement's quantifier; with n = 0 the first channel of a key is still admitted)",
]


def run(tier, seed, replay):
    return runner.run_trace_property("C13", FAMILIES, tier, seed, replay, assumptions=ASSUMPTIONS)

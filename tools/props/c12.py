from vlib import runner, sysprops

PARTIAL = [
    "'refused only if L others in flight when read' is false of the code (known finding, witness theorem); proved instead: a refusal happens only in a poll that began at the limit (C12RefusedOnlyAtLimitStatement kept as def)",
]


def run(tier, seed, replay):
    return runner.run_trace_property("C12", sysprops.families("C12", ('srv',)), tier, seed, replay,
                                     assumptions=sysprops.COMMON_ASSUMPTIONS + [], partial=PARTIAL,
                                     signatures=sysprops.SIGNATURES)

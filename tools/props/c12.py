from vlib import runner, sysprops

PARTIAL = ['known finding: over-throttle when the inner poll drains a cancellation/expiry before reading the request']


def run(tier, seed, replay):
    return runner.run_trace_property("C12", sysprops.families("C12", ('srv',)), tier, seed, replay,
                                     assumptions=sysprops.COMMON_ASSUMPTIONS + [], partial=PARTIAL,
                                     signatures=sysprops.SIGNATURES)

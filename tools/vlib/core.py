"""Shared machinery of ./check: Lean obligations + audit, harness build, trace comparison,
shrinking, verdicts, known findings, evidence.  See DESIGN.md section 7."""
import fcntl, hashlib, json, os, re, subprocess, sys, time
from pathlib import Path

VERIF = Path(__file__).resolve().parents[2]
LEAN = VERIF / "lean"
HARNESS = VERIF / "harness"
CACHE = VERIF / ".cache"
REPO = Path("/repo")
# VERIF_TARGET: alternative cargo target dir (used when trying seeded changes, so that the regular binary stays pristine)
TARGET = Path(os.environ.get("VERIF_TARGET") or (CACHE / "target"))
HARNESS_BIN = TARGET / "debug" / "tarpc-verif-harness"
DRIVER_BIN = LEAN / ".lake" / "build" / "bin" / "driver"
ALLOWED_AXIOMS = {"propext", "Classical.choice", "Quot.sound"}
FORBIDDEN = [r"\bsorry\b", r"\badmit\b", r"\bnative_decide\b", r"\bbv_decide\b", r"\bimplemented_by\b",
             r"\bunsafe\s", r"maxHeartbeats\s+0\b", r"^\s*axiom\s"]
TRUSTED_BASE = [
    "Lean 4.33.0 kernel (lake build; thorough tier re-checks the Props module with leanchecker)",
    "axioms allowed: propext, Classical.choice, Quot.sound (audited with #print axioms on every run)",
    "tools/translate.py (source tables/constants -> lean/TarpcModel/Gen/*.lean, regenerated every run)",
    "harness/ (Rust correspondence harness) and ./check (this orchestrator): trusted to report disagreements",
    "library semantics modelled, not verified: tokio mpsc/oneshot, tokio-util DelayQueue, futures Abortable/Fuse, serde derive schema, bincode, serde_json, LengthDelimitedCodec, rustc",
]
ENV = dict(os.environ, CARGO_NET_OFFLINE="true", CARGO_TERM_COLOR="never")
ENV.pop("CARGO_TARGET_DIR", None)


class Lock:
    def __init__(self, name):
        CACHE.mkdir(parents=True, exist_ok=True)
        self.path = CACHE / f"{name}.lock"

    def __enter__(self):
        self.f = open(self.path, "w")
        fcntl.flock(self.f, fcntl.LOCK_EX)

    def __exit__(self, *a):
        fcntl.flock(self.f, fcntl.LOCK_UN)
        self.f.close()


def sh(cmd, cwd=None, timeout=None, inp=None, env=None):
    p = subprocess.run(cmd, cwd=cwd, env=env or ENV, stdout=subprocess.PIPE, stderr=subprocess.STDOUT,
                       text=True, timeout=timeout, input=inp)
    return p.returncode, p.stdout


# ---------------------------------------------------------------- Lean side

def strip_comments(src):
    src = re.sub(r"/-.*?-/", " ", src, flags=re.S)
    return re.sub(r"--.*", "", src)


def forbidden_hits():
    hits = []
    for f in list(LEAN.glob("TarpcModel/**/*.lean")) + [LEAN / "Main.lean", LEAN / "TarpcModel.lean"]:
        body = strip_comments(f.read_text())
        for tok in FORBIDDEN:
            if re.search(tok, body, flags=re.M):
                hits.append(f"{f.relative_to(VERIF)}: {tok}")
    return hits


def theorem_names(props_file):
    """Fully-qualified names of the theorems declared in a Props file (namespace-aware)."""
    names, ns = [], []
    for line in strip_comments(props_file.read_text()).splitlines():
        m = re.match(r"\s*namespace\s+(\S+)", line)
        if m:
            ns.append(m.group(1)); continue
        m = re.match(r"\s*end\s+(\S+)", line)
        if m and ns and ns[-1] == m.group(1):
            ns.pop(); continue
        m = re.match(r"\s*(?:private\s+|protected\s+)?theorem\s+(\S+)", line)
        if m:
            names.append(".".join(ns + [m.group(1)]))
    return names


def lean_sources_hash():
    h = hashlib.sha256()
    for f in sorted(LEAN.glob("TarpcModel/**/*.lean")) + [LEAN / "Main.lean", LEAN / "lakefile.toml"]:
        h.update(str(f).encode()); h.update(f.read_bytes())
    return h.hexdigest()[:16]


def lean_obligations(prop, thorough=False):
    """Builds Props.<prop> and the driver, audits axioms.  Returns a dict."""
    res = {"ok": False, "theorems": [], "axioms": {}, "errors": [], "build_s": 0.0}
    props_files = sorted((LEAN / "TarpcModel" / "Props").glob(f"{prop}*.lean"))
    mods = [f"TarpcModel.Props.{f.stem}" for f in props_files]
    t0 = time.time()
    with Lock("lake"):
        rc, out = sh([sys.executable, str(VERIF / "tools" / "translate.py")])
        if rc != 0:
            res["errors"].append("translator: " + out.strip()[:600])
        rc, out = sh(["lake", "build"] + mods + ["driver"], cwd=LEAN, timeout=3000)
        res["build_s"] = round(time.time() - t0, 1)
        if rc != 0:
            errs = [l for l in out.splitlines() if "error" in l][:8]
            res["errors"] += ["lake build failed"] + errs
            res["build_log"] = out[-4000:]
            return res
        names = [n for f in props_files for n in theorem_names(f)]
        res["theorems"] = names
        audit_dir = CACHE / "audit"; audit_dir.mkdir(parents=True, exist_ok=True)
        key = lean_sources_hash()
        cache_file = audit_dir / f"{prop}.{key}.json"
        if cache_file.exists():
            res["axioms"] = json.loads(cache_file.read_text())
        else:
            af = audit_dir / f"{prop}.lean"
            af.write_text("".join(f"import {m}\n" for m in mods) + "".join(f"#print axioms {n}\n" for n in names))
            rc, out = sh(["lake", "env", "lean", str(af)], cwd=LEAN, timeout=900)
            axioms, cur = {}, None
            text = out.replace("\n  ", " ")
            for m in re.finditer(r"'(\S+)' (does not depend on any axioms|depends on axioms: \[([^\]]*)\])", text):
                axioms[m.group(1)] = [] if m.group(3) is None else [a.strip() for a in m.group(3).split(",") if a.strip()]
            if rc != 0:
                res["errors"].append("axiom audit failed: " + out[-500:])
            res["axioms"] = axioms
            if rc == 0:
                for old in audit_dir.glob(f"{prop}.*.json"):
                    old.unlink()
                cache_file.write_text(json.dumps(axioms))
        if thorough:
            for m in mods:
                rc, out = sh(["lake", "env", "leanchecker", m], cwd=LEAN, timeout=1800)
                res["leanchecker_rc"] = rc
                if rc != 0:
                    res["errors"].append(f"leanchecker rejected {m}: " + out[-500:])
    for n in names:
        if n not in res["axioms"]:
            res["errors"].append(f"no axiom report for {n}")
        else:
            bad = [a for a in res["axioms"][n] if a not in ALLOWED_AXIOMS]
            if bad:
                res["errors"].append(f"{n} depends on disallowed axioms {bad}")
    hits = forbidden_hits()
    if hits:
        res["errors"].append("forbidden tokens: " + "; ".join(hits))
    if not names:
        res["errors"].append("no theorems found in Props file")
    res["ok"] = not res["errors"]
    return res


# ---------------------------------------------------------------- harness side

def build_harness():
    t0 = time.time()
    with Lock("cargo"):
        lock = HARNESS / "Cargo.lock"
        rc, out = sh(["cargo", "build", "--offline"], cwd=HARNESS, timeout=3000, env=dict(ENV, CARGO_TARGET_DIR=str(TARGET)))
    return rc == 0, out, round(time.time() - t0, 1)


def run_harness(args, out_path, timeout=3000):
    rc, out = sh([str(HARNESS_BIN)] + args + [f"--out={out_path}"], timeout=timeout)
    return rc, out


def run_driver(mode, in_path, timeout=3000):
    with open(in_path) as f:
        p = subprocess.run([str(DRIVER_BIN), mode], stdin=f, stdout=subprocess.PIPE, stderr=subprocess.STDOUT,
                           text=True, timeout=timeout)
    return p.returncode, p.stdout


def split_scripts(text):
    """-> list of (header, [lines]) where lines are the op/obs lines of that script."""
    scripts = []
    for line in text.splitlines():
        if line.startswith("script "):
            scripts.append((line, []))
        elif scripts:
            scripts[-1][1].append(line)
    return scripts


def ops_of(lines):
    return [l for l in lines if l.startswith("op ")]


# ---------------------------------------------------------------- known findings

def load_known():
    p = VERIF / "known_findings.json"
    if not p.exists():
        return {"open": [], "fixed": []}
    return json.loads(p.read_text())


# ---------------------------------------------------------------- evidence

def write_evidence(prop, tier, seed, coverage, assumptions, wall_s, violations, extra=None):
    ev = {
        "property_id": prop, "tier": tier, "seed": seed, "level": "proof",
        "coverage": coverage, "assumptions": assumptions, "wall_s": round(wall_s, 2),
        "violations": violations,
    }
    if extra:
        ev.update(extra)
    evdir = Path(os.environ.get("VERIF_EVIDENCE_DIR") or (VERIF / "evidence"))   # redirected when trying seeded changes
    evdir.mkdir(parents=True, exist_ok=True)
    (evdir / f"{prop}.json").write_text(json.dumps(ev, indent=1, sort_keys=True) + "\n")
    return ev


def replay_path(prop, seed, n, suffix="txt"):
    d = VERIF / "replays"; d.mkdir(exist_ok=True)
    return d / f"{prop}-{seed}-{n}.{suffix}"

"""Shared declarations for the client (`cli`) and server (`srv`) system families: generators, per-property
projections of the observation stream, non-triviality rules, known-finding signatures."""
import re
from . import trace, canon

CLI_QUICK = [["--scripts=300", "--len=80"], ["--scripts=200", "--len=80", "--faults=1"], ["--scripts=300", "--len=80", "--wo=1"]]
CLI_THOROUGH = [["--scripts=20000", "--len=100"], ["--scripts=15000", "--len=100", "--faults=1"], ["--scripts=20000", "--len=100", "--wo=1"]]
SRV_QUICK = [["--scripts=300", "--len=90"], ["--scripts=200", "--len=90", "--faults=1"], ["--scripts=300", "--len=90", "--wo=1"]]
SRV_THOROUGH = [["--scripts=20000", "--len=110"], ["--scripts=15000", "--len=110", "--faults=1"], ["--scripts=20000", "--len=110", "--wo=1"]]


def projector(patterns, keep_wakes=False):
    """Keep `op` lines and the `obs` lines matching one of the regexes, after canonicalisation."""
    rx = [re.compile(p) for p in patterns]

    def project(lines):
        out = []
        for l in canon.canon_lines(lines, drop_wakes=not keep_wakes, sort_wakes=keep_wakes):
            if l.startswith("op ") or any(r.search(l) for r in rx):
                out.append(l)
        return out
    return project


CLI_PROJ = {
    "C01": [r"^obs resolved", r"^obs T d\d+ next", r"^obs T d\d+ send req"],
    "C03": [r"^obs T d\d+ send", r"^obs resolved", r"^obs ret d"],
    "C05": [r"^obs resolved", r"^obs T d\d+ send req", r"^obs counts"],
    "C09": [r"^obs ret d", r"^obs resolved", r"^obs T d\d+ \w+ E$", r"^obs T d\d+ send .* E$", r"^obs panic", r"^obs spin"],
    "C10": [r"^obs T d\d+ (send|close|flush)", r"^obs T d\d+ next EOF", r"^obs ret d"],
    "C11": [r"^obs counts", r"^obs ret d"],
    "C14": [r"^obs T ", r"^obs ret d", r"^obs spin"],
    "C16": [r"^obs panic", r"^obs ret d", r"^obs resolved"],
    "C18": [r"^obs T d\d+ send"],
    "C02": [r"^obs resolved", r"^obs settled"],
}

SRV_PROJ = {
    "C04": [r"^obs handler", r"^obs T s\d+ send", r"^obs T s\d+ next can", r"^obs counts", r"^obs ret r"],
    "C06": [r"^obs handler", r"^obs T s\d+ send", r"^obs yielded", r"^obs ret r"],
    "C08": [r"^obs yielded", r"^obs T s\d+ send", r"^obs T s\d+ next (req|can)"],
    "C09": [r"^obs ret s", r"^obs T s\d+ \w+ E$", r"^obs T s\d+ send .* E$", r"^obs panic", r"^obs spin", r"^obs handler \d+ dropped"],
    "C10": [r"^obs ret s", r"^obs T s\d+ (send|flush)", r"^obs T s\d+ next EOF", r"^obs counts"],
    "C11": [r"^obs counts", r"^obs ret s", r"^obs yielded"],
    "C12": [r"^obs yielded", r"^obs T s\d+ send", r"^obs counts"],
    "C14": [r"^obs T ", r"^obs ret s", r"^obs spin"],
    "C16": [r"^obs panic", r"^obs ret s", r"^obs yielded"],
    "C18": [r"^obs yielded", r"^obs T s\d+ next req"],
    "C02": [r"^obs handler", r"^obs T s\d+ send", r"^obs yielded", r"^obs settled"],
}


def has(lines, pat):
    r = re.compile(pat)
    return any(r.search(l) for l in lines)


def count(lines, pat):
    r = re.compile(pat)
    return sum(1 for l in lines if r.search(l))


CLI_NONTRIVIAL = {
    "C01": lambda h, l: count(l, r"^obs resolved \d+ (ok|server)") >= 2 and has(l, r"^op inject resp id=1\d\d\d") ,
    "C03": lambda h, l: has(l, r"^op drop-call") and has(l, r"send can:") and has(l, r"^obs resolved"),
    "C05": lambda h, l: has(l, r"^obs resolved \d+ deadline") and has(l, r"^obs resolved \d+ (ok|server)"),
    "C09": lambda h, l: has(l, r"^obs ret d\d+ err") and has(l, r"^obs resolved \d+ (channel|shutdown|send)"),
    "C10": lambda h, l: has(l, r"^obs T d\d+ close") or (has(l, r"next EOF") and has(l, r"^obs resolved \d+ shutdown")),
    "C11": lambda h, l: has(l, r"^obs counts d\d+ [1-9]") and has(l, r"^op drop-call") and has(l, r"^obs resolved"),
    "C14": lambda h, l: has(l, r"ready P") and has(l, r"flush P|flush R") and count(l, r" send ") >= 2,
    "C16": lambda h, l: count(l, r" send req") >= 1,
    "C18": lambda h, l: has(l, r"send can:") and count(l, r"send req:") >= 2,
    "C02": lambda h, l: count(l, r"^obs resolved") >= 2,
}

SRV_NONTRIVIAL = {
    "C04": lambda h, l: has(l, r"next can:") and has(l, r"^obs handler \d+ dropped") and has(l, r"send resp"),
    "C06": lambda h, l: has(l, r"^obs handler \d+ dropped") and has(l, r"^op advance") and has(l, r"send resp"),
    "C08": lambda h, l: count(l, r"^obs yielded") >= 3 and count(l, r"send resp") >= 2,
    "C09": lambda h, l: has(l, r"^obs ret s\d+ itemerr"),
    "C10": lambda h, l: has(l, r"^obs ret s\d+ none") or (has(l, r"next EOF") and has(l, r"send resp")),
    "C11": lambda h, l: has(l, r"^obs counts s\d+ [2-9]") and has(l, r"^op drop-exec") and has(l, r"send resp"),
    "C12": lambda h, l: "limit=none" not in h and has(l, r"send resp:\d+:err:10") and has(l, r"^obs yielded"),
    "C14": lambda h, l: has(l, r"ready P") and count(l, r" send ") >= 2,
    "C16": lambda h, l: count(l, r"^obs yielded") >= 1,
    "C18": lambda h, l: count(l, r"^obs yielded") >= 2,
    "C02": lambda h, l: count(l, r"^obs yielded") >= 2,
}


def nt_chain(h, l):
    return has(l, r"^obs wire hop=[23] cancel") and has(l, r"^obs outcome \d+ ok:") and count(l, r"^op start") >= 2


def chain_family():
    f = trace.Family("chain", ["--scripts=300", "--len=40"], ["--scripts=20000", "--len=50"],
                     project=lambda lines: canon.canon_lines(lines), nontrivial=nt_chain,
                     rule="real client+server chains of depth 1-3 (in-memory bounded/unbounded transports, with and without a "
                          "request limit) on a paused LocalSet runtime: start / run-until-idle / abandon / finish / advance; "
                          "non-trivial = two concurrent calls, a cancel written at hop 2 or 3, and a successful outcome")
    f.tag = "chain"
    return f


# extra generator modes per property: (side, quick args, thorough args, tag)
EXTRA = {
    "C05": [("cli", ["--scripts=150", "--len=90", "--long=1"], ["--scripts=8000", "--len=100", "--long=1"], "cli-long"),
            ("cli", ["--scripts=100", "--len=90", "--long=1", "--extreme=1"], ["--scripts=4000", "--len=100", "--long=1", "--extreme=1"], "cli-extreme-long")],
    "C06": [("srv", ["--scripts=150", "--len=90", "--long=1"], ["--scripts=8000", "--len=110", "--long=1"], "srv-long"),
            ("srv", ["--scripts=100", "--len=90", "--long=1", "--extreme=1"], ["--scripts=4000", "--len=110", "--long=1", "--extreme=1"], "srv-extreme-long")],
    "C11": [("cli", ["--scripts=100", "--len=90", "--long=1"], ["--scripts=4000", "--len=100", "--long=1"], "cli-long")],
    # boundary-valued deadlines and ids, with a formatting (sub=1) and an OpenTelemetry (sub=2) tracing subscriber installed
    "C16": [(side, ["--scripts=120", "--len=70", "--extreme=1", f"--sub={sub}"], ["--scripts=6000", "--len=90", "--extreme=1", f"--sub={sub}"],
             f"{side}-extreme-sub{sub}") for side in ("cli", "srv") for sub in (0, 1, 2)] +
           # an aged connection (clock stepped up to 390 days) that then meets deadlines decades away
           [(side, ["--scripts=150", "--len=80", "--extreme=1", "--long=1"], ["--scripts=6000", "--len=100", "--extreme=1", "--long=1"],
             f"{side}-extreme-long") for side in ("cli", "srv")],
}

# bursts: buffers / in-flight limits of 24-64 and 12-40 calls queued (and abandoned, or expiring together) in one go
_BURST = lambda wo: [("cli", ["--scripts=120", "--len=120", "--burst=1"] + (["--wo=1"] if wo else []),
                      ["--scripts=5000", "--len=140", "--burst=1"] + (["--wo=1"] if wo else []), "cli-burst")]
EXTRA["C02"] = EXTRA.get("C02", []) + _BURST(True)
for _p in ("C01", "C03", "C05", "C11"):
    EXTRA[_p] = EXTRA.get(_p, []) + _BURST(False)

_SBURST = [("srv", ["--scripts=120", "--len=120", "--burst=1"], ["--scripts=5000", "--len=140", "--burst=1"], "srv-burst")]
for _p in ("C12", "C08", "C11", "C14"):
    EXTRA[_p] = EXTRA.get(_p, []) + _SBURST

# sim transport v2: fault countdowns ("fail the k-th call of a kind": `fault-skip n` before `fault <kind>`) and sinks that do
# not wake their owner when the owner's own flush restores readiness (`self-wake 0`; client, and server without a limit)
for _p, _sides in (("C09", ("cli", "srv")), ("C14", ("cli", "srv")), ("C10", ("cli", "srv")), ("C03", ("cli",)), ("C08", ("srv",))):
    EXTRA[_p] = EXTRA.get(_p, []) + [(sd, ["--scripts=250", "--len=90", "--v2=1", "--faults=1"],
                                      ["--scripts=12000", "--len=100", "--v2=1", "--faults=1"], f"{sd}-v2-faults") for sd in _sides]
EXTRA["C02"] = EXTRA.get("C02", []) + [(sd, ["--scripts=250", "--len=90", "--v2=1", "--wo=1"],
                                        ["--scripts=12000", "--len=100", "--v2=1", "--wo=1"], f"{sd}-v2-wo") for sd in ("cli", "srv")]

# families judged by the monitors only (projection = op lines); none at present
MONITOR_ONLY = set()


def families(prop, sides=("cli", "srv")):
    fams = []
    for side, q, t, tag in EXTRA.get(prop, []):
        if side in sides:
            proj = [] if (prop, side) in MONITOR_ONLY else (CLI_PROJ if side == "cli" else SRV_PROJ)[prop]
            nt = (CLI_NONTRIVIAL if side == "cli" else SRV_NONTRIVIAL)[prop]
            f = trace.Family(side, q, t, project=projector(proj), nontrivial=nt,
                             rule=f"{side} scripts with {' '.join(q[2:])}: as the plain family plus boundary / long-range values "
                                  "(deadlines days to months or decades away, extreme ids) and clock steps that reach them, or "
                                  "(burst) large buffers and many calls queued, abandoned or expiring at once")
            f.tag = tag
            fams.append(f)
    if "cli" in sides and prop in CLI_PROJ:
        for i, (q, t) in enumerate(zip(CLI_QUICK, CLI_THOROUGH)):
            # woken-only scripts (with `settle`) are judged through C02's projection only: the real
            # primitives issue some spurious self-wakes the model does not reproduce
            if ("--wo=1" in q) != (prop == "C02"):
                continue
            fams.append(trace.Family("cli", q, t, project=projector(CLI_PROJ[prop]), nontrivial=CLI_NONTRIVIAL[prop],
                                     rule=f"client scripts ({' '.join(q[2:]) or 'plain'}): PRNG-scheduled calls, polls, drops at the guard's yield points, "
                                          "handle clones/drops, injected/duplicated/unknown responses, readiness and flush toggles, "
                                          "clock steps around timer ticks; non-trivial per property-specific predicate over the trace"))
            fams[-1].tag = f"cli{i}"
    if "srv" in sides and prop in SRV_PROJ:
        for i, (q, t) in enumerate(zip(SRV_QUICK, SRV_THOROUGH)):
            if ("--wo=1" in q) != (prop == "C02"):
                continue
            fams.append(trace.Family("srv", q, t, project=projector(SRV_PROJ[prop]), nontrivial=SRV_NONTRIVIAL[prop],
                                     rule=f"server scripts ({' '.join(q[2:]) or 'plain'}): PRNG-scheduled channel polls, handler polls/finishes/drops, "
                                          "injected requests (fresh, duplicate-in-flight, re-used after completion), cancels, limits 0-2 or none, "
                                          "sink stalls, clock steps around timer ticks; non-trivial per property-specific predicate"))
            fams[-1].tag = f"srv{i}"
    if "chain" in sides:
        fams.append(chain_family())
    return fams


# ---- known-finding signatures: predicates over (monitor's why-string, trace lines)

def sig_limiter_stall(why, lines):
    return "limiter at its limit and sink not ready" in why


def sig_overthrottle(why, lines):
    return "refused with only" in why and "when this poll began and dropped below it before the request was read" in why


def sig_wheel_lag(why, lines):
    """A `DelayQueue::insert: invalid deadline` panic at a virtual time of 2^35 ms or more (the clock only moves by
    `op advance <ns>`): the range of tokio-util's timer wheel is measured from the wheel's own `elapsed`, which only
    an expiring timer moves."""
    if "DelayQueue::insert: invalid deadline" not in why:
        return False
    now = 0
    for l in lines:
        m = re.match(r"^op advance (\d+)", l)
        if m:
            now += int(m.group(1))
        if l.startswith("obs panic") and "invalid deadline" in l:
            return now >= (2 ** 35) * 1_000_000
    return False


def sig_wheel_lag_late(why, lines):
    """A deadline not enforced ("still pending although the dispatch ran …" / "still running …") in a script whose
    virtual clock has reached 2^35 ms: tokio-util's wheel files an entry more than a rotation ahead of its lagging
    `elapsed` into the slot it is currently in and then overlooks earlier entries."""
    if "still pending although the dispatch ran" not in why and "still running at" not in why:
        return False
    now = sum(int(m.group(1)) for l in lines for m in [re.match(r"^op advance (\d+)", l)] if m)
    return now >= (2 ** 35) * 1_000_000


SIGNATURES = {
    "timer-wheel-lag-deadline-not-enforced": sig_wheel_lag_late,
    "timer-wheel-lag-after-2^35-ms": sig_wheel_lag,
    "limiter-at-limit-and-sink-not-ready": sig_limiter_stall,
    "overthrottle-after-drain-in-same-poll": sig_overthrottle,
}

COMMON_ASSUMPTIONS = [
    "one poll of one task is one atomic model step (single-threaded harness; finer preemption relies on the linearizability of the tokio primitives)",
    "tokio mpsc/oneshot/semaphore, tokio-util DelayQueue (hashed wheel emulated), futures Abortable/Fuse semantics as modelled in Prim/, Client/Model.lean, Server/Model.lean (validated by the correspondence runs only)",
    "SimTransport honours the Sink contract (wakes the registered waker whenever readiness is restored, whatever the cause)",
    "ids, counters and time are unbounded Nat in the model (no 2^64 wrap-around)",
    "virtual clock via the verif-hooks feature; endpoints are created at t = 0 so that timer wheels and the runtime's millisecond grid coincide",
]

"""Line-protocol families: run the harness (real code), the Lean driver (model) and the monitors,
compare, shrink, decide."""
import hashlib, json, os, tempfile, time
from pathlib import Path
from . import core


class Family:
    def __init__(self, name, quick_args, thorough_args, project=None, nontrivial=None, rule=""):
        self.name = name
        self.quick_args = quick_args
        self.thorough_args = thorough_args
        self.project = project or (lambda lines: lines)
        self.nontrivial = nontrivial or (lambda header, lines: len(lines) > 2)
        self.rule = rule


def _tmp(prop, name):
    d = core.CACHE / "run" / prop
    d.mkdir(parents=True, exist_ok=True)
    return d / name


def execute(prop, family_name, harness_args, tag):
    """Runs harness -> impl trace, driver model -> model trace, driver monitor on impl trace."""
    impl_p = _tmp(prop, f"{tag}.impl.txt")
    model_p = _tmp(prop, f"{tag}.model.txt")
    rc, out = core.run_harness([family_name] + harness_args, impl_p)
    if rc != 0:
        return {"error": f"harness exited {rc}: {out[-800:]}"}
    rc, model_txt = core.run_driver("model", impl_p)
    if rc != 0:
        return {"error": f"driver model exited {rc}: {model_txt[-800:]}"}
    model_p.write_text(model_txt)
    rc, verdicts = core.run_driver("monitor", impl_p)
    if rc != 0:
        return {"error": f"driver monitor exited {rc}: {verdicts[-800:]}"}
    rc, mverdicts = core.run_driver("monitor", model_p)
    impl = core.split_scripts(impl_p.read_text())
    model = core.split_scripts(model_txt)
    vd = {}
    for l in verdicts.splitlines():
        t = l.split(" ", 3)
        if len(t) >= 3 and t[0] == "verdict":
            vd[t[1]] = (t[2], t[3] if len(t) > 3 else "")
    mvd = {}
    for l in mverdicts.splitlines():
        t = l.split(" ", 3)
        if len(t) >= 3 and t[0] == "verdict":
            mvd[t[1]] = (t[2], t[3] if len(t) > 3 else "")
    return {"impl": impl, "model": model, "verdicts": vd, "model_verdicts": mvd}


def script_id(header):
    return header.split()[1]


def replay_ops(prop, family_name, header, ops, tag="shrink"):
    """Runs one script (header + op lines) through harness replay + model + monitor."""
    f = _tmp(prop, f"{tag}.in.txt")
    f.write_text(header + "\n" + "\n".join(ops) + "\n")
    r = execute(prop, family_name, [f"--replay={f}"], tag)
    return r


def shrink(prop, fam, header, ops, still_fails, budget=150):
    """Delta debugging on op lines."""
    n = 2
    tests = 0
    while len(ops) >= 2 and tests < budget:
        chunk = max(1, len(ops) // n)
        reduced = False
        for i in range(0, len(ops), chunk):
            cand = ops[:i] + ops[i + chunk:]
            tests += 1
            if cand and still_fails(cand):
                ops = cand
                n = max(n - 1, 2)
                reduced = True
                break
            if tests >= budget:
                break
        if not reduced:
            if chunk == 1:
                break
            n = min(n * 2, len(ops))
    return ops


def first_divergence(fam, ilines, mlines):
    a, b = fam.project(ilines), fam.project(mlines)
    for i, (x, y) in enumerate(zip(a, b)):
        if x != y:
            return i, x, y
    if len(a) != len(b):
        i = min(len(a), len(b))
        return i, (a[i] if i < len(a) else "<end>"), (b[i] if i < len(b) else "<end>")
    return None

"""The verdict logic of one ./check run for a trace-based property (DESIGN.md section 7)."""
import hashlib, json, os, re, sys, time
from pathlib import Path
from . import core, trace


def known_match(prop, why, lines, signatures):
    """Returns the known-finding entry whose signature predicate accepts this failing trace."""
    for k in core.load_known().get("open", []):
        if k.get("property") != prop:
            continue
        pred = signatures.get(k.get("signature"))
        if pred and pred(why, lines):
            return k
    return None


def tagged(prop, verdict):
    """Verdict strings of multi-property monitors look like `[C03] why ;; [C14] why`; keep this property's part."""
    status, why = verdict
    if status == "ok" or not re.match(r"^\[(C\d+|PARSE)\]", why.strip()):
        return verdict
    parts = [p.strip() for p in why.split(";;")]
    mine = [p[len(prop) + 2:].strip() for p in parts if p.startswith(f"[{prop}]")]
    garbled = [p for p in parts if p.startswith("[PARSE]")]
    if mine:
        return (status, mine[0])
    if garbled:
        return (status, garbled[0])
    return ("ok", "")


def run_trace_property(prop, families, tier, seed, replay=None, assumptions=None, partial=None,
                       signatures=None, extra_obligation_check=None, samples_max=3):
    t0 = time.time()
    signatures = signatures or {}
    assumptions = list(assumptions or [])
    out_lines = []
    violations = []      # (kind, replay_path, msg)
    known_hits = []
    thorough = tier == "thorough"

    lean = core.lean_obligations(prop, thorough=thorough)
    obligations = len(lean["theorems"])
    discharged = sum(1 for n in lean["theorems"]
                     if n in lean["axioms"] and all(a in core.ALLOWED_AXIOMS for a in lean["axioms"][n])) \
        if not [e for e in lean["errors"] if e.startswith("lake build failed")] else 0
    broken = []          # names of broken obligations / correspondences
    if not lean["ok"]:
        broken.append("lean: " + "; ".join(lean["errors"])[:600])
    if extra_obligation_check:
        msg = extra_obligation_check()
        if msg:
            broken.append(msg)

    ok, blog, build_s = core.build_harness()
    stats = {"evaluations": 0, "nontrivial_hashes": set(), "traces_validated": 0, "samples": [],
             "op_hist": {}, "obs_hist": {}, "families": {}}
    if not ok:
        broken.append("harness does not build against the current tree: " + blog[-600:])
    else:
        runs = []
        if replay:
            txt = Path(replay).read_text()
            seen = set()
            for fam in families:
                if fam.name not in seen and (f" {fam.name} " in txt or f" {fam.name}\n" in txt):
                    seen.add(fam.name)
                    runs.append((fam, [f"--replay={replay}"], "replay"))
        else:
            corpus = sorted((core.VERIF / "corpus" / prop).glob("*.txt")) if (core.VERIF / "corpus" / prop).exists() else []
            seen = set()
            for fam in families:
                for c in corpus:
                    if (fam.name, c) not in seen and f" {fam.name} " in c.read_text().split("\n", 1)[0] + " ":
                        seen.add((fam.name, c))
                        runs.append((fam, [f"--replay={c}"], "corpus-" + c.stem))
                args = (fam.thorough_args if thorough else fam.quick_args)
                runs.append((fam, [f"--seed={seed}"] + args, "gen-" + getattr(fam, "tag", fam.name)))
        nviol = 0
        for fam, args, tag in runs:
            r = trace.execute(prop, fam.name, args, tag)
            if "error" in r:
                broken.append(f"{fam.name}/{tag}: {r['error']}")
                continue
            model_by_id = {trace.script_id(h): (h, l) for h, l in r["model"]}
            fstat = stats["families"].setdefault(getattr(fam, "tag", fam.name), {"scripts": 0, "nontrivial": 0})
            diverged = None
            for header, lines in r["impl"]:
                sid = trace.script_id(header)
                stats["evaluations"] += 1
                fstat["scripts"] += 1
                for l in lines:
                    t = l.split()
                    if len(t) >= 2:
                        h = stats["op_hist"] if t[0] == "op" else stats["obs_hist"]
                        h[t[1]] = h.get(t[1], 0) + 1
                if fam.nontrivial(header, lines):
                    hh = hashlib.sha1(("\n".join(core.ops_of(lines)) + header.split(" ", 2)[2]).encode()).hexdigest()
                    if hh not in stats["nontrivial_hashes"]:
                        stats["nontrivial_hashes"].add(hh)
                        fstat["nontrivial"] += 1
                if len(stats["samples"]) < samples_max and fam.nontrivial(header, lines):
                    stats["samples"].append({"script": header, "lines": lines[:60]})
                verdict = tagged(prop, r["verdicts"].get(sid, ("missing", "")))
                mh, ml = model_by_id.get(sid, (None, []))
                div = trace.first_divergence(fam, lines, ml)
                if div is None and verdict[0] == "ok":
                    stats["traces_validated"] += 1
                if verdict[0] != "ok":
                    # the implementation's own trace is rejected by the (proved) monitor
                    why = verdict[1]
                    k = known_match(prop, why, lines, signatures)
                    if k:
                        if k["signature"] not in [x["signature"] for x in known_hits]:
                            known_hits.append(k)
                        continue
                    if nviol < 3:
                        ops = core.ops_of(lines)

                        def still_fails(cand, header=header, fam=fam):
                            rr = trace.replay_ops(prop, fam.name, header, cand)
                            if "error" in rr or not rr["impl"]:
                                return False
                            v = tagged(prop, rr["verdicts"].get(trace.script_id(rr["impl"][0][0]), ("ok", "")))
                            if v[0] == "ok":
                                return False
                            return known_match(prop, v[1], rr["impl"][0][1], signatures) is None
                        small = trace.shrink(prop, fam, header, ops, still_fails)
                        rr = trace.replay_ops(prop, fam.name, header, small)
                        rp = core.replay_path(prop, seed, nviol)
                        body = [header] + (rr["impl"][0][1] if "impl" in rr and rr["impl"] else lines)
                        v2 = tagged(prop, rr["verdicts"].get(trace.script_id(rr["impl"][0][0]), verdict)) if "impl" in rr and rr["impl"] else verdict
                        mdl = rr["model"][0][1] if "model" in rr and rr["model"] else []
                        rp.write_text("\n".join(body) + "\n# monitor on implementation trace: FAIL " + v2[1] +
                                      "\n# model observations for the same ops:\n" +
                                      "\n".join("# " + l for l in mdl) + "\n")
                        violations.append(("monitor", rp, v2[1]))
                    nviol += 1
                elif div is not None and diverged is None:
                    diverged = (header, lines, ml, div)
            if diverged is not None:
                header, lines, ml, div = diverged
                broken.append(f"correspondence {fam.name}: script {trace.script_id(header)} diverges at projected line "
                              f"{div[0]}: impl `{div[1]}` vs model `{div[2]}`")
                stats.setdefault("divergences", []).append(
                    {"family": fam.name, "header": header, "impl": lines, "model": ml, "at": list(div)})

    # broken obligation / correspondence with no monitor rejection: widen the search, then report
    if broken and not violations and ok and not replay and not os.environ.get("VERIF_NO_WIDEN"):
        for fam in families:
            args = [f"--seed={seed + 7919}"] + [a.replace("--scripts=", "--scripts=") for a in fam.thorough_args]
            r = trace.execute(prop, fam.name, args, "search-" + getattr(fam, "tag", fam.name))
            if "error" in r:
                continue
            for header, lines in r["impl"]:
                v = tagged(prop, r["verdicts"].get(trace.script_id(header), ("ok", "")))
                if v[0] != "ok" and known_match(prop, v[1], lines, signatures) is None:
                    rp = core.replay_path(prop, seed, "s")
                    rp.write_text("\n".join([header] + lines) + "\n# monitor on implementation trace: FAIL " + v[1] +
                                  "\n# found by the widened search after: " + " | ".join(broken)[:800] + "\n")
                    violations.append(("monitor", rp, v[1]))
                    break
            if violations:
                break
    if broken and not violations:
        rp = core.replay_path(prop, seed, "broken")
        body = ["# no failing input found; what no longer checks:"] + ["# " + b for b in broken]
        for d in stats.get("divergences", [])[:1]:
            body += [d["header"]] + d["impl"] + ["# model observations for the same ops:"] + ["# " + l for l in d["model"]]
        rp.write_text("\n".join(body) + "\n")
        violations.append(("broken", rp, broken[0]))

    for k in known_hits:
        print(f"KNOWN-FINDING: property={prop} {k['what_fails']}")
    rc = 0
    for kind, rp, msg in violations:
        rel = rp.relative_to(core.VERIF)
        if kind == "broken":
            print(f"# {prop}: {msg[:300]}")
            print(f"VIOLATION property={prop} replay={rel} no-failing-input-found")
        else:
            print(f"# {prop}: {msg[:300]}")
            print(f"VIOLATION property={prop} replay={rel}")
        rc = 1

    coverage = {
        "obligations": max(obligations, 1), "discharged": discharged,
        "checker_cmd": f"cd lean && lake build TarpcModel.Props.{prop}* driver && lake env lean ../.cache/audit/{prop}.lean  (#print axioms on every theorem)" +
                       (f" && lake env leanchecker TarpcModel.Props.{prop}*" if thorough else ""),
        "trusted_base": core.TRUSTED_BASE,
        "theorems": lean["theorems"], "axioms": lean["axioms"], "lean_errors": lean["errors"],
        "evaluations": stats["evaluations"], "distinct_nontrivial": len(stats["nontrivial_hashes"]),
        "rule": "; ".join(f"{f.name}: {f.rule}" for f in families),
        "samples": stats["samples"] or [{"note": "no script executed"}],
        "traces_validated_against_impl": stats["traces_validated"],
        "op_histogram": stats["op_hist"], "obs_histogram": stats["obs_hist"], "families": stats["families"],
        "broken": broken, "known_findings_hit": [k["signature"] for k in known_hits],
        "partial": partial or [], "lean_build_s": lean["build_s"],
    }
    core.write_evidence(prop, tier, seed, coverage, assumptions, time.time() - t0, len(violations))
    return rc

"""C17, family `c17svc`: the implementation side is not the harness binary but a *generated cargo project*
of real `#[tarpc::service]` expansions (tools/c17_gen.py), because every service definition has to go
through rustc.  `install()` routes `trace.execute(prop, "c17svc", ...)` here, so that
`runner.run_trace_property` treats the family like any other (compare with `driver model`, monitor,
verdict, evidence); every other family still goes to the harness binary.

Arguments understood (same style as harness arguments):
  --seed=N --services=K --neg=all|none|N      generate K services (+ negative programs), build, run
  --replay=FILE                                rebuild the programs from the script/op lines of FILE
"""
import os, hashlib, json, re, subprocess, sys, time
from pathlib import Path
from . import core, trace

sys.path.insert(0, str(Path(__file__).resolve().parents[1]))
import c17_gen  # noqa: E402

FAMILY = "c17svc"
ROOT = core.CACHE / "c17"
# (a seeded-change trial uses its own target dirs, see tools/try_seeded.sh)
TARGET = core.CACHE / ("c17-target-seeded" if os.environ.get("VERIF_TARGET") else "c17-target")
MACRO_MESSAGES = [
    r"patterns aren't allowed in RPC args",
    r"method args cannot start with self",
    r"method name conflicts with generated fn `[^`]*`",
]
MAX_REPLAYS = 40            # a replay is a cargo build; bounds the shrinker
_replays = 0
_original_execute = None
last_info = {}              # timing / counts of the last run, for the evidence file


def _cargo(args, cwd, timeout=3000):
    p = subprocess.run(["cargo"] + args, cwd=cwd, env=core.ENV, stdout=subprocess.PIPE, stderr=subprocess.PIPE,
                       text=True, timeout=timeout)
    return p.returncode, p.stdout, p.stderr


def classify(errors):
    """error messages of one program that failed to compile -> obs lines (same classes as the model)."""
    errors = [e for e in errors if not e.startswith("aborting due to") and not e.startswith("could not compile")]
    if errors and all(any(re.fullmatch(p, e) for p in MACRO_MESSAGES) for e in errors):
        return ["obs rejected parser"] + ["obs message " + e for e in errors]
    if any("custom attribute panicked" in e for e in errors):
        return ["obs rejected macro-panic"]
    return ["obs rejected rustc"]


def check_all(proj):
    """One `cargo check --bins --keep-going`: -> ({bin: [error messages]}, {bins that compiled}, raw stderr)."""
    rc, out, err = _cargo(["check", "--offline", "--bins", "--keep-going", "--message-format=json"], proj)
    errors, done = {}, set()
    for line in out.splitlines():
        if not line.startswith("{"):
            continue
        try:
            m = json.loads(line)
        except ValueError:
            continue
        name = (m.get("target") or {}).get("name")
        if m.get("reason") == "compiler-artifact" and name:
            done.add(name)
        elif m.get("reason") == "compiler-message" and name:
            msg = m.get("message", {})
            if msg.get("level") == "error":
                errors.setdefault(name, []).append(msg.get("message", ""))
    return errors, done, err


def script_lines_rejected(lines, verdict_lines):
    """Trace of a program that was not run: declared / verdict / noop."""
    out, k = [lines[0]], 0
    for op in lines[1:]:
        out.append(op)
        t = op.split()
        if t[1] == "method":
            out.append(f"obs declared {k}")
            k += 1
        elif t[1] == "build":
            out += verdict_lines
        else:
            out.append("obs noop")
    return out


def run_programs(proj, pos, neg):
    """Builds/checks the project, runs the positive program.  -> (trace lines, error or None)."""
    t0 = time.time()
    errors, done, raw = check_all(proj)
    info = {"check_s": round(time.time() - t0, 1)}
    last_info.clear()
    lines = []
    if pos:
        if "pos" in done:
            t1 = time.time()
            rc, out, err = _cargo(["build", "--offline", "--bin", "pos"], proj)
            if rc != 0:
                return [], "cargo build of the accepted services failed after cargo check passed: " + err[-600:]
            p = subprocess.run([str(TARGET / "debug" / "pos")], stdout=subprocess.PIPE, stderr=subprocess.PIPE,
                               text=True, timeout=600)
            info["build_run_s"] = round(time.time() - t1, 1)
            if p.returncode != 0:
                return [], f"generated program exited {p.returncode}: {p.stderr[-600:]}"
            lines += p.stdout.splitlines()
        else:
            # a service the generator meant to be accepted does not compile: find out which, run the others
            info["pos_build_failed"] = errors.get("pos", [])[:5]
            for s in pos:
                b = c17_gen.write_single(proj, s)
                rc, out, err = _cargo(["build", "--offline", "--bin", b, "--message-format=short"], proj)
                if rc == 0:
                    p = subprocess.run([str(TARGET / "debug" / b)], stdout=subprocess.PIPE, text=True, timeout=600)
                    lines += p.stdout.splitlines()
                else:
                    errs = [re.sub(r"^.*?error(\[E\d+\])?: ", "", l) for l in err.splitlines()
                            if re.search(r"\berror(\[E\d+\])?: ", l)]
                    lines += script_lines_rejected([s.header()] + s.op_lines(), classify(errs))
                (Path(proj) / "src" / "bin" / f"{b}.rs").unlink()
    rejected = 0
    for s in neg:
        b = f"neg_{s.id}"
        if b in done:
            v = ["obs ACCEPTED(bad)"]
        else:
            v = classify(errors.get(b, []))
            rejected += 1
        lines += script_lines_rejected([s.header()] + s.op_lines(), v)
    info.update({"services": len(pos), "negative_programs": len(neg), "negative_rejected": rejected})
    last_info.update(info)
    return lines, None


def execute_svc(prop, args, tag):
    global _replays
    opts = dict(a[2:].split("=", 1) for a in args if a.startswith("--") and "=" in a)
    try:
        if "replay" in opts:
            _replays += 1
            if tag.startswith("shrink") and _replays > MAX_REPLAYS:
                return {"error": "replay budget of the c17svc shrinker exhausted"}
            text = Path(opts["replay"]).read_text()
            svcs = c17_gen.parse_scripts(text)
            key = "replay-" + hashlib.sha1(text.encode()).hexdigest()[:10] if not tag.startswith("shrink") else "replay-shrink"
        else:
            seed = int(opts.get("seed", "1"))
            pos, neg = c17_gen.generate(seed, int(opts.get("services", "6")), opts.get("neg", "3"))
            svcs = pos + neg
            key = str(seed)
        pos = [s for s in svcs if s.expect == "accept"]
        neg = [s for s in svcs if s.expect != "accept"]
        proj = ROOT / key
        proj.mkdir(parents=True, exist_ok=True)
        with core.Lock("c17cargo"):
            c17_gen.write_project(proj, pos, neg, TARGET)
            lines, err = run_programs(proj, pos, neg)
    except (ValueError, KeyError, IndexError) as e:       # an ill-typed / malformed script cannot become a program
        return {"error": f"cannot turn the script into a program: {e}"}
    except subprocess.TimeoutExpired as e:
        return {"error": f"timeout: {e}"}
    if err:
        return {"error": err}
    impl_p = trace._tmp(prop, f"{tag}.impl.txt")
    model_p = trace._tmp(prop, f"{tag}.model.txt")
    impl_p.write_text("\n".join(lines) + "\n")
    rc, model_txt = core.run_driver("model", impl_p)
    if rc != 0:
        return {"error": f"driver model exited {rc}: {model_txt[-800:]}"}
    model_p.write_text(model_txt)
    rc, verdicts = core.run_driver("monitor", impl_p)
    if rc != 0:
        return {"error": f"driver monitor exited {rc}: {verdicts[-800:]}"}
    rc, mverdicts = core.run_driver("monitor", model_p)

    def vd(txt):
        d = {}
        for l in txt.splitlines():
            t = l.split(" ", 3)
            if len(t) >= 3 and t[0] == "verdict":
                d[t[1]] = (t[2], t[3] if len(t) > 3 else "")
        return d
    return {"impl": core.split_scripts(impl_p.read_text()), "model": core.split_scripts(model_txt),
            "verdicts": vd(verdicts), "model_verdicts": vd(mverdicts)}


def install():
    """Routes the `c17svc` family of `trace.execute` to the generated programs (idempotent)."""
    global _original_execute
    if _original_execute is not None:
        return
    _original_execute = trace.execute

    def execute(prop, family_name, harness_args, tag):
        if family_name == FAMILY:
            return execute_svc(prop, harness_args, tag)
        return _original_execute(prop, family_name, harness_args, tag)
    trace.execute = execute

"""Canonicalisation of sys/cli/srv traces before comparison."""
import re

FRESH = re.compile(r"\bf[0-9a-f]+\b")


def canon_lines(lines, drop_wakes=True, sort_wakes=False):
    """Renames fresh span ids by first appearance; drops (or sorts per op) wake lines."""
    names = {}

    def ren(m):
        k = m.group(0)
        if k not in names:
            names[k] = f"F{len(names)}"
        return names[k]

    out, wakes = [], []

    def flush():
        if wakes:
            out.extend(sorted(set(wakes)))
            wakes.clear()

    for l in lines:
        if l.startswith("obs wake "):
            if drop_wakes:
                continue
            if sort_wakes:
                wakes.append(l)
                continue
        if l.startswith("op "):
            flush()
            out.append(l)
            continue
        if sort_wakes and not l.startswith("obs wake "):
            pass
        out.append(FRESH.sub(ren, l) if ("/f" in l) else l)
    flush()
    return out

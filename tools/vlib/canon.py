"""Canonicalisation of sys/cli/srv traces before comparison."""
import re

FRESH = re.compile(r"\bf[0-9a-f]+\b")


def canon_lines(lines, drop_wakes=True, sort_wakes=False):
    """Renames fresh span ids by first appearance; drops (or sorts per op) wake lines."""
    names = {}

    def ren(m):
        k = m.group(0)
        if k not in names:
            names[k] = f"F{len(names)}"
        return names[k]

    out, wakes = [], []

    def flush():
        if wakes:
            out.extend(sorted(set(wakes)))
            wakes.clear()

    dropping = None
    for l in lines:
        if l.startswith("op "):
            t = l.split()
            dropping = None
            if len(t) >= 3 and t[1] == "drop-call":
                dropping = "obs wake c" + t[2]
            elif len(t) >= 3 and t[1] == "drop-exec":
                dropping = "obs wake r" + t[2]
        if l.startswith("obs wake "):
            if drop_wakes or l.strip() == dropping:     # a wake of the future being dropped is moot
                continue
            if sort_wakes:
                wakes.append(l)
                continue
        if l.startswith("op "):
            flush()
            out.append(l)
            continue
        if sort_wakes and not l.startswith("obs wake "):
            pass
        out.append(FRESH.sub(ren, l) if ("/f" in l) else l)
    flush()
    return out

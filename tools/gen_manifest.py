#!/usr/bin/env python3
"""Writes MANIFEST.json from the table below (kept in one place so it stays valid)."""
import json
from pathlib import Path
V = Path(__file__).resolve().parents[1]

CLAIMED = {
    "C13": dict(
        text="Lean 4 theorems over an executable model of MaxChannelsPerKey (all op sequences, all n>=1, any keys): "
             "monitor acceptance, never-exceeded, shed-only-when-full, close-frees; model tied to the code by "
             "differential execution of the real MaxChannelsPerKey on generated and corpus scripts, the proved "
             "monitor also run on the implementation's trace.",
        note="Trusted: Lean kernel; axioms propext/Classical.choice/Quot.sound; harness + ./check; one poll_next "
             "is one atomic step; Arc/Weak/mpsc sequential semantics as modelled.",
        technique="Lean 4 invariant proof (induction over op lists) + model/implementation correspondence",
        design="8/C13"),
    "C07": dict(
        text="Lean 4 theorems over the model of Context's wire form (ser = deadline - now saturating, de = now' + x; all Nat "
             "ns, chains of any length): one-hop exact formula max(d,send)+transit with never-earlier / at-most-transit / "
             "expired-arrives-as-now, chain closed form max(d+accumulated transit, last receive) (and d-or-first-send + "
             "transit when handlers are alive), nested-call lifetime bound, skew independence, 10 s default tied to the "
             "source constant, in-memory identity, monitor acceptance+soundness; model tied to the code by differential "
             "execution of the real serde_json/bincode/tokio-serde codecs and real client+BaseChannel chains (1-3 hops, "
             "json/bincode/in-memory) under a paused virtual clock, the proved monitor also run on the implementation's trace.",
        note="Trusted: Lean kernel; axioms propext/Classical.choice/Quot.sound; harness + ./check; verif-hooks clock = "
             "tokio paused clock, synchronous calls take zero virtual time; one clock for all hops in the harness (skew "
             "is a theorem only); Duration encodings exact (C15) and Instant overflow (C16) out of scope; "
             "context::current() span deadline not exercised.",
        technique="Lean 4 arithmetic/induction proofs (omega) + model/implementation correspondence under virtual time",
        design="8/C07"),
    "C15": dict(
        text="Lean 4 theorems over a byte-level model of the bincode (DefaultOptions) wire form of every protocol message: "
             "varint/zigzag round trips for all widths and values, round trip and prefix-freeness of every ClientMessage "
             "and Response (any ids, durations, trace ids, bodies under an abstract prefix-free body codec; String and u64 "
             "instances), the 18 portable error kinds round-trip and all others degrade to Other over the tables "
             "REGENERATED from util/serde.rs on every run (incl. the written integer type), witness theorem for the "
             "pre-fix i32/u32 mismatch; tied to the code byte-exactly: real bincode encodings == model encodings, real "
             "decodes of valid/mutated/truncated bytes == model decodes. Stream level: length-delimited framing decoder as a "
             "state machine with theorems for EVERY chunking of the byte stream (frames emitted exactly, in order; "
             "truncation never yields a short message; oversize rejected), FIFO/EOF theorems for the in-memory and framed "
             "pipes under every interleaving of send/flush/recv/close/drop; tied to the real FramedRead codec and to the "
             "real serde_transport (bincode, JSON) over a fragmenting duplex plus the in-memory channels.",
        note="Trusted: Lean kernel; axioms propext/Classical.choice/Quot.sound; translator (tables), harness + ./check; "
             "bincode 1.3 / serde-derive schema and LengthDelimitedCodec as modelled. The JSON text form has no Lean model: "
             "it is covered by the end-to-end correspondence family only (partial).",
        technique="Lean 4 codec round-trip proofs over translator-generated tables + byte-exact model/implementation correspondence",
        design="8/C15"),
    "C17": dict(
        text="Lean 4 theorems over a model of #[tarpc::service] as name tables (all service definitions: any number of "
             "methods/args, raw identifiers, any cfg pattern, any derive option): client method i -> request variant -> "
             "server arm -> trait method i with the same arguments in order and the context, response variant unwrapped by "
             "the same client method (roundtrip, call, call_exact), name() = <Service>.<method> as written (raw keeps r#), "
             "exact characterisation of snake_to_camel collisions and their rejection, reserved/raw-reserved names, "
             "non-identifier args, ctx/duplicate arg names, invalid or `Self` variants, no-surviving-method services all "
             "rejected; snake_to_camel facts (no underscore, length, stabilises after two steps, case/underscore "
             "insensitivity); tied to the code by differential execution of the real snake_to_camel text (extracted by "
             "build.rs) and by compiling PRNG service definitions with the real macro, calling every generated client "
             "method through a real in-memory client/server pair and comparing name(), request Debug, the implementor's "
             "record and the returned value with the model; 29 must-fail programs checked to be rejected in the class the "
             "model predicts.",
        note="Trusted: Lean kernel; axioms propext/Classical.choice/Quot.sound; rustc's checks on the expansion are the "
             "explicit predicate Macro.rustcOk (each clause reproduced by a negative program); ASCII identifiers only; the "
             "channel carries request+context unchanged (in-memory transport; only trace id and deadline compared); "
             "tools/c17_gen.py + tools/vlib/c17_extra.py + harness + ./check.",
        technique="Lean 4 proofs over generated name tables (first-match lookup, Nodup) + differential test of the real "
                  "macro function and of real macro expansions compiled by rustc",
        design="8/C17"),
    "C19": dict(
        text="Lean 4 theorems over an executable model of the request-hook combinators (HookThenServe, ServeThenHook, "
             "HookThenServeThenHook, BeforeRequestCons/Nil, then, serving), for every wrapper stack, hook script, "
             "context and request (structural induction, no bound): list order with context threading, whole-stack "
             "before-order = one flat list, first failure stops (no later hook, no handler, error is the response / "
             "what the next after-hook sees), after-hook exactly once after what it wraps and its edit is the response, "
             "before-and-after skips its after part iff its before part fails and else shows it its own edited context, "
             "plain after-hook sees the caller's context (Context is Copy), then/serving = append/nesting, monitor "
             "acceptance and exactness (conforms <-> eval). Tied to the code by running the real combinators, nested "
             "dynamically (depth 0-5, lists 0-4, every failing position), against the model, textual equality of every "
             "invocation, context, result and response; the proved monitor also runs on the implementation's trace.",
        note="Trusted: Lean kernel; axioms propext/Classical.choice/Quot.sound; harness + ./check. Context observed "
             "through trace_context.span_id only; hooks complete immediately; ServerError identified by its detail; "
             "static cons-lists of length 0..4 in the harness stand for all lengths (Lean proofs are unbounded).",
        technique="Lean 4 structural-induction proofs over an executable model + differential execution of the real combinators",
        design="8/C19"),
    "C20": dict(
        text="Lean 4 theorems over an executable model of the RoundRobin / ConsistentHash / Retry stubs: exact per-backend "
             "counts N/n + [j < N%n] for all n>=1, N<2^64 (so spread <= 1 after every prefix), independence of the "
             "first-poll order (permutations; op-level: every interleaving of create/first-poll/drop), hash index < n and a "
             "function of the request for any hasher, retry loop (attempts 1,2,3.., identical request, last result returned "
             "unchanged, stops at the first declining answer; never-declining case), monitor acceptance for all op sequences; "
             "tied to the code by differential execution of the real stubs over recording mock backends, the proved "
             "monitors also run on the implementation's traces.",
        note="Trusted: Lean kernel; axioms propext/Classical.choice/Quot.sound; harness + ./check. Hypotheses: n>=1 (n=0 "
             "panics with remainder by zero - recorded by a witness theorem and observed, outside the statement); cursor "
             "not wrapped (<2^64 first polls; wrap witness given); <2^32 attempts per retry call; fetch_add atomic; "
             "hasher/policy are pure functions; harness single-threaded, interleaving at first-poll granularity.",
        technique="Lean 4 algebraic/inductive proofs + coupling invariant (model/monitor) + model/implementation correspondence",
        design="8/C20"),
}

NOT_YET = {
}

def main():
    props = [json.loads(l) for l in (V / "properties.jsonl").read_text().splitlines() if l.strip()]
    checks, na = [], []
    for p in props:
        pid = p["id"]
        if pid in CLAIMED:
            c = CLAIMED[pid]
            checks.append({
                "property_id": pid,
                "quick_cmd": f"./check {pid} --tier quick",
                "thorough_cmd": f"./check {pid} --tier thorough",
                "evidence_file": f"/verif/evidence/{pid}.json",
                "replay_cmd_template": f"./check {pid} --replay {{path}}",
                "engine": "lean4-model+correspondence",
                "level_claimed": {"category": "proof", "text": c["text"], "design_ref": c["design"]},
                "level_note": c["note"],
                "technique": c["technique"],
            })
        else:
            na.append({"property_id": pid, "reason": NOT_YET.get(pid, "check not built yet in this session; planned per DESIGN.md section 13 (not a limit of the technique)")})
    m = {
        "version": 1,
        "setup_cmd": "./setup.sh",
        "hooks": {
            "guard": "verif-hooks",
            "enable": "cargo feature `verif-hooks` of crate tarpc (harness/Cargo.toml depends on /repo/tarpc with features full + verif-hooks)",
            "baseline_off_cmd": "cd /repo && cargo test --workspace --no-fail-fast --offline",
            "source_commits": ["629aaa8"],
            "add_only": True,
        },
        "engines": [{
            "name": "lean4-model+correspondence", "path": "/verif/lean, /verif/harness, /verif/check",
            "serves_properties": sorted(CLAIMED),
            "kind_free_text": "Lean 4 executable model + theorems (lake build, #print axioms audit); Rust in-process "
                              "correspondence harness; compiled Lean driver evaluates model and proved monitors on the same op scripts",
        }],
        "checks": checks,
        "not_applicable": na,
        "notes": "See DESIGN.md. Every check rebuilds the harness against /repo's working tree (cargo, incremental) and the Lean obligations (lake, incremental).",
    }
    (V / "MANIFEST.json").write_text(json.dumps(m, indent=1) + "\n")

if __name__ == "__main__":
    main()

#!/usr/bin/env python3
"""Writes MANIFEST.json from the table below (kept in one place so it stays valid)."""
import json
from pathlib import Path
V = Path(__file__).resolve().parents[1]

CLAIMED = {
    "C13": dict(
        text="Lean 4 theorems over an executable model of MaxChannelsPerKey (all op sequences, all n>=1, any keys): "
             "monitor acceptance, never-exceeded, shed-only-when-full, close-frees; model tied to the code by "
             "differential execution of the real MaxChannelsPerKey on generated and corpus scripts, the proved "
             "monitor also run on the implementation's trace.",
        note="Trusted: Lean kernel; axioms propext/Classical.choice/Quot.sound; harness + ./check; one poll_next "
             "is one atomic step; Arc/Weak/mpsc sequential semantics as modelled.",
        technique="Lean 4 invariant proof (induction over op lists) + model/implementation correspondence",
        design="8/C13"),
    "C07": dict(
        text="Lean 4 theorems over the model of Context's wire form (ser = deadline - now saturating, de = now' + x; all Nat "
             "ns, chains of any length): one-hop exact formula max(d,send)+transit with never-earlier / at-most-transit / "
             "expired-arrives-as-now, chain closed form max(d+accumulated transit, last receive) (and d-or-first-send + "
             "transit when handlers are alive), nested-call lifetime bound, skew independence, 10 s default tied to the "
             "source constant, in-memory identity, monitor acceptance+soundness; model tied to the code by differential "
             "execution of the real serde_json/bincode/tokio-serde codecs and real client+BaseChannel chains (1-3 hops, "
             "json/bincode/in-memory) under a paused virtual clock, the proved monitor also run on the implementation's trace.",
        note="Trusted: Lean kernel; axioms propext/Classical.choice/Quot.sound; harness + ./check; verif-hooks clock = "
             "tokio paused clock, synchronous calls take zero virtual time; one clock for all hops in the harness (skew "
             "is a theorem only); Duration encodings exact (C15) and Instant overflow (C16) out of scope; "
             "context::current() span deadline not exercised.",
        technique="Lean 4 arithmetic/induction proofs (omega) + model/implementation correspondence under virtual time",
        design="8/C07"),
    "C15": dict(
        text="Lean 4 theorems over a byte-level model of the bincode (DefaultOptions) wire form of every protocol message: "
             "varint/zigzag round trips for all widths and values, round trip and prefix-freeness of every ClientMessage "
             "and Response (any ids, durations, trace ids, bodies under an abstract prefix-free body codec; String and u64 "
             "instances), the 18 portable error kinds round-trip and all others degrade to Other over the tables "
             "REGENERATED from util/serde.rs on every run (incl. the written integer type), witness theorem for the "
             "pre-fix i32/u32 mismatch; tied to the code byte-exactly: real bincode encodings == model encodings, real "
             "decodes of valid/mutated/truncated bytes == model decodes. Stream level: length-delimited framing decoder as a "
             "state machine with theorems for EVERY chunking of the byte stream (frames emitted exactly, in order; "
             "truncation never yields a short message; oversize rejected), FIFO/EOF theorems for the in-memory and framed "
             "pipes under every interleaving of send/flush/recv/close/drop; tied to the real FramedRead codec and to the "
             "real serde_transport (bincode, JSON) over a fragmenting duplex plus the in-memory channels. JSON: a Lean model of "
             "serde_json's compact writer and a total parser with theorems parse(render v ++ rest) = (v, rest) for EVERY value, "
             "render injective/self-delimiting, decodeJson(encodeJson m) = m for every valid ClientMessage/Response (String "
             "bodies, any ids/trace ids/durations, all error kinds over the generated tables), tied byte-exactly to the real "
             "tokio_serde Json codec (c15json family).",
        note="Trusted: Lean kernel; axioms propext/Classical.choice/Quot.sound; translator (tables), harness + ./check; "
             "bincode 1.3 / serde-derive schema, serde_json's text form and LengthDelimitedCodec as modelled. That the Lean JSON "
             "parser accepts exactly what serde_json accepts on documents the writer does not produce is validated by the "
             "c15json correspondence family (42k scripts, reordered members, whitespace, escapes, malformed input), not proved.",
        technique="Lean 4 codec round-trip proofs over translator-generated tables + byte-exact model/implementation correspondence",
        design="8/C15"),
    "C16": dict(
        text="Lean 4 theorems: the modelled reader of a ClientMessage never panics on ANY byte string (the one overflow "
             "site, now + peer-chosen duration, is modelled explicitly and the theorem is tied to the translated fact that "
             "the source saturates there; witness theorem for the pre-fix overflow); the framed decoder maps truncated / "
             "oversize input to errors (C15 stream theorems); the DelayQueue range panic is an explicit outcome of the "
             "client/server models and the armed timeout is clamped per the translated constants. Tie: c16dec family "
             "(random, mutated, truncated, spliced and boundary-valued byte streams fed to the real framed JSON/bincode "
             "decoders under catch_unwind), c15bin (reader outcome value/error/panic predicted exactly), cli/srv system "
             "families with extreme ids and deadlines up to 2^63 s away, run without a subscriber, with a formatting "
             "subscriber and with an OpenTelemetry subscriber: no panic observation on any trace ([C16] monitor = "
             "Monitors/NoPanic.lean). System level: C16_client_no_panic / C16_server_no_panic — no reachable trace of the "
             "client / server model contains a panic observation, for every op sequence whose clock stays below 2^35 ms "
             "(hypothesis shown necessary by the late-panic witnesses = known finding timer-wheel lag); "
             "C16_span_deadline_never_panics — the rpc.deadline span field renders for every deadline, tied to the "
             "translated facts that the source uses checked_add and caps at year 9999; C16_stub_never_panics — a "
             "macro-generated client method returns for every well-formed answer of the peer (own variant, another method's "
             "variant, server error), tied to the translated shape of its fallback arm and to the c16stub family.",
        note="Trusted: Lean kernel; axioms propext/Classical.choice/Quot.sound; translator flags; harness + ./check. Absence "
             "of panics inside serde_json / bincode / LengthDelimitedCodec / tracing subscribers is tested, not proved. "
             "Known finding (open): an idle DelayQueue older than 2^36 ms panics on insert (tokio-util).",
        technique="Lean 4 totality/no-panic proof tied to translated source facts + robustness differential runs under catch_unwind",
        design="8/C16"),
    "C17": dict(
        text="Lean 4 theorems over a model of #[tarpc::service] as name tables (all service definitions: any number of "
             "methods/args, raw identifiers, any cfg pattern, any derive option): client method i -> request variant -> "
             "server arm -> trait method i with the same arguments in order and the context, response variant unwrapped by "
             "the same client method (roundtrip, call, call_exact), name() = <Service>.<method> as written (raw keeps r#), "
             "exact characterisation of snake_to_camel collisions and their rejection, reserved/raw-reserved names, "
             "non-identifier args, ctx/duplicate arg names, invalid or `Self` variants, no-surviving-method services all "
             "rejected; snake_to_camel facts (no underscore, length, stabilises after two steps, case/underscore "
             "insensitivity); tied to the code by differential execution of the real snake_to_camel text (extracted by "
             "build.rs) and by compiling PRNG service definitions with the real macro, calling every generated client "
             "method through a real in-memory client/server pair and comparing name(), request Debug, the implementor's "
             "record and the returned value with the model; 29 must-fail programs checked to be rejected in the class the "
             "model predicts.",
        note="Trusted: Lean kernel; axioms propext/Classical.choice/Quot.sound; rustc's checks on the expansion are the "
             "explicit predicate Macro.rustcOk (each clause reproduced by a negative program); ASCII identifiers only; the "
             "channel carries request+context unchanged (in-memory transport; only trace id and deadline compared); "
             "tools/c17_gen.py + tools/vlib/c17_extra.py + harness + ./check.",
        technique="Lean 4 proofs over generated name tables (first-match lookup, Nodup) + differential test of the real "
                  "macro function and of real macro expansions compiled by rustc",
        design="8/C17"),
    "C19": dict(
        text="Lean 4 theorems over an executable model of the request-hook combinators (HookThenServe, ServeThenHook, "
             "HookThenServeThenHook, BeforeRequestCons/Nil, then, serving), for every wrapper stack, hook script, "
             "context and request (structural induction, no bound): list order with context threading, whole-stack "
             "before-order = one flat list, first failure stops (no later hook, no handler, error is the response / "
             "what the next after-hook sees), after-hook exactly once after what it wraps and its edit is the response, "
             "before-and-after skips its after part iff its before part fails and else shows it its own edited context, "
             "plain after-hook sees the caller's context (Context is Copy), then/serving = append/nesting, monitor "
             "acceptance and exactness (conforms <-> eval). Tied to the code by running the real combinators, nested "
             "dynamically (depth 0-5, lists 0-4, every failing position), against the model, textual equality of every "
             "invocation, context, result and response; the proved monitor also runs on the implementation's trace.",
        note="Trusted: Lean kernel; axioms propext/Classical.choice/Quot.sound; harness + ./check. Context observed "
             "through trace_context.span_id only; hooks complete immediately; ServerError identified by its detail; "
             "static cons-lists of length 0..4 in the harness stand for all lengths (Lean proofs are unbounded).",
        technique="Lean 4 structural-induction proofs over an executable model + differential execution of the real combinators",
        design="8/C19"),
    "C20": dict(
        text="Lean 4 theorems over an executable model of the RoundRobin / ConsistentHash / Retry stubs: exact per-backend "
             "counts N/n + [j < N%n] for all n>=1, N<2^64 (so spread <= 1 after every prefix), independence of the "
             "first-poll order (permutations; op-level: every interleaving of create/first-poll/drop), hash index < n and a "
             "function of the request for any hasher, retry loop (attempts 1,2,3.., identical request, last result returned "
             "unchanged, stops at the first declining answer; never-declining case), monitor acceptance for all op sequences; "
             "tied to the code by differential execution of the real stubs over recording mock backends, the proved "
             "monitors also run on the implementation's traces.",
        note="Trusted: Lean kernel; axioms propext/Classical.choice/Quot.sound; harness + ./check. Hypotheses: n>=1 (n=0 "
             "panics with remainder by zero - recorded by a witness theorem and observed, outside the statement); cursor "
             "not wrapped (<2^64 first polls; wrap witness given); <2^32 attempts per retry call; fetch_add atomic; "
             "hasher/policy are pure functions; harness single-threaded, interleaving at first-poll granularity.",
        technique="Lean 4 algebraic/inductive proofs + coupling invariant (model/monitor) + model/implementation correspondence",
        design="8/C20"),
}

# claimed automatically once lean/TarpcModel/Props/<id>*.lean exists (and ./check <id> passes before commit)
SYS = {
    'C01': dict(text="Lean 4 theorems over the poll-granular client model (Client/Model.lean): a response completes only the entry with its id and only that call's oneshot; unknown/late/duplicate ids leave every call, entry, timer and queue untouched; ids issued on a channel and its clones are pairwise distinct; run-level statements over all op sequences as listed in evidence.theorems. Tie: the model reproduces the real client's observation stream line by line on PRNG scripts (reordered, duplicated, unknown, already-finished response ids; abandonments; expirations); the C01 monitor (success only with a response read for the call's own id after its request was written, each response consumed once) runs on the implementation's trace.",
        note='Trusted: Lean kernel; axioms propext/Classical.choice/Quot.sound; translator flags (Gen/Flags.lean), harness + ./check; library semantics modelled not verified (tokio mpsc/oneshot/semaphore hand-off, tokio-util DelayQueue timer wheel, futures Abortable/Fuse); one poll = one atomic step; executor drops a completed dispatch / the application stops at the first error item. ',
        technique='Lean 4 invariant proofs over an executable poll-granular model + exact model/implementation correspondence + proved-style monitor on implementation traces', design='8/C01'),
    'C02': dict(text="Lean 4 theorems, one per wake-enabling event of the property's second sentence (reply/close/error arrival, new request, cancellation, capacity returning, writability returning, completion → caller): the event sets the woken flag of the task that must act, and a task that returns Pending has registered where the model says; the global statement is PROVED: C02_no_stuck (client: after settle no live call is stuck, for every op sequence whose clock stays below 2^35 ms; the dispatch's parking discipline, the call futures' wake-up discipline and the permit accounting hold in every reachable state) and C02S_no_stuck (server: unlimited channels, or sinks that wake their owner); the unrestricted statements are refuted by witnesses (a panicked dispatch; a limiter relying on the sink's self-wake). The `settle` operation drives model and implementation only through their own wakers until quiescence and compares outcomes and stuck sets.",
        note='Trusted: Lean kernel; axioms propext/Classical.choice/Quot.sound; translator flags (Gen/Flags.lean), harness + ./check; library semantics modelled not verified (tokio mpsc/oneshot/semaphore hand-off, tokio-util DelayQueue timer wheel, futures Abortable/Fuse); one poll = one atomic step; executor drops a completed dispatch / the application stops at the first error item. ',
        technique='Lean 4 per-event wake theorems + woken-only differential execution to quiescence (settle) on model and implementation', design='8/C02'),
    'C03': dict(text="Lean 4 theorems over the client model: the dequeue loop never yields a request whose receiver is closed; a Cancel is written only for an id that was in flight (and removes it), hence at most once and only after its Request; the guard closes the receiver before queueing the cancel at every yield point (hook); the third clause — after a dispatch poll that goes idle with the transport writable throughout, every abandoned, transmitted, unfinished call has its Cancel on the wire — is proved as acceptance of the full monitor on every model trace (C03_cancel_owed); run-level invariants over all op sequences as listed in evidence.theorems. Tie: exact correspondence incl. drops interleaved with the dispatch at the guard's three yield points; the C03 monitor (request after abandonment, cancel preconditions, cancel owed after a writable poll) runs on the implementation's trace.",
        note='Trusted: Lean kernel; axioms propext/Classical.choice/Quot.sound; translator flags (Gen/Flags.lean), harness + ./check; library semantics modelled not verified (tokio mpsc/oneshot/semaphore hand-off, tokio-util DelayQueue timer wheel, futures Abortable/Fuse); one poll = one atomic step; executor drops a completed dispatch / the application stops at the first error item. ',
        technique='Lean 4 invariant proofs over the client model + correspondence with hook-interleaved drops + monitor on implementation traces', design='8/C03'),
    'C04': dict(text="Lean 4 theorems over the server model: a Cancel for a tracked id sets exactly that execution's abort flag, forgets the entry and its timer and nothing else; for an untracked id it is the identity; an aborted execution never polls its handler nor queues a response; cascade down a chain of any depth by induction (Chain model). Tie: exact correspondence of the server model (cancel at every position relative to handler start/completion/response buffering/write, with and without limit, sink stalls); chain family with real 1-3 hop client/server chains; C04 monitor on implementation traces.",
        note='Trusted: Lean kernel; axioms propext/Classical.choice/Quot.sound; translator flags (Gen/Flags.lean), harness + ./check; library semantics modelled not verified (tokio mpsc/oneshot/semaphore hand-off, tokio-util DelayQueue timer wheel, futures Abortable/Fuse); one poll = one atomic step; executor drops a completed dispatch / the application stops at the first error item. ',
        technique='Lean 4 mechanism + induction proofs + model/implementation correspondence (single hop exact, chains abstract)', design='8/C04'),
    'C05': dict(text="Lean 4 theorems over the client model and the DelayQueue (timer-wheel) model: a DeadlineExceeded outcome is produced only at a virtual time >= the call's deadline (never early), for every deadline (incl. those beyond the one-year timer clamp: the timer is re-armed), queueing delay and clock stepping; the armed timeout is min(deadline - transmission time, clamp) with the rest remembered. Not late: completeness of the timer-wheel emulation is proved (C05_delayq_complete, under a range that tarpc's one-year clamp guarantees below 2^35 ms of connection age) and bridged to the client: after a dispatch poll that goes idle no in-flight request's timer tick is at or before now and the wake-up is armed no later than the earliest tick; the timer tick of every request is exactly ceil_ms(deadline) also after re-arms (exact due-time accounting). Tie: exact correspondence under a virtual clock (verif-hooks) with clock steps landing 1 ns before / at / after timer ticks; C05 monitor (never early; reply before deadline wins; expired by the first dispatch poll at or after the tick).",
        note='Trusted: Lean kernel; axioms propext/Classical.choice/Quot.sound; translator flags (Gen/Flags.lean), harness + ./check; library semantics modelled not verified (tokio mpsc/oneshot/semaphore hand-off, tokio-util DelayQueue timer wheel, futures Abortable/Fuse); one poll = one atomic step; executor drops a completed dispatch / the application stops at the first error item. ',
        technique='Lean 4 invariant proof (timer entries never earlier than deadlines) + virtual-time correspondence + monitor', design='8/C05'),
    'C06': dict(text='Lean 4 theorems over the server model: expiry aborts only at now >= deadline (never early, incl. deadlines beyond the one-year timer clamp: the timer is re-armed); expiry touches only the expired request; aborts at the deadline: an idle basePollNext / an idle unlimited Requests::poll_next leaves no tracked request with its timer tick at or before now (DelayQueue completeness proved and bridged, clock below 2^35 ms); witness theorem for the limiter stall (known finding). Tie: exact correspondence under a virtual clock; C06 monitor on implementation traces; the stall finding is matched by signature and reported as KNOWN-FINDING.',
        note='Trusted: Lean kernel; axioms propext/Classical.choice/Quot.sound; translator flags (Gen/Flags.lean), harness + ./check; library semantics modelled not verified (tokio mpsc/oneshot/semaphore hand-off, tokio-util DelayQueue timer wheel, futures Abortable/Fuse); one poll = one atomic step; executor drops a completed dispatch / the application stops at the first error item. ',
        technique='Lean 4 invariant proofs + virtual-time correspondence + monitor; known finding by signature', design='8/C06'),
    'C08': dict(text='Lean 4 theorems over the server model: a response is written only while its id is tracked and that untracks it (at most one per accepted request, none for ids never read); a request whose id is tracked is ignored without any state change; run-level statements as listed in evidence.theorems. Tie: exact correspondence on peer streams with fresh ids, duplicates while in flight, ids re-used after completion, cancels, closes, every completion order; C08 monitor.',
        note='Trusted: Lean kernel; axioms propext/Classical.choice/Quot.sound; translator flags (Gen/Flags.lean), harness + ./check; library semantics modelled not verified (tokio mpsc/oneshot/semaphore hand-off, tokio-util DelayQueue timer wheel, futures Abortable/Fuse); one poll = one atomic step; executor drops a completed dispatch / the application stops at the first error item. ',
        technique='Lean 4 mechanism/invariant proofs + correspondence + monitor', design='8/C08'),
    'C09': dict(text='Lean 4 theorems over both models: the dispatch ends with the activity of the transport call that failed; a failing request write completes only that call with Send; after a terminal error no transport call is made; the server reports the failing activity through its stream and dropping the stream aborts every tracked handler; no model step panics under any fault sequence (deadline range as hypothesis). Tie: one-shot faults injected before any transport call by the PRNG with calls in every stage, EOF at every point; C09 monitors on implementation traces.',
        note='Trusted: Lean kernel; axioms propext/Classical.choice/Quot.sound; translator flags (Gen/Flags.lean), harness + ./check; library semantics modelled not verified (tokio mpsc/oneshot/semaphore hand-off, tokio-util DelayQueue timer wheel, futures Abortable/Fuse); one poll = one atomic step; executor drops a completed dispatch / the application stops at the first error item. ',
        technique='Lean 4 control-flow proofs + fault-injection correspondence + monitors', design='8/C09'),
    'C10': dict(text='Lean 4 theorems: the client calls poll_close only with both queues closed and drained; after inbound EOF the dispatch completes in that poll; the server stream ends only with inbound closed, nothing in flight and nothing unflushed. Tie: correspondence with handle drop / peer close at every point; C10 monitors.',
        note='Trusted: Lean kernel; axioms propext/Classical.choice/Quot.sound; translator flags (Gen/Flags.lean), harness + ./check; library semantics modelled not verified (tokio mpsc/oneshot/semaphore hand-off, tokio-util DelayQueue timer wheel, futures Abortable/Fuse); one poll = one atomic step; executor drops a completed dispatch / the application stops at the first error item. ',
        technique='Lean 4 control-flow proofs + correspondence + monitors', design='8/C10'),
    'C11': dict(text='Lean 4 theorems: client in-flight table never exceeds max_in_flight_requests; on both ends the armed timers and the table always have the same keys (every removal path removes the timer): the verif-hooks counters are always equal; the full client monitor incl. the reclaim clause accepts every model trace (C11_monitor_full_accepts). Tie: correspondence incl. the hook counters; C11 monitors (bound; table = timers; reclaimed when idle / equality with the yielded-and-unfinished requests at idle polls); server stall finding reported as KNOWN-FINDING.',
        note='Trusted: Lean kernel; axioms propext/Classical.choice/Quot.sound; translator flags (Gen/Flags.lean), harness + ./check; library semantics modelled not verified (tokio mpsc/oneshot/semaphore hand-off, tokio-util DelayQueue timer wheel, futures Abortable/Fuse); one poll = one atomic step; executor drops a completed dispatch / the application stops at the first error item. ',
        technique='Lean 4 invariant proofs + correspondence incl. hook counters + monitors; known finding by signature', design='8/C11'),
    'C12': dict(text='Lean 4 theorems over the limiter model: a request is handed out only with at most L in flight including itself; a refused request gets exactly the throttle reply and never becomes an execution; a refusal happens only in a poll that began at the limit; witness theorem for the over-throttle (known finding: refused although fewer than L in flight when read). Tie: correspondence with limits 0-2 and mixed request/cancel batches; C12 monitor; the over-throttle finding is matched by signature.',
        note='Trusted: Lean kernel; axioms propext/Classical.choice/Quot.sound; translator flags (Gen/Flags.lean), harness + ./check; library semantics modelled not verified (tokio mpsc/oneshot/semaphore hand-off, tokio-util DelayQueue timer wheel, futures Abortable/Fuse); one poll = one atomic step; executor drops a completed dispatch / the application stops at the first error item. ',
        technique='Lean 4 proofs over the limiter model + correspondence + monitor; known finding by signature', design='8/C12'),
    'C14': dict(text='Lean 4 theorems over both models and the SimTransport contract recorder: no start_send without a preceding poll_ready -> Ready in any reachable state; no write after close or after a readiness/flush/close failure; with the current ensure_writeable no busy loop, proved unconditionally for every reachable trace of both models (witness theorem for the pre-fix loop); flush pending or done whenever the owner goes idle. Tie: correspondence of the complete transport call sequence (capacities 1-3, coupled and independent readiness, faults); C14 monitor on implementation traces; translator flags tie the ensure_writeable shape to the source.',
        note='Trusted: Lean kernel; axioms propext/Classical.choice/Quot.sound; translator flags (Gen/Flags.lean), harness + ./check; library semantics modelled not verified (tokio mpsc/oneshot/semaphore hand-off, tokio-util DelayQueue timer wheel, futures Abortable/Fuse); one poll = one atomic step; executor drops a completed dispatch / the application stops at the first error item. ',
        technique='Lean 4 control-flow proofs + full transport-call-log correspondence + monitor + translator flag', design='8/C14'),
    'C18': dict(text="Lean 4 theorems: the Cancel written for an id carries the trace context stored with its in-flight entry, which is the one its Request was written with (same trace id, span id, sampling decision); chain model: every hop observes the caller's trace id and sampling decision with pairwise distinct fresh spans, non-interference between concurrent calls. Tie: correspondence of trace fields at the client sink and of the context the server yields; chain family on real 1-3 hop chains; C18 monitors.",
        note='Trusted: Lean kernel; axioms propext/Classical.choice/Quot.sound; translator flags (Gen/Flags.lean), harness + ./check; library semantics modelled not verified (tokio mpsc/oneshot/semaphore hand-off, tokio-util DelayQueue timer wheel, futures Abortable/Fuse); one poll = one atomic step; executor drops a completed dispatch / the application stops at the first error item. ',
        technique='Lean 4 proofs (client/server models + chain model) + correspondence + monitors', design='8/C18'),
}

NOT_YET = {
}

def main():
    props = [json.loads(l) for l in (V / "properties.jsonl").read_text().splitlines() if l.strip()]
    checks, na = [], []
    for p in props:
        pid = p["id"]
        if pid in SYS and pid not in CLAIMED and list((V / "lean" / "TarpcModel" / "Props").glob(f"{pid}*.lean")) \
                and (V / "tools" / "props" / f"{pid.lower()}.py").exists():
            CLAIMED[pid] = SYS[pid]
        if pid in CLAIMED:
            c = CLAIMED[pid]
            checks.append({
                "property_id": pid,
                "quick_cmd": f"./check {pid} --tier quick",
                "thorough_cmd": f"./check {pid} --tier thorough",
                "evidence_file": f"/verif/evidence/{pid}.json",
                "replay_cmd_template": f"./check {pid} --replay {{path}}",
                "engine": "lean4-model+correspondence",
                "level_claimed": {"category": "proof", "text": c["text"], "design_ref": c["design"]},
                "level_note": c["note"],
                "technique": c["technique"],
            })
        else:
            na.append({"property_id": pid, "reason": NOT_YET.get(pid, "check not built yet in this session; planned per DESIGN.md section 13 (not a limit of the technique)")})
    m = {
        "version": 1,
        "setup_cmd": "./setup.sh",
        "hooks": {
            "guard": "verif-hooks",
            "enable": "cargo feature `verif-hooks` of crate tarpc (harness/Cargo.toml depends on /repo/tarpc with features full + verif-hooks)",
            "baseline_off_cmd": "cd /repo && cargo test --workspace --no-fail-fast --offline",
            "source_commits": ["629aaa8", "f2ec1a4"],
            "add_only": True,
        },
        "engines": [{
            "name": "lean4-model+correspondence", "path": "/verif/lean, /verif/harness, /verif/check",
            "serves_properties": sorted(CLAIMED),
            "kind_free_text": "Lean 4 executable model + theorems (lake build, #print axioms audit); Rust in-process "
                              "correspondence harness; compiled Lean driver evaluates model and proved monitors on the same op scripts",
        }],
        "checks": checks,
        "not_applicable": na,
        "notes": "See DESIGN.md. Every check rebuilds the harness against /repo's working tree (cargo, incremental) and the Lean obligations (lake, incremental).",
    }
    (V / "MANIFEST.json").write_text(json.dumps(m, indent=1) + "\n")

if __name__ == "__main__":
    main()

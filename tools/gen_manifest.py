#!/usr/bin/env python3
"""Writes MANIFEST.json from the table below (kept in one place so it stays valid)."""
import json
from pathlib import Path
V = Path(__file__).resolve().parents[1]

CLAIMED = {
    "C13": dict(
        text="Lean 4 theorems over an executable model of MaxChannelsPerKey (all op sequences, all n>=1, any keys): "
             "monitor acceptance, never-exceeded, shed-only-when-full, close-frees; model tied to the code by "
             "differential execution of the real MaxChannelsPerKey on generated and corpus scripts, the proved "
             "monitor also run on the implementation's trace.",
        note="Trusted: Lean kernel; axioms propext/Classical.choice/Quot.sound; harness + ./check; one poll_next "
             "is one atomic step; Arc/Weak/mpsc sequential semantics as modelled.",
        technique="Lean 4 invariant proof (induction over op lists) + model/implementation correspondence",
        design="8/C13"),
}

NOT_YET = {
}

def main():
    props = [json.loads(l) for l in (V / "properties.jsonl").read_text().splitlines() if l.strip()]
    checks, na = [], []
    for p in props:
        pid = p["id"]
        if pid in CLAIMED:
            c = CLAIMED[pid]
            checks.append({
                "property_id": pid,
                "quick_cmd": f"./check {pid} --tier quick",
                "thorough_cmd": f"./check {pid} --tier thorough",
                "evidence_file": f"/verif/evidence/{pid}.json",
                "replay_cmd_template": f"./check {pid} --replay {{path}}",
                "engine": "lean4-model+correspondence",
                "level_claimed": {"category": "proof", "text": c["text"], "design_ref": c["design"]},
                "level_note": c["note"],
                "technique": c["technique"],
            })
        else:
            na.append({"property_id": pid, "reason": NOT_YET.get(pid, "check not built yet in this session; planned per DESIGN.md section 13 (not a limit of the technique)")})
    m = {
        "version": 1,
        "setup_cmd": "./setup.sh",
        "hooks": {
            "guard": "verif-hooks",
            "enable": "cargo feature `verif-hooks` of crate tarpc (harness/Cargo.toml depends on /repo/tarpc with features full + verif-hooks)",
            "baseline_off_cmd": "cd /repo && cargo test --workspace --no-fail-fast --offline",
            "source_commits": ["629aaa8"],
            "add_only": True,
        },
        "engines": [{
            "name": "lean4-model+correspondence", "path": "/verif/lean, /verif/harness, /verif/check",
            "serves_properties": sorted(CLAIMED),
            "kind_free_text": "Lean 4 executable model + theorems (lake build, #print axioms audit); Rust in-process "
                              "correspondence harness; compiled Lean driver evaluates model and proved monitors on the same op scripts",
        }],
        "checks": checks,
        "not_applicable": na,
        "notes": "See DESIGN.md. Every check rebuilds the harness against /repo's working tree (cargo, incremental) and the Lean obligations (lake, incremental).",
    }
    (V / "MANIFEST.json").write_text(json.dumps(m, indent=1) + "\n")

if __name__ == "__main__":
    main()

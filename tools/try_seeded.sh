#!/bin/bash
# usage: try_seeded.sh <patch.diff> <Cxx> [<Cyy> ...] — apply to /repo, run the quick checks, revert.
P=$1; shift
export VERIF_TARGET=/verif/.cache/target-seeded
export VERIF_EVIDENCE_DIR=/verif/.cache/evidence-seeded
git -C /repo apply "$P" || { echo "patch does not apply: $P"; exit 2; }
for c in "$@"; do
  echo "--- $c on $(basename $(dirname $P))"
  timeout 1200 /verif/check $c 2>&1 | grep -E 'VIOLATION|KNOWN|^#' | cut -c1-260 | head -5
done
git -C /repo checkout -- .
